"""Shared structural model of the envelope verifier (verify_signable), used by C01, C02,
C06 and C09: the per-entry loop, its body paths, the accumulator that reaches the accept
comparison, and fact predicates stated at primitive level (so that renaming or inlining
a helper does not change a verdict, while weakening it does)."""
from __future__ import annotations

from sa import AnalysisError
from sa.terms import C, CallT, Elem, P, Sub, SubC, is_call, is_const, is_lit, linear_form, norm_codec, show, show_fact
from sa.walker import JSON_TYPES, State, flatten_events

VS = "authentication.verify_signable"
FROM_PUBLIC = "ext:cryptography.hazmat.primitives.asymmetric.ed25519.Ed25519PublicKey.from_public_bytes"


# ------------------------------------------------------------------ fact predicates
def st_of(facts):
    return State(facts=facts)


def hexconj(st, t, n=None):
    """t passed the three hex-string conjuncts (+ length n): it is [0-9a-f]{n} exactly"""
    ok = (
        st.holds(("ok", CallT("ext:bytes.fromhex", [t])))
        and st.holds(("truthy", CallT("method:isalnum", [t])))
        and (st.holds(("eq", CallT("method:lower", [t]), t)) or st.holds(("eq", t, CallT("method:lower", [t]))))
    )
    if ok and n is not None:
        ok = st.holds(("eq", CallT("builtin:len", [t]), C(n)))
    if not ok:
        from . import hexlang

        ok = hexlang.hex_missing_semantic(hexlang.current(), st, t, n) == []
    if not ok:
        from .c15 import _validated_by_exact_checker

        ok = _validated_by_exact_checker(st, t, n)
    return ok


def missing_hexconj(st, t, n=None):
    if hexconj(st, t, n):
        return []
    out = []
    if not st.holds(("ok", CallT("ext:bytes.fromhex", [t]))):
        out.append("bytes.fromhex(%s) succeeded" % show(t))
    if not st.holds(("truthy", CallT("method:isalnum", [t]))):
        out.append("%s.isalnum()" % show(t))
    if not (st.holds(("eq", CallT("method:lower", [t]), t)) or st.holds(("eq", t, CallT("method:lower", [t])))):
        out.append("%s.lower() == %s" % (show(t), show(t)))
    if n is not None and not st.holds(("eq", CallT("builtin:len", [t]), C(n))):
        out.append("len(%s) == %d" % (show(t), n))
    if out:
        from . import hexlang

        sem = hexlang.hex_missing_semantic(hexlang.current(), st, t, n)
        if sem is not None:
            return ["%s %s" % (show(t), m) for m in sem]
    return out


def envelope(st, x):
    miss = []
    if not st.holds(("type", x, frozenset(["dict"]))):
        miss.append("%s is a dict" % show(x))
    if not st.holds(("keys", x, frozenset(["signatures", "signed"]))):
        miss.append("%s has exactly the fields signatures, signed" % show(x))
    if not st.holds(("type", SubC(x, "signatures"), frozenset(["dict"]))):
        miss.append("%s['signatures'] is a dict" % show(x))
    if not st.holds(("type", SubC(x, "signed"), JSON_TYPES)):
        miss.append("%s['signed'] has a JSON-serializable type" % show(x))
    return miss


def forall_bodies(st, container):
    for f in st.closure():
        if f[0] == "forall" and f[1] == container:
            yield Elem(f[1], f[2]), f[3]


def keylist(st, L, distinct=False):
    miss = []
    if not st.holds(("type", L, frozenset(["list"]))):
        miss.append("%s is a list" % show(L))
    good = False
    for el, body in forall_bodies(st, L):
        if hexconj(State(facts=set(body) | st.facts), el, 64):
            good = True
    if not good:
        miss.append("every element of %s is 64 lower-case hex characters" % show(L))
    return miss


def le_form(op, l, r):
    """integer comparison l op r  ->  (frozenset(coeff items), const) meaning sum + const <= 0"""
    a, b = linear_form(l), linear_form(r)
    if a is None or b is None:
        return None
    co = dict(a[0])
    for k, v in b[0].items():
        co[k] = co.get(k, 0) - v
    c = a[1] - b[1]
    if op == "<":
        c += 1
    elif op == ">":
        co = {k: -v for k, v in co.items()}
        c = -c + 1
    elif op == ">=":
        co = {k: -v for k, v in co.items()}
        c = -c
    elif op != "<=":
        return None
    return (frozenset((k, v) for k, v in co.items() if v), c)


def le_facts(facts):
    for f in facts:
        if f[0] == "cmp":
            lf = le_form(f[1], f[2], f[3])
            if lf is not None:
                yield f, lf


def posint(st, n):
    miss = []
    if not st.holds(("type", n, frozenset(["int", "bool"]))):
        miss.append("%s is an int" % show(n))
    want = frozenset({(n, -1)})  # -n + c <= 0  with c >= 1  <=>  n >= 1
    if not any(co == want and c >= 1 for _f, (co, c) in le_facts(st.closure())):
        miss.append("%s >= 1" % show(n))
    return miss


# ------------------------------------------------------------------ the model
class BodyPath:
    def __init__(self, raw, G):
        self.kind, self.delta, events, self.payload, self.facts = raw
        self.events = [ev for ev, _d in flatten_events(events)]
        self.stores = [ev for ev in self.events if _touches(ev, G)]
        self.st = State(facts=self.facts)

    @property
    def outcome(self):
        if self.stores:
            return "count" if self.kind in ("fall", "continue") else "count+" + self.kind
        return {"fall": "skip", "continue": "skip"}.get(self.kind, self.kind)


def _touches(ev, G):
    if G is None:
        return False
    if ev[0] in ("store", "del") and _root(ev[2]) == G:
        return True
    if ev[0] == "mutcall" and _root(ev[2]) == G:
        return True
    return False


def _root(t):
    while isinstance(t, tuple) and t and t[0] in ("sub", "attr"):
        t = t[1]
    return t


class VSModel:
    def __init__(self, eng):
        self.eng = eng
        prog = eng.prog
        fi = prog.func(VS)
        inline = frozenset(q for q, f in prog.funcs.items() if f.mod.short == "authentication" and q != VS)
        self.sm = eng.summary(fi, None, inline)
        ps = self.sm.params
        if len(ps) < 4:
            raise AnalysisError("verify_signable no longer takes (signable, authorized keys, threshold, gpg)")
        self.signable, self.authorized, self.threshold, self.gpg = (P(x) for x in ps[:4])
        self.sigmap = SubC(self.signable, "signatures")
        self.payload = SubC(self.signable, "signed")
        self.G = self._accumulator_of([p for p in self.sm.paths if p.kind == "return"])
        # the per-entry loop: the loop whose body inserts into the counted set; by default the loop
        # over the presented envelope's signature map
        self.loop_base = self.sigmap
        if self.G is not None:
            for p in self.sm.paths:
                if p.kind != "return":
                    continue
                for ev, _d in flatten_events(p.events):
                    if ev[0] == "loop" and any(_touches(e2, self.G) for bp in ev[4] for e2, _d2 in flatten_events(bp[2])):
                        self.loop_base = ev[2]
        self.returns, self.pre_raises, self.loop_escapes, self.post_raises, self.early_returns = [], [], [], [], []
        self.loop_event = None
        for p in self.sm.paths:
            evs = [ev for ev, _d in flatten_events(p.events)]
            in_iter = any(ev[0] == "loop-iter" and ev[2] == self.loop_base for ev in evs)
            after = [ev for ev in evs if ev[0] == "loop" and ev[2] == self.loop_base]
            if after and self.loop_event is None:
                # (several loops may run over the same map - a pre-computed filter, a report: the
                # per-entry loop is the one that inserts into the counted set)
                touching = [ev for ev in after if self.G is not None and any(_touches(e2, self.G) for bp in ev[4] for e2, _d2 in flatten_events(bp[2]))]
                self.loop_event = (touching or after)[0]
            if p.kind == "return":
                (self.returns if after and not in_iter else self.early_returns).append(p)
            elif in_iter:
                self.loop_escapes.append(p)
            elif after:
                self.post_raises.append(p)
            else:
                self.pre_raises.append(p)
        if self.loop_event is None:
            raise AnalysisError("verify_signable: no per-entry loop (over the envelope's signature map or inserting into the counted set) was found")
        self.key = self.loop_event[3]  # Elem: the raw map key
        self.entry = Sub(self.sigmap, self.key)
        self.body = [BodyPath(bp, self.G) for bp in self.loop_event[4]]

    def require_sigmap_loop(self):
        if self.loop_base != self.sigmap:
            raise AnalysisError("verify_signable iterates %s instead of the envelope's signature map: the per-entry decision table of C02 is not defined for this shape" % show(self.loop_base))

    def _accumulator(self):
        return self.G

    def _accumulator_of(self, rets):
        """the container whose size is compared with the threshold on the accepting paths"""
        cands = {}
        for p in rets:
            for f, (co, c) in le_facts(p.facts):
                for atom, coeff in co:
                    if is_call(atom, "builtin:len") and atom[2] and (is_lit(atom[2][0]) or is_call(atom[2][0], ("builtin:set", "builtin:dict", "builtin:list"))):
                        if any(a == self.threshold for a, _c in co):
                            cands[atom[2][0]] = cands.get(atom[2][0], 0) + 1
        if not cands:
            return None
        return max(cands, key=lambda t: cands[t])

    # required evidence on a counting path -------------------------------------------------
    def verified_raw(self, bp):
        """a successful ed25519 verify event: key = from_public_bytes(UNHEX(k)), signature bytes =
        UNHEX(entry['signature']), message = canonserialize(envelope['signed'])"""
        return self._verify_events(bp, gpg=False)

    def _verify_events(self, bp, gpg):
        want_key = ("call", FROM_PUBLIC, (("UNHEX", self.key),), ())
        want_sig = ("UNHEX", Sub(self.entry, C("signature")))
        want_msg = self.eng.expand(self.eng.repo_call("common.canonserialize", self.payload))
        hits, near = [], []
        for ev in bp.events:
            if ev[0] == "call" and ev[2] == "method:verify" and ev[5][0] == "ok":
                recv = norm_codec(self.eng.expand(ev[3][0]))
                args = [norm_codec(self.eng.expand(a)) for a in ev[3][1:]]
                if len(args) != 2:
                    continue
                key_ok = recv == want_key
                sig_ok = args[0] == want_sig
                if gpg:
                    msg_ok = self._digest_over(bp, ev[3][2], want_msg)
                else:
                    msg_ok = self.eng.expand(ev[3][2]) == want_msg
                (hits if key_ok and sig_ok and msg_ok else near).append((ev, key_ok, sig_ok, msg_ok))
        return hits, near

    def _digest_over(self, bp, digest, want_msg):
        """digest == H.finalize() where the first chunk fed to H on this path is the payload bytes
        (exact composition of the OpenPGP digest is C10's rule)"""
        if not (is_call(digest, ("method:finalize", "method:digest")) and digest[2]):
            return False
        h = digest[2][0]
        chunks = [ev[3] for ev in bp.events if ev[0] == "hash-update" and ev[2] == h]
        if is_call(h) and h[2] and not is_call(h, "ext:cryptography.hazmat.primitives.hashes.Hash"):
            chunks = [h[2][0]] + chunks  # hashlib.sha256(data)
        from sa.terms import concat_parts

        return bool(chunks) and self.eng.expand(concat_parts(chunks[0])[0]) == want_msg
