"""C01 - threshold soundness: no acceptance without enough valid authorized signers."""
from __future__ import annotations

from sa.terms import C, CallT, P, Sub, is_call, is_lit, norm_codec, show, show_fact
from sa.walker import State, flatten_events

from . import loc
from .vs import FROM_PUBLIC, VSModel, envelope, hexconj, keylist, le_facts, missing_hexconj, posint

EXPLANATION = (
    "Path-sensitive walk of the envelope verifier with the single-signature primitives inlined. R1: every accepting path "
    "passed the three argument gates (two-field envelope, list of 64-hex keys, positive int threshold), stated as primitive "
    "facts. R2: every path through the per-entry loop that inserts into the counted set G (the container whose size reaches "
    "the accept comparison, found by dataflow) inserts under the raw map key and holds: key grammar, entry grammar for the "
    "mode, membership in the caller's authorized list, and a successful ed25519 verify event whose key is "
    "from_public_bytes(unhex(that key)), whose signature bytes are unhex(that entry's signature) and whose message is "
    "canonserialize(envelope['signed']) (directly, or as first chunk of the digest in OpenPGP mode). R3: every accepting "
    "exit is dominated by len(G) >= threshold with the caller's own threshold (linear normal form); no early accept. "
    "R4: the two primitives return normally only after key.verify(unhex(signature), message) and do not swallow InvalidSignature."
)
RULE_TEXT = "obligations = argument gates x accepting paths, requirement groups x counting loop-body paths, accept exits, primitive accept paths; all are non-trivial (each needs guard facts or event matching)"


def run(ctx):
    eng = ctx.eng
    ctx.assume("A1", "A2", "A3", "A8")
    m = VSModel(eng)
    ctx.info["accepting_paths"] = len(m.returns)
    ctx.info["loop_body_paths"] = len(m.body)
    site_fn = eng.prog.site(m.sm.fi.mod, m.sm.fi.node, m.sm.fi.qualname)

    # "signatures over any other payload never contribute": the message compared is the canonical
    # form of the payload, and distinct payloads have distinct canonical forms only under an
    # injective serializer configuration (C07-R1, what determinism and injectivity need)
    from .c07 import serializer_config

    serializer_config(ctx.sub("DEP-C07"), published=False)

    # ---- R1 argument gates
    gates = {"envelope": [], "keylist": [], "threshold": []}
    for p in m.returns + m.early_returns:
        st = State(facts=p.facts)
        gates["envelope"].append(envelope(st, m.signable))
        gates["keylist"].append(keylist(st, m.authorized))
        gates["threshold"].append(posint(st, m.threshold))
    for g, misses in gates.items():
        bad = sorted({x for ms in misses for x in ms})
        ctx.count("R1.gates")
        ctx.ob("R1", "arg-gate|%s" % g, site_fn.loc(), "argument gate '%s' %s" % (g, "holds on all %d accepting paths" % len(misses) if not bad else "is not established on every accepting path: missing " + "; ".join(bad)), not bad and bool(misses))

    # ---- R3 threshold gate
    if m.G is None:
        ctx.ob("R3", "no-accept-comparison", site_fn.loc(), "no accepting path is dominated by a comparison of a counted-signer container's size with the caller's threshold", False)
    else:
        fresh = is_lit(m.G) and m.G[1] in ("dict", "set") and len(m.G[2]) == 0
        ctx.ob("R3", "accumulator-fresh", site_fn.loc(), "the counted set %s is %s" % (show(m.G), "a fresh empty container created by this call" if fresh else "not a fresh empty dict/set created by this call"), fresh)
        lenG = CallT("builtin:len", [m.G])
        want = frozenset({(lenG, -1), (m.threshold, 1)})
        for i, p in enumerate(m.returns + m.early_returns):
            consts = [c for _f, (co, c) in le_facts(p.facts) if co == want]
            ok = any(c >= 0 for c in consts)
            ctx.count("R3.accept_exits")
            ctx.ob(
                "R3",
                "threshold-gate|path%d" % i if not ok else "threshold-gate",
                site_fn.loc(),
                "accepting exit %s len(counted set) >= threshold with the caller's threshold" % ("is dominated by" if ok else "is NOT dominated by"),
                ok,
                {"comparisons on this path": [show_fact(f) for f, _l in le_facts(p.facts)][:6]},
            )

    # ---- R2 guarded accumulation
    counting = [bp for bp in m.body if bp.stores]
    modes = set()
    for bp in counting:
        for ev in bp.stores:
            s = ev[1]
            ctx.count("R2.insert_sites")
            keyed = (ev[0] == "store" and ev[2] == Sub(m.G, m.key)) or (ev[0] == "mutcall" and ev[3] == "add" and ev[4] == (m.key,))
            ctx.ob("R2", "insert-key|%s" % s.key(), s.loc(), "insertion into the counted set is %s" % ("filed under the raw map key (distinct keys, one count each)" if keyed else "not an insertion under the raw map key: " + ev[0] + " " + show(ev[2])), keyed)
            st = bp.st
            miss = missing_hexconj(st, m.key, 64)
            ctx.ob("R2", "insert-keygrammar|%s" % s.key(), s.loc(), "insertion %s" % ("is dominated by the key grammar (64 lower-case hex)" if not miss else "is not dominated by the key grammar: missing " + "; ".join(miss)), not miss)
            auth = st.holds(("has", m.authorized, m.key))
            ctx.ob("R2", "insert-authorized|%s" % s.key(), s.loc(), "insertion %s membership of the key in the caller's authorized list" % ("is dominated by" if auth else "is NOT dominated by"), auth)
            raw, gpg = st.holds(("falsy", m.gpg)), st.holds(("truthy", m.gpg))
            sigfield = Sub(m.entry, C("signature"))
            if raw == gpg:
                ctx.ob("R2", "insert-mode|%s" % s.key(), s.loc(), "insertion on a path where the signature mode is not decided by the gpg argument", False)
                continue
            modes.add("gpg" if gpg else "raw")
            shape_miss = []
            if not st.holds(("type", m.entry, frozenset(["dict"]))):
                shape_miss.append("entry is a dict")
            if not st.holds(("has", m.entry, C("signature"))):
                shape_miss.append("entry has 'signature'")
            shape_miss += missing_hexconj(st, sigfield, 128)
            if gpg:
                oh = Sub(m.entry, C("other_headers"))
                if not st.holds(("has", m.entry, C("other_headers"))):
                    shape_miss.append("entry has 'other_headers'")
                shape_miss += missing_hexconj(st, oh, None)
            if not shape_miss:
                # ... and of exactly one of the two shapes: a raw entry has the one field, an OpenPGP
                # entry its two or three - anything carrying other fields is malformed and counts
                # for nothing (in raw mode the library admits both shapes)
                from .c15 import gpg_missing, raw_missing

                exact = (not gpg_missing(st, m.entry)) if gpg else (not raw_missing(st, m.entry) or not gpg_missing(st, m.entry))
                if not exact and not _exact_by_predicate(eng, st, m.entry, gpg):
                    shape_miss.append("the entry has exactly the fields of %s entry" % ("a raw or an OpenPGP" if not gpg else "an OpenPGP"))
            ctx.ob("R2", "insert-entrygrammar|%s|%s" % ("gpg" if gpg else "raw", s.key()), s.loc(), "insertion (%s mode) %s" % ("OpenPGP" if gpg else "raw", "is dominated by the entry grammar" if not shape_miss else "is not dominated by the entry grammar: missing " + "; ".join(shape_miss)), not shape_miss)
            hits, near = m._verify_events(bp, gpg=gpg)
            detail = {}
            if not hits and near:
                ev2, k_ok, s_ok, m_ok = near[0]
                detail = {"closest verify event": "%s.verify(%s)" % (show(ev2[3][0]), ", ".join(show(a) for a in ev2[3][1:])), "key matches": k_ok, "signature bytes match": s_ok, "message matches": m_ok}
            ctx.ob(
                "R2",
                "insert-crypto|%s|%s" % ("gpg" if gpg else "raw", s.key()),
                s.loc(),
                "insertion (%s mode) %s a successful ed25519 verification with this key, this entry's signature and canonserialize(envelope['signed'])" % ("OpenPGP" if gpg else "raw", "is dominated by" if hits else "is NOT dominated by"),
                bool(hits),
                detail,
            )
    ctx.count("R2.modes", len(modes))
    ctx.floor("R2.insert_sites", 2)
    ctx.floor("R2.modes", 2)

    # ---- R4 primitives
    _primitive(ctx, "authentication.verify_signature", gpg=False)
    _primitive(ctx, "authentication.verify_gpg_signature", gpg=True)


def _primitive(ctx, q, gpg):
    eng = ctx.eng
    sm = eng.walk(q)
    ps = sm.params
    fn_site = eng.prog.site(sm.fi.mod, sm.fi.node, q)
    if gpg:
        sig, key, data = P(ps[0]), P(ps[1]), P(ps[2])
        want_key = ("call", FROM_PUBLIC, (("UNHEX", key),), ())
        want_sig = ("UNHEX", Sub(sig, C("signature")))
    else:
        sig, key, data = P(ps[0]), P(ps[1]), P(ps[2])
        want_key = key
        want_sig = ("UNHEX", sig)
    n = 0
    for i, p in enumerate(sm.paths):
        if p.kind != "return":
            continue
        n += 1
        evs = [ev for ev, _d in flatten_events(p.events)]
        good = False
        for ev in evs:
            if ev[0] == "call" and ev[2] == "method:verify" and ev[5][0] == "ok" and len(ev[3]) == 3:
                recv = norm_codec(eng.expand(ev[3][0]))
                a0 = norm_codec(eng.expand(ev[3][1]))
                msg = ev[3][2]
                if gpg:
                    h = msg[2][0] if is_call(msg, ("method:finalize", "method:digest")) and msg[2] else None
                    chunks = [e[3] for e in evs if e[0] == "hash-update" and e[2] == h]
                    if h is not None and is_call(h) and h[2] and not h[1].endswith("hashes.Hash"):
                        chunks = [h[2][0]] + chunks
                    from sa.terms import concat_parts

                    msg_ok = bool(chunks) and concat_parts(chunks[0])[0] == data
                else:
                    msg_ok = msg == data
                if recv == want_key and a0 == want_sig and msg_ok:
                    good = True
        ctx.count("R4.accept_paths")
        ctx.ob("R4", "primitive-accept|%s" % q if good else "primitive-accept|%s|path%d" % (q, i), fn_site.loc(), "%s %s" % (q, "returns normally only after key.verify(unhex(signature), message) on its own arguments" if good else "can return normally without a successful key.verify over its own key, signature and data arguments"), good)
    esc = [x for x, _c in sm.escapes if x.exc == "InvalidSignature" and x.origin == "crypto"]
    ctx.ob("R4", "primitive-propagates|%s" % q, fn_site.loc(), "%s %s" % (q, "lets InvalidSignature from the crypto library escape to its caller" if esc else "swallows InvalidSignature (a bad signature would look like success)"), bool(esc) and n > 0)


def _exact_by_predicate(eng, st, entry, gpg):
    """the path holds is_x(entry) is True / ok(checkformat_x(entry)) for a predicate / checker of
    common.py that is itself exact for the entry grammar of the mode (C15's deciders)"""
    from sa.terms import is_call

    from .c15 import predicate_exact, raiser_exact

    kind = "gpg" if gpg else "raw|gpg"
    for f in st.closure():
        call = None
        if f[0] == "ret" and f[2] is True and is_call(f[1]) and f[1][1].startswith("repo:common.") and f[1][2] and f[1][2][0] == entry:
            call, fn = f[1], predicate_exact
        elif f[0] == "ok" and is_call(f[1]) and f[1][1].startswith("repo:common.checkformat_") and f[1][2] and f[1][2][0] == entry:
            call, fn = f[1], raiser_exact
        if call is None:
            continue
        q = call[1][5:].split("[")[0].split("<")[0]
        cache = eng.__dict__.setdefault("_entry_exact", {})
        key = (q, kind)
        if key not in cache:
            try:
                cache[key] = fn(eng, q, kind)[0] or (not gpg and fn(eng, q, "gpg")[0])
            except Exception:
                cache[key] = False
        if cache[key]:
            return True
    return False
