"""C16 - metadata constructors emit only well-formed, faithful metadata."""
from __future__ import annotations

from sa.terms import C, CallT, G, P, is_call, is_const, is_lit, show
from sa.walker import State, flatten_events

from . import flat, fn_site
from .c14 import ROW_KIND
from .kinds import KINDS

EXPLANATION = (
    "R1: every returning path of build_delegating_metadata returns a dict display with exactly the six fields type, version, "
    "metadata_spec_version, timestamp, expiration, delegations whose values are the parameters (or their defaults) verbatim "
    "and the library's spec-version constant, and on that path each placed value holds the facts of its field's grammar "
    "(str / utc / natural / delegations): validation happened on the very values returned. R2: the field -> grammar table "
    "used here is the one the delegating-metadata checker is verified against in C14 (one table, two sides), the field set "
    "covers the checker's required fields plus version, and the spec-version constant is a str literal. R3: "
    "build_root_metadata returns, unmodified, build_delegating_metadata('root', {'root': {pubkeys, threshold}, 'key_mgr': "
    "{...}}, version, timestamp, expiration) built from its own arguments. R4: the default expiration is "
    "iso8601_time_plus_delta(K) with K a positive timedelta of about one year, the default timestamp uses timedelta(0), and "
    "the helper returns (datetime.utcnow().replace(microsecond=0) + delta).isoformat() + 'Z' - naive and microsecond-free, "
    "the shape the checker's '%Y-%m-%dT%H:%M:%SZ' accepts."
)
RULE_TEXT = "obligations: returned display shape, per-field value provenance and grammar facts, root wrapper call arguments, default constants, timestamp helper term; non-trivial = term equality / facts on walked paths"

FIELDS = ("type", "version", "metadata_spec_version", "timestamp", "expiration", "delegations")
PARAM_OF = {"type": 0, "delegations": 1, "version": 2, "timestamp": 3, "expiration": 4}
HELPER = "repo:common.iso8601_time_plus_delta"


def const_timedelta(eng, t):
    """(days, seconds) of a constant timedelta term, else None"""
    if isinstance(t, tuple) and t and t[0] == "global" and t[1].startswith("const:"):
        t = eng.const_literal(t[1][6:])
    if is_call(t, "ext:datetime.timedelta"):
        names = ["days", "seconds", "microseconds", "milliseconds", "minutes", "hours", "weeks"]
        vals = dict(zip(names, t[2]))
        vals.update(dict(t[3]))
        if not all(is_const(v) and isinstance(v[2], (int, float)) for v in vals.values()):
            return None
        g = lambda k: vals.get(k, C(0))[2]  # noqa: E731
        return g("days") + 7 * g("weeks") + (g("seconds") + 60 * g("minutes") + 3600 * g("hours")) / 86400.0
    return None


def run(ctx):
    eng, prog = ctx.eng, ctx.prog
    ctx.assume("A1", "A3", "'expires strictly after its timestamp' for two separate clock reads is a wall-clock relation (not decided)")
    sm = eng.walk("metadata_construction.build_delegating_metadata")
    site = fn_site(eng, sm)
    ps = [P(x) for x in sm.params]
    rets = [p for p in sm.paths if p.kind == "return"]
    agg = {"six-fields": True, "verbatim": True, "validated": True, "spec-version": True}
    notes = {}
    defaults_seen = {"timestamp": set(), "expiration": set()}
    for p in rets:
        v = p.value
        if not (is_lit(v, "dict") and sorted(k[2] for k, _x in v[2] if is_const(k)) == sorted(FIELDS) and len(v[2]) == 6):
            agg["six-fields"] = False
            notes["six-fields"] = "returns %s" % show(v)[:100]
            continue
        d = {k[2]: x for k, x in v[2]}
        st = State(facts=p.facts)
        for f, idx in PARAM_OF.items():
            val = d[f]
            if val == ps[idx]:
                continue
            if f == "delegations" and is_lit(val, "dict") and not val[2]:
                continue
            if f in ("timestamp", "expiration") and st.holds(("type", ps[idx], frozenset(["NoneType"]))):
                defaults_seen[f].add(val)
                continue
            agg["verbatim"] = False
            notes["verbatim"] = "field '%s' is %s, not the parameter nor its default" % (f, show(val)[:80])
        spec_lit = eng.const_literal("common.SECURITY_METADATA_SPEC_VERSION")
        # (read by the builder itself or by a helper of its own module that it reaches)
        from sa.callgraph import CallGraph

        cone = CallGraph(eng.prog).cone([sm.fi.qualname])
        via_constant = any(_reads_constant(eng.prog.funcs[q].node, "SECURITY_METADATA_SPEC_VERSION") for q in cone if eng.prog.funcs[q].mod.short == sm.fi.mod.short)
        if not (d["metadata_spec_version"] == G("const:common.SECURITY_METADATA_SPEC_VERSION") or (spec_lit is not None and d["metadata_spec_version"] == spec_lit and via_constant)):
            agg["spec-version"] = False
            notes["spec-version"] = "metadata_spec_version is %s" % show(d["metadata_spec_version"])[:60]
        for f in FIELDS:
            if f == "metadata_spec_version":
                continue
            val = d[f]
            generated = f in ("timestamp", "expiration") and val != ps[PARAM_OF[f]]
            ms = KINDS[ROW_KIND[f]][0](st, val)
            if generated:
                # a generated default: its shape is decided by R4 (helper term), and it still went through the validator
                ms = [] if st.holds(("ok", eng.repo_call("common.checkformat_utc_isoformat", val))) or not ms else ms
            if ms:
                agg["validated"] = False
                notes["validated"] = "value placed in '%s' is not validated on its path: %s" % (f, "; ".join(ms)[:120])
    texts = {
        "six-fields": ("returns a dict display with exactly the six metadata fields", "does not return the six-field metadata display"),
        "verbatim": ("field values are the parameters (or their defaults) verbatim", "a field value is not the corresponding argument"),
        "validated": ("every value placed in the result holds its field's grammar facts on that path (validated before construction)", "a returned value was not validated"),
        "spec-version": ("metadata_spec_version is the library constant", "metadata_spec_version is not the library constant"),
    }
    if not rets:
        ctx.ob("R1", "never-returns", site.loc(), "build_delegating_metadata has no returning path", False)
    for k, ok in agg.items():
        ctx.count("R1.items")
        ctx.ob("R1", k, site.loc(), "build_delegating_metadata " + (texts[k][0] if ok else texts[k][1] + (": " + notes[k] if k in notes else "")) + " (%d returning paths)" % len(rets), ok and bool(rets))

    # ---- R2 one table on both sides
    lit = eng.const_literal("common.SECURITY_METADATA_SPEC_VERSION")
    ok = lit is not None and is_const(lit) and isinstance(lit[2], str)
    ctx.ob("R2", "spec-version-is-str", "conda_content_trust/common.py", "SECURITY_METADATA_SPEC_VERSION is %s" % ("the str literal %r (the checker requires a str)" % lit[2] if ok else "not a single str literal"), ok)
    shared = sorted(set(FIELDS) & set(ROW_KIND))
    ctx.ob("R2", "field-table", site.loc(), "builder and checker are verified against the same field -> grammar table for %s; builder fields cover the checker's required fields plus version" % ", ".join(shared), set(["type", "metadata_spec_version", "delegations", "expiration", "version"]) <= set(FIELDS), nontrivial=False)

    # the checker the result must pass is verified against the same table (C14's rule set)
    from . import c14

    c14.run(ctx.sub("DEP-C14"), deps=False)
    # "once wrapped ... after threshold signing it verifies as successor": the wrapped (and then
    # signed) payload must not change when the caller goes on using the objects it passed to the
    # builder (C12-R7, re-evaluated here)
    from .c12 import wrap_isolation

    wrap_isolation(ctx.sub("DEP-C12"), "R7")

    # ---- R3 root wrapper
    rm = eng.walk("metadata_construction.build_root_metadata")
    rsite = fn_site(eng, rm)
    rp = {n: P(n) for n in rm.params}
    names = rm.params
    rrets = [p for p in rm.paths if p.kind == "return"]
    ok_all, why = bool(rrets), "no returning path"
    for p in rrets:
        calls = [ev for ev in flat(p) if ev[0] == "call" and ev[2] == "repo:metadata_construction.build_delegating_metadata" and ev[5][0] == "ok"]
        if len(calls) != 1:
            ok_all, why = False, "%d calls of build_delegating_metadata" % len(calls)
            break
        ev = calls[0]
        a = ev[3]
        if p.value != ev[5][1]:
            ok_all, why = False, "the builder's result is not returned unmodified"
            break
        if a[0] != C("root"):
            ok_all, why = False, "metadata_type is %s" % show(a[0])
            break
        dl = a[1]
        want = {"root": (P(names[1]), P(names[2])), "key_mgr": (P(names[3]), P(names[4]))}
        got = {}
        if is_lit(dl, "dict"):
            for k, v in dl[2]:
                if is_const(k) and is_lit(v, "dict"):
                    dd = {kk[2]: vv for kk, vv in v[2] if is_const(kk)}
                    if set(dd) == {"pubkeys", "threshold"}:
                        got[k[2]] = (dd["pubkeys"], dd["threshold"])
        if got != want:
            ok_all, why = False, "delegations argument is %s" % show(dl)[:140]
            break
        if a[2] != P(names[0]) or a[3] != P(names[5]):
            ok_all, why = False, "version/timestamp are not passed through"
            break
        st = State(facts=p.facts)
        if not (a[4] == P(names[6]) or st.holds(("type", P(names[6]), frozenset(["NoneType"])))):
            ok_all, why = False, "expiration is not the argument or its default"
            break
        if a[4] != P(names[6]):
            defaults_seen["expiration"].add(a[4])
    ctx.ob("R3", "root-wrapper", rsite.loc(), "build_root_metadata " + ("returns build_delegating_metadata('root', {'root': ..., 'key_mgr': ...}, version, timestamp, expiration) of its own arguments, unmodified" if ok_all else "deviates: " + why), ok_all)

    # ---- R5 "either raise an argument error or return ...": whatever leaves the builders is a
    # TypeError or a ValueError (the classes the documentation names for bad arguments)
    for bq in ("metadata_construction.build_delegating_metadata", "metadata_construction.build_root_metadata"):
        bsm = eng.walk(bq)
        seen_esc = set()
        for p in bsm.paths:
            if p.kind != "raise":
                continue
            x = p.value
            ok_e = prog.exc_is_sub(x.exc, "TypeError") or prog.exc_is_sub(x.exc, "ValueError")
            k = (x.exc, x.chain[-1].key())
            if ok_e or k in seen_esc:
                continue
            seen_esc.add(k)
            ctx.ob("R5", "escape|%s|%s|%s" % (bq.split(".")[-1], x.exc, x.chain[-1].key()), x.chain[-1].loc(), "%s can fail with %s (%s) at %s: not an argument error" % (bq.split(".")[-1], x.exc, x.why[:80], x.chain[-1].text[:60]), False)
        ctx.count("R5.builders")
        if not seen_esc:
            ctx.ob("R5", "argument-errors-only|%s" % bq.split(".")[-1], fn_site(eng, bsm).loc(), "%s: every failing path raises TypeError or ValueError (%d failing paths)" % (bq.split(".")[-1], len([p for p in bsm.paths if p.kind == "raise"])), True)

    # ---- R4 defaults and helper
    for f, vals in sorted(defaults_seen.items()):
        for val in sorted(vals, key=repr):
            ok, why = _default_ok(eng, f, val)
            ctx.count("R4.defaults")
            ctx.ob("R4", "default|%s|%s" % (f, show(val)[:50]), site.loc(), "default %s %s" % (f, why), ok)
    ctx.floor("R4.defaults", 2)
    hm = eng.walk("common.iso8601_time_plus_delta")
    delta = P(hm.params[0])
    hrets = [p for p in hm.paths if p.kind == "return"]
    okh, whyh = bool(hrets), "no returning path"
    for p in hrets:
        ok1, why1 = _helper_shape(p.value, delta)
        if not ok1:
            okh, whyh = False, why1
        if not State(facts=p.facts).holds(("type", delta, frozenset(["obj:datetime.timedelta"]))):
            okh, whyh = False, "delta is not checked to be a timedelta"
    ctx.ob("R4", "timestamp-helper", fn_site(eng, hm).loc(), "iso8601_time_plus_delta " + ("returns (utcnow().replace(microsecond=0) + delta).isoformat() + 'Z': naive, microsecond-free" if okh else "deviates: " + whyh), okh)


def _reads_constant(fn_node, name):
    """does the function body read the module constant by name (rather than repeat its literal)"""
    import ast

    return any(isinstance(n, ast.Name) and n.id == name and isinstance(n.ctx, ast.Load) for n in ast.walk(fn_node)) or any(isinstance(n, ast.Attribute) and n.attr == name for n in ast.walk(fn_node))


def _default_ok(eng, field, val):
    # the default is a direct call of the helper: after expansion it is the helper's term with delta := K
    from sa.terms import text_parts

    parts = text_parts(val)
    if not (len(parts) == 2 and parts[1] == C("Z") and is_call(parts[0], "method:isoformat") and parts[0][2]):
        return False, "is %s, not produced by the timestamp helper" % show(val)[:80]
    d = parts[0][2][0]
    if not (isinstance(d, tuple) and d[0] == "binop" and d[1] == "+"):
        return False, "is not now + delta"
    k = const_timedelta(eng, d[3])
    if k is None:
        return False, "uses a non-constant distance %s" % show(d[3])[:60]
    if field == "timestamp":
        return (k == 0, "is now + timedelta(0)" if k == 0 else "is now + %s days, not now" % k)
    return (360 <= k <= 370, "is now + %s days (about one year, strictly positive)" % k if 360 <= k <= 370 else "is now + %s days, not about one year" % k)


def _helper_shape(v, delta):
    from sa.terms import text_parts

    parts = text_parts(v)
    if not (len(parts) == 2 and parts[1] == C("Z") and is_call(parts[0], "method:isoformat") and len(parts[0][2]) == 1 and not parts[0][3]):
        return False, "does not return <datetime>.isoformat() + 'Z' (%s)" % show(v)[:80]
    d = parts[0][2][0]
    if not (isinstance(d, tuple) and d[0] == "binop" and d[1] == "+" and delta in (d[2], d[3])):
        return False, "the datetime is not now + delta"
    now = d[2] if d[3] == delta else d[3]
    if not (is_call(now, "method:replace") and now[2] and dict(now[3]).get("microsecond") == C(0) and set(dict(now[3])) <= {"microsecond", "tzinfo"} and dict(now[3]).get("tzinfo", C(None)) == C(None)):
        return False, "microseconds are not stripped with replace(microsecond=0) (%s)" % show(now)[:80]
    src = now[2][0]
    if not (is_call(src, "ext:datetime.datetime.utcnow") and not src[2] and not src[3]):
        return False, "the clock read is %s, not the naive datetime.utcnow() (an aware datetime renders '+00:00' and fails the checker's format)" % show(src)[:80]
    return True, ""
