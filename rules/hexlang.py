"""Semantic decision of string grammars from path facts (DESIGN 8.6).

The facts a path holds about a string term t (conversion succeeded, predicates true/false,
length relations, regular-expression matches, per-character membership from all()/any()/loops,
set relations) are turned into regular languages (sa.strlang); their intersection is the set of
strings that can reach this path.  An accepting path is sound for a grammar iff that language is
included in the grammar's; a rejecting path rejects nothing valid iff it is disjoint from it.
Unrecognised facts are ignored (the language only grows), so inclusion stays sound and
disjointness conservative.  The value must separately be known to be a str."""
from __future__ import annotations

from sa import strlang as SL
from sa.terms import C, CallT, is_call, is_const, is_lit, lit_const_values

_STRPRED = {"isalnum": ("alnum", True), "isdigit": ("digit", True), "isdecimal": ("decimal", True), "isalpha": ("alpha", True), "isspace": ("space", True), "isascii": ("ascii", False)}
_NONE = frozenset(["NoneType"])
_FLIP = {"<": ">", ">": "<", "<=": ">=", ">=": "<=", "==": "==", "!=": "!="}
_CACHE = {}


class _W:
    """what the extractor needs from the engine: the program (for compiled patterns) and
    module-constant literals"""

    def __init__(self, eng):
        self.eng, self.prog = eng, eng.prog

    def const_literal(self, gterm, _st=None):
        if not (isinstance(gterm, tuple) and len(gterm) == 2 and gterm[0] == "global" and gterm[1].startswith("const:")):
            return None
        return self.eng.const_literal(gterm[1][6:])


ENG = [None]


def use_engine(eng):
    ENG[0] = _W(eng) if eng is not None else None


def current():
    return ENG[0]


def notl(x):
    return ("notl", x)


def _len_of(x, t):
    return is_call(x, "builtin:len") and len(x[2]) == 1 and x[2][0] == t


def _intc(x):
    return is_const(x) and isinstance(x[2], int) and not isinstance(x[2], bool)


def _lenmod(x, t):
    """len(t) % m -> m"""
    if isinstance(x, tuple) and len(x) == 4 and x[0] == "binop" and x[1] == "%" and _len_of(x[2], t) and _intc(x[3]) and x[3][2] > 0:
        return x[3][2]
    return None


def _chars_of(w, term):
    """the characters of a constant str / a display or constant collection of one-character strs"""
    if is_const(term) and isinstance(term[2], str):
        return frozenset(term[2])
    if is_call(term, ("builtin:set", "builtin:frozenset", "builtin:list", "builtin:tuple", "builtin:sorted")) and len(term[2]) == 1:
        return _chars_of(w, term[2][0])
    lit = term if is_lit(term) else (w.const_literal(term, None) if w is not None and hasattr(w, "const_literal") else None)
    if lit is not None and lit != term and is_call(lit, ("builtin:set", "builtin:frozenset", "builtin:list", "builtin:tuple", "builtin:sorted")):
        return _chars_of(w, lit)  # CONSTANT = frozenset("0123456789abcdef")
    if lit is not None and is_lit(lit) and lit[1] != "dict":
        vals = lit_const_values(lit)
        if vals is not None and all(isinstance(v, str) and len(v) == 1 for v in vals):
            return frozenset(vals)
    if lit is not None and is_const(lit) and isinstance(lit[2], str):
        return frozenset(lit[2])
    return None


def _elem_charset(w, body, el):
    """character set an element fact set confines el to (unrecognised facts ignored)"""
    parts = []
    for g in body:
        k = g[0]
        if k in ("has", "nothas") and g[2] == el:
            cs = _chars_of(w, g[1])
            if cs is not None:
                parts.append(("chars", cs) if k == "has" else ("not", ("chars", cs)))
        elif k in ("in", "notin") and g[1] == el:
            cs = _chars_of(w, g[2])
            if cs is not None:
                parts.append(("chars", cs) if k == "in" else ("not", ("chars", cs)))
        elif k in ("eq", "ne"):
            for p, q in ((g[1], g[2]), (g[2], g[1])):
                if p == el and is_const(q) and isinstance(q[2], str) and len(q[2]) == 1:
                    parts.append(("chars", frozenset(q[2])) if k == "eq" else ("not", ("chars", frozenset(q[2]))))
        elif k in ("truthy", "falsy") and is_call(g[1]) and g[1][1].startswith("method:") and g[1][2] == (el,):
            name = g[1][1][7:]
            if name in _STRPRED:
                parts.append(("scan", _STRPRED[name][0]) if k == "truthy" else ("not", ("scan", _STRPRED[name][0])))
        elif k == "cmp":
            op, l, r = g[1], g[2], g[3]
            if r == el and is_const(l):
                op, l, r = _FLIP[op], r, l
            if l == el and is_const(r) and isinstance(r[2], str) and len(r[2]) == 1:
                cp = ord(r[2])
                lo, hi = {"<": (0, cp - 1), "<=": (0, cp), ">": (cp + 1, SL.MAXCP - 1), ">=": (cp, SL.MAXCP - 1)}[op]
                parts.append(("range", lo, hi) if lo <= hi else ("chars", frozenset()))
    if not parts:
        return ("any",)
    return ("and",) + tuple(parts) if len(parts) > 1 else parts[0]


def _regex_call(w, call, t):
    """(pattern, flags, mode) if `call` matches a static regular expression against t"""
    from sa.tables import compiled_pattern

    if not is_call(call):
        return None
    name = call[1]
    args = call[2]
    kw = dict(call[3]) if len(call) > 3 and call[3] else {}
    if name in ("ext:re.fullmatch", "ext:re.match", "ext:re.search"):
        pat = args[0] if args else kw.get("pattern")
        subj = args[1] if len(args) > 1 else kw.get("string")
        fl = args[2] if len(args) > 2 else kw.get("flags")
        if subj != t or pat is None:
            return None
        flags = 0
        if fl is not None:
            if not _intc(fl):
                return ("unsupported", "non-constant regex flags")
            flags = fl[2]
        if is_const(pat) and isinstance(pat[2], str):
            return (pat[2], flags, name.rsplit(".", 1)[1])
        cp = compiled_pattern(w, pat) if w is not None else None
        if cp is not None and not flags:
            return (cp[0], cp[1], name.rsplit(".", 1)[1])
        return ("unsupported", "non-constant regular expression")
    if name in ("method:fullmatch", "method:match", "method:search") and len(args) == 2 and args[1] == t and not kw:
        cp = compiled_pattern(w, args[0]) if w is not None else None
        if cp is None:
            return ("unsupported", "regular expression object of unknown source")
        return (cp[0], cp[1], name[7:])
    return None


def atoms_for(w, facts, t):
    """-> (atoms, str_evidence, notes)"""
    atoms, notes = [], []
    is_str = False
    fromhex = CallT("ext:bytes.fromhex", [t])
    unhex = (CallT("ext:binascii.unhexlify", [t]), CallT("ext:binascii.a2b_hex", [t]))
    for f in facts:
        k = f[0]
        if k in ("ok", "notok") and f[1] == fromhex:
            atoms.append(SL.L_fromhex() if k == "ok" else notl(SL.L_fromhex()))
            is_str = is_str or k == "ok"
        elif k in ("ok", "notok") and f[1] in unhex:
            # binascii.unhexlify(str): pairs of ASCII hexadecimal digits, nothing else (no whitespace)
            h = SL.sym(("chars", SL.HEXLOW | SL.HEXUP))
            lang = SL.star(SL.cat(h, h))
            atoms.append(lang if k == "ok" else notl(lang))
        elif k == "type" and f[1] == t and f[2] <= {"str"}:
            is_str = True
        elif k in ("truthy", "falsy"):
            x = f[1]
            pos = k == "truthy"
            if x == t:
                atoms.append(SL.L_len(">=", 1) if pos else SL.L_len("==", 0))
            elif x == fromhex:
                # bytes.fromhex(t) is non-empty / empty: at least one byte pair / only whitespace
                ws = SL.star(SL.sym(("chars", SL.HEXWS)))
                atoms.append(("and", SL.L_fromhex(), notl(ws)) if pos else ws)
                is_str = True
            elif is_call(x) and x[1].startswith("method:") and x[2] == (t,) and x[1][7:] in _STRPRED:
                lang = SL.L_allchars(*_STRPRED[x[1][7:]])
                atoms.append(lang if pos else notl(lang))
            elif is_call(x, ("method:islower", "method:isupper")) and x[2] == (t,):
                lang = SL.L_islower() if x[1].endswith("islower") else SL.L_isupper()
                atoms.append(lang if pos else notl(lang))
            elif _lenmod(x, t):
                lang = SL.L_len_mod(_lenmod(x, t), 0)
                atoms.append(notl(lang) if pos else lang)
            elif _len_of(x, t):
                atoms.append(SL.L_len(">=", 1) if pos else SL.L_len("==", 0))
            elif is_call(x, ("method:issuperset",)) and len(x[2]) == 2 and x[2][1] == t:
                cs = _chars_of(w, x[2][0])
                if cs is not None:
                    lang = SL.L_charset(cs)
                    atoms.append(lang if pos else notl(lang))
            elif is_call(x, ("method:issubset",)) and len(x[2]) == 2 and is_call(x[2][0], ("builtin:set", "builtin:frozenset")) and x[2][0][2] == (t,):
                cs = _chars_of(w, x[2][1])
                if cs is not None:
                    lang = SL.L_charset(cs)
                    atoms.append(lang if pos else notl(lang))
            else:
                rc = _regex_call(w, x, t)
                if rc is not None:
                    _add_regex(atoms, notes, rc, pos)
                    is_str = is_str or rc[0] != "unsupported"
        elif k in ("type", "nottype") and f[2] == _NONE:
            rc = _regex_call(w, f[1], t)
            if rc is not None:
                _add_regex(atoms, notes, rc, k == "nottype")
                is_str = is_str or rc[0] != "unsupported"
        elif k in ("eq", "ne"):
            for p, q in ((f[1], f[2]), (f[2], f[1])):
                pos = k == "eq"
                if q == t and is_call(p, "method:lower") and p[2] == (t,):
                    atoms.append(SL.L_lower_fixed() if pos else notl(SL.L_lower_fixed()))
                    break
                if q == t and is_call(p, "method:hex") and p[2] == (fromhex,):
                    # bytes.fromhex(t).hex() == t: t is the canonical (lower-case, unspaced) rendering
                    h = SL.sym(("chars", SL.HEXLOW))
                    lang = SL.star(SL.cat(h, h))
                    atoms.append(lang if pos else notl(lang))
                    break
                if q == t and is_call(p, "method:upper") and p[2] == (t,):
                    atoms.append(SL.L_upper_fixed() if pos else notl(SL.L_upper_fixed()))
                    break
                if _len_of(p, t) and _intc(q):
                    atoms.append(SL.L_len("==" if pos else "!=", q[2]))
                    break
                if _lenmod(p, t) and _intc(q):
                    lang = SL.L_len_mod(_lenmod(p, t), q[2]) if 0 <= q[2] < _lenmod(p, t) else ("empty",)
                    atoms.append(lang if pos else notl(lang))
                    break
                if p == t and is_const(q) and isinstance(q[2], str):
                    lang = SL.cat(*[SL.sym(("chars", frozenset(ch))) for ch in q[2]]) if q[2] else ("eps",)
                    atoms.append(lang if pos else notl(lang))
                    break
        elif k == "nonempty" and f[1] == t:
            atoms.append(SL.L_len(">=", 1))
        elif k in ("has", "nothas", "in", "notin") and (f[1] == t if k in ("has", "nothas") else f[2] == t):
            # "<text>" in t / not in t  (a substring test when t is a str)
            sub = f[2] if k in ("has", "nothas") else f[1]
            if is_const(sub) and isinstance(sub[2], str) and sub[2]:
                lang = SL.cat(SL.L_all(), *[SL.sym(("chars", frozenset(ch))) for ch in sub[2]], SL.L_all())
                atoms.append(lang if k in ("has", "in") else notl(lang))
        elif k == "cmp":
            op, l, r = f[1], f[2], f[3]
            if _len_of(r, t) and _intc(l):
                op, l, r = _FLIP[op], r, l
            if _len_of(l, t) and _intc(r):
                atoms.append(SL.L_len(op, r[2]))
            elif is_call(l, ("builtin:set", "builtin:frozenset")) and l[2] == (t,) and op in ("<=",):
                cs = _chars_of(w, r)
                if cs is not None:
                    atoms.append(SL.L_charset(cs))
            elif is_call(r, ("builtin:set", "builtin:frozenset")) and r[2] == (t,) and op in (">=",):
                cs = _chars_of(w, l)
                if cs is not None:
                    atoms.append(SL.L_charset(cs))
        elif k == "forall" and f[1] == t:
            el = ("elem", t, f[2])
            cs = _elem_charset(w, f[3], el)
            if cs != ("any",):
                atoms.append(SL.star(SL.sym(cs)))
        elif k == "forallalt" and f[1] == t:
            el = ("elem", t, f[2])
            alts = [_elem_charset(w, alt, el) for alt in f[3]]
            if alts and all(a != ("any",) for a in alts):
                atoms.append(SL.star(SL.sym(("or",) + tuple(alts) if len(alts) > 1 else alts[0])))
        elif k == "exists" and f[1] == t:
            el = ("elem", t, f[2])
            alts = [_elem_charset(w, alt, el) for alt in f[3]]
            if alts and all(a != ("any",) for a in alts):
                cs = ("or",) + tuple(alts) if len(alts) > 1 else alts[0]
                atoms.append(SL.cat(SL.L_all(), SL.sym(cs), SL.L_all()))
    # facts about one particular element (a path that left a loop over t from inside an iteration)
    loose = {}
    for f in facts:
        if f[0] in ("forall", "forallalt", "exists"):
            continue
        for x in f[1:]:
            for el in _elems_of(x, t):
                loose.setdefault(el, set()).add(f)
    for el, fs in loose.items():
        cs = _elem_charset(w, fs, el)
        if cs != ("any",):
            atoms.append(SL.cat(SL.L_all(), SL.sym(cs), SL.L_all()))
    return atoms, is_str, notes


def _elems_of(x, t):
    out = []
    if isinstance(x, tuple):
        if len(x) == 3 and x[0] == "elem" and x[1] == t:
            out.append(x)
        else:
            for y in x:
                out.extend(_elems_of(y, t))
    return out


def _add_regex(atoms, notes, rc, positive):
    if rc[0] == "unsupported":
        notes.append(rc[1])
        return
    pat, flags, mode = rc
    try:
        lang = SL.regex_language(pat, mode, flags)
    except SL.Unsupported as e:
        notes.append("regular expression %r: %s" % (pat, e))
        return
    atoms.append(lang if positive else notl(lang))


def decide(atoms, n):
    key = (repr(sorted(map(repr, atoms))), n)
    if key not in _CACHE:
        _CACHE[key] = SL.decide(atoms, SL.L_hex(n))
    return _CACHE[key]


def hex_missing_semantic(w, st, t, n=None):
    """[] if the facts of st confine t to lower-case hex (of n characters / of whole bytes);
    else a list with one human-readable reason.  None when no string fact about t is known."""
    facts = st.closure()
    atoms, is_str, notes = atoms_for(w, facts, t)
    ts = st.types(t)
    is_str = is_str or (ts is not None and ts <= {"str"})
    if not atoms:
        return None
    r = decide(atoms, n)
    out = []
    if not r["included"]:
        out.append("admits %r, which is not %s" % (r["witness_outside"], "[0-9a-f]{%d}" % n if n else "([0-9a-f]{2})+"))
    if not is_str:
        out.append("is a str")
    return out + (["(not analysed: %s)" % "; ".join(notes)] if notes and out else [])


def hex_refuted_semantic(w, facts, t, n=None):
    """True if no string of the grammar can carry these facts (so the path rejects nothing valid)"""
    atoms, _is_str, _notes = atoms_for(w, facts, t)
    if not atoms:
        return False
    return decide(atoms, n)["disjoint"]
