"""C13 - failures are fail-closed and use the documented error families."""
from __future__ import annotations

import ast

from sa import AnalysisError
from sa.callgraph import CallGraph
from sa.terms import P, SubC, show_fact

from . import FAMILY, PRIMITIVES, VERIFIERS, events_of, in_family, loc, validators

EXPLANATION = (
    "Exception-escape analysis over every public validator (is_*/checkformat_* of common.py) and the five verifiers: "
    "each function's control-flow paths are enumerated symbolically (guards become facts; no solver, nothing executed); "
    "every primitive operation and external call contributes the exception classes of its table row unless a dominating "
    "guard discharges them; repo calls are applied through conditional summaries. R1: the escape set of each anchor is a "
    "subset of {TypeError, ValueError, CCT_Error} and subclasses (+InvalidSignature for the two single-signature "
    "primitives); R2: the raise sites of the named rejections carry the named classes; R3: termination (no while loop, "
    "acyclic call graph, loops only over unmodified finite containers); R4: predicates (is_*) have an empty escape set."
)
RULE_TEXT = (
    "one obligation per (anchor-independent) escape site x exception class, per named rejection site, per loop and per "
    "predicate; non-trivial = needed at least one guard fact, summary instantiation or table row to decide"
)


def _drains_finite_generator(prog, fi, n):
    """while True: try: x = next(g) / except StopIteration: break ... with g bound once, to a call
    of a generator function of the repository that has no while loop of its own"""
    from sa.model import dotted_chain

    if not (isinstance(n.test, ast.Constant) and n.test.value in (True, 1)) or not n.body or n.orelse:
        return False
    t = n.body[0]
    if not (isinstance(t, ast.Try) and len(t.body) == 1 and isinstance(t.body[0], ast.Assign) and t.handlers):
        return False
    call = t.body[0].value
    if not (isinstance(call, ast.Call) and isinstance(call.func, ast.Name) and call.func.id == "next" and len(call.args) == 1 and isinstance(call.args[0], ast.Name)):
        return False
    h0 = t.handlers[0]
    if not (isinstance(h0.type, ast.Name) and h0.type.id == "StopIteration" and len(h0.body) == 1 and isinstance(h0.body[0], ast.Break)):
        return False
    g = call.args[0].id
    binds = [x for x in ast.walk(fi.node) if isinstance(x, ast.Assign) and any(isinstance(tg, ast.Name) and tg.id == g for tg in x.targets)]
    others = [x for x in ast.walk(fi.node) if isinstance(x, ast.Name) and x.id == g and isinstance(x.ctx, ast.Store)]
    if len(binds) != 1 or len(others) != 1 or not isinstance(binds[0].value, ast.Call):
        return False
    chain = dotted_chain(binds[0].value.func)
    if not chain:
        return False
    r, rest = prog.resolve_dotted(fi.mod, chain)
    if r[0] != "func" or rest:
        return False
    gfi = prog.funcs.get(r[1])
    return gfi is not None and gfi.is_generator and not any(isinstance(x, ast.While) for x in ast.walk(gfi.node))


def run(ctx):
    eng, prog = ctx.eng, ctx.prog
    ctx.assume("A1", "A3", "A4", "A5", "A6", "A8")
    anchors = validators(prog) + [prog.func(q).qualname for q in VERIFIERS]
    ctx.info["anchors"] = anchors

    # ---- R3: termination
    cg = CallGraph(prog)
    ctx.info["call_sites_by_kind"] = dict(cg.counts)
    cone = cg.cone(anchors)
    ctx.info["cone_functions"] = len(cone)
    for cyc in cg.cycles_in(cone):
        ctx.ob("R3", "recursion|%s" % "->".join(cyc), cyc[0], "recursive call cycle reachable from a validator/verifier: " + " -> ".join(cyc), False)
    if not cg.cycles_in(cone):
        ctx.ob("R3", "acyclic", "call graph", "the call-graph cone of the %d anchors (%d functions) is acyclic" % (len(anchors), len(cone)), True)
    for q in sorted(cone):
        fi = prog.funcs[q]
        for n in cg._own_nodes(fi):
            if isinstance(n, ast.While) and _drains_finite_generator(prog, fi, n):
                s = prog.site(fi.mod, n, q)
                ctx.ob("R3", "while|%s|%s" % (q, s.text), s.loc(), "while loop in %s advances a generator of the repository by next() at the top of every iteration and leaves at StopIteration: it ends when the generator (for-loops only) is exhausted" % q, True)
            elif isinstance(n, ast.While):
                s = prog.site(fi.mod, n, q)
                ctx.ob("R3", "while|%s|%s" % (q, s.text), s.loc(), "while loop in %s, reachable from a validator/verifier: termination is not structurally guaranteed" % q, False)
            elif isinstance(n, (ast.For, ast.comprehension)):
                ctx.count("R3.loops")
                it = n.iter
                s = prog.site(fi.mod, it, q)
                bad = _iter_modified(n, it) if isinstance(n, ast.For) else None
                infinite = isinstance(it, ast.Call) and ast.unparse(it.func) in ("iter", "itertools.count", "itertools.cycle", "itertools.repeat", "count", "cycle", "repeat")
                ctx.ob(
                    "R3",
                    "loop|%s|%s" % (q, s.text),
                    s.loc(),
                    "loop over %s in %s %s" % (s.text, q, "may not terminate: " + (bad or "unbounded iterator") if (bad or infinite) else "iterates a finite container that its body does not modify"),
                    not (bad or infinite),
                )
    # regular expressions evaluated by the validators/verifiers: no pattern whose matching time can
    # explode on an adversarial string (nested unbounded repetitions over overlapping characters)
    from sa.model import dotted_chain
    from sa.strlang import exponential_backtracking

    seen_pat = set()

    def check_pattern(mod, call, where):
        chain = dotted_chain(call.func)
        if not chain:
            return
        r, rest = prog.resolve_dotted(mod, chain)
        full = (r[1] + ("." + ".".join(rest) if rest else "")) if r[0] in ("ext", "extmod") else None
        if full not in ("re.compile", "re.match", "re.fullmatch", "re.search", "re.sub", "re.subn", "re.split", "re.findall", "re.finditer"):
            return
        if not (call.args and isinstance(call.args[0], ast.Constant) and isinstance(call.args[0].value, str)):
            return
        st_ = prog.site(mod, call, where)
        if st_.key() in seen_pat:
            return
        seen_pat.add(st_.key())
        why = exponential_backtracking(call.args[0].value)
        ctx.count("R3.patterns")
        ctx.ob("R3", "regex|%s" % st_.key(), st_.loc(), "regular expression %r used in %s %s" % (call.args[0].value[:60], where, "cannot backtrack exponentially (no nested unbounded repetition over overlapping characters)" if not why else "may take exponential time on a crafted string: " + why), not why)

    cone_mods = {prog.funcs[q].mod.short for q in cone}
    for q in sorted(cone):
        fi = prog.funcs[q]
        for n in cg._own_nodes(fi):
            if isinstance(n, ast.Call):
                check_pattern(fi.mod, n, q)
    for short in sorted(cone_mods):
        m = prog.by_short[short]
        for name, vals in m.consts.items():
            for v in vals:
                if isinstance(v, ast.Call):
                    check_pattern(m, v, short + ".<module>")
    if ctx.failed('R3', 'R3|recursion'):
        return  # summaries are undefined on a recursive cone; the violation above is the verdict

    # ---- R1 / R4: escape sets
    by_site = {}  # (exc, innermost site key) -> {"site":, "anchors": set, "why":, "chain": }
    for q in anchors:
        sm = eng.walk(q)
        ctx.count("R1.functions")
        is_pred = q.split(".")[-1].startswith("is_")
        allowed_extra = ("InvalidSignature",) if q in PRIMITIVES else ()
        for x, conds in sm.escapes:
            inner = x.chain[-1]
            k = (x.exc, inner.key())
            d = by_site.setdefault(k, {"site": inner, "anchors": {}, "why": x.why, "exc": x.exc})
            ok = in_family(prog, x.exc, allowed_extra)
            d["anchors"].setdefault(q, (ok, x))
            if is_pred and not ok:
                # (a predicate that rejects an ill-typed *option* with TypeError / ValueError stays
                # inside the documented families; agreement of the six predicate / raiser pairs on
                # every input is C15-R4)
                ctx.ob(
                    "R4",
                    "predicate-raises|%s|%s|%s" % (q, x.exc, inner.key()),
                    loc(inner),
                    "predicate %s may raise %s (%s), an error outside the documented families, instead of returning a boolean" % (q, x.exc, x.why),
                    False,
                    {"call chain": " <- ".join(loc(s) for s in x.chain), "path conditions": sorted(show_fact(c) for c in conds)[:12]},
                )
        if is_pred:
            ctx.count("R4.predicates")
            if not [1 for x_, _c in sm.escapes if not in_family(prog, x_.exc, allowed_extra)]:
                ctx.ob("R4", "predicate-total|%s" % q, loc(prog.site(prog.func(q).mod, prog.func(q).node)), "predicate %s raises nothing outside the documented families on its %d paths" % (q, sm.npaths), True)
    for (exc, skey), d in sorted(by_site.items()):
        bad = sorted(a for a, (ok, _x) in d["anchors"].items() if not ok)
        good = sorted(a for a, (ok, _x) in d["anchors"].items() if ok)
        ctx.count("R1.escape_sites")
        if bad:
            x = d["anchors"][bad[0]][1]
            ctx.ob(
                "R1",
                "escape|%s|%s" % (exc, skey),
                loc(d["site"]),
                "%s (%s) can escape %d public validator(s)/verifier(s): it is outside the documented families" % (exc, d["why"], len(bad)),
                False,
                {
                    "construct": d["site"].text,
                    "escapes from": bad,
                    "example call chain": " <- ".join(loc(s) for s in x.chain),
                },
            )
        if good:
            ctx.ob(
                "R1",
                "escape-ok|%s|%s" % (exc, skey),
                loc(d["site"]),
                "%s at this site escapes %d anchor(s) and is inside their documented families" % (exc, len(good)),
                True,
                {"construct": d["site"].text, "anchors": good[:6]},
            )
    ctx.floor("R1.functions", 29)

    # ---- R2: classes of the named rejections
    _named_rejections(ctx)


def _iter_modified(for_node, it):
    """does the loop body store into / call a mutating method on the iterated container"""
    base = ast.unparse(it.func.value) if isinstance(it, ast.Call) and isinstance(it.func, ast.Attribute) and it.func.attr in ("items", "keys", "values") else ast.unparse(it)
    muts = {"append", "extend", "insert", "pop", "popitem", "remove", "clear", "update", "setdefault", "add", "discard", "sort", "reverse"}
    for stmt in for_node.body:
        for n in ast.walk(stmt):
            if isinstance(n, (ast.Assign, ast.AugAssign, ast.Delete)):
                tgts = n.targets if isinstance(n, (ast.Assign, ast.Delete)) else [n.target]
                for t in tgts:
                    if isinstance(t, ast.Subscript) and ast.unparse(t.value) == base:
                        return "the body assigns into the iterated container (%s)" % ast.unparse(t)[:50]
            if isinstance(n, ast.Call) and isinstance(n.func, ast.Attribute) and n.func.attr in muts and ast.unparse(n.func.value) == base:
                return "the body calls .%s() on the iterated container" % n.func.attr
    return None


def _explicit_raises(eng, sm, anchor):
    """paths ending in an explicit raise statement of the function itself or of one of its
    private helpers / nested functions (analysed as one unit with it)"""
    from . import own_site

    for p in sm.paths:
        if p.kind != "raise" or p.value.origin != "explicit" or not all(own_site(eng, s_, anchor) for s_ in p.value.chain):
            continue
        yield p


def _named_rejections(ctx):
    from . import own_site

    eng, prog = ctx.eng, ctx.prog
    # (a) threshold not met -> SignatureError : explicit raises of verify_signable after the per-entry loop
    from .vs import VSModel

    vm = VSModel(eng)
    n = 0
    for p in vm.post_raises:
        if p.value.origin != "explicit" or not all(own_site(eng, s_, "authentication.verify_signable") for s_ in p.value.chain):
            continue
        n += 1
        s = p.value.chain[-1]
        ctx.ob("R2", "threshold-class|%s" % s.key(), s.loc(), "insufficient signatures are reported as %s (expected SignatureError)" % p.value.exc, prog.exc_is_sub(p.value.exc, "SignatureError"))
    ctx.count("R2.threshold_raise", n)
    # (b) undelegated role -> UnknownRoleError ; type-for-role mismatch -> MetadataVerificationError
    sm = eng.walk("authentication.verify_delegation")
    name, untrusted, trusted = (P(x) for x in sm.params[:3])
    dl = SubC(trusted, "signed", "delegations")
    role_seen = type_seen = 0
    for p in _explicit_raises(eng, sm, "authentication.verify_delegation"):
        s = p.value.chain[-1]
        if ("nothas", dl, name) in p.facts:
            role_seen += 1
            ctx.ob("R2", "unknown-role-class|%s" % s.key(), s.loc(), "an undelegated role is reported as %s (expected UnknownRoleError)" % p.value.exc, prog.exc_is_sub(p.value.exc, "UnknownRoleError"))
        ty = SubC(untrusted, "signed", "type")
        if ("ne", name, ty) in p.facts or ("ne", ty, name) in p.facts:
            type_seen += 1
            ctx.ob("R2", "type-mismatch-class|%s" % s.key(), s.loc(), "a type-for-role mismatch is reported as %s (expected MetadataVerificationError)" % p.value.exc, prog.exc_is_sub(p.value.exc, "MetadataVerificationError"))
    # ... and the signature verdict is the last clause: a SignatureError (from verify_signable or
    # raised here) only on paths on which the role is known to be delegated - otherwise an
    # undelegated role or a mistyped document is reported as a signature problem
    for p in sm.paths:
        if p.kind != "raise" or not prog.exc_is_sub(p.value.exc, "SignatureError"):
            continue
        from sa.walker import State as _State

        if ("has", dl, name) in _State(facts=p.facts).closure():
            continue
        s = p.value.chain[0]
        ctx.ob("R2", "signature-verdict-last|%s" % s.key(), s.loc(), "verify_delegation raises %s at %s before the role is known to be delegated: an undelegated role (or a document of the wrong type) is reported as a signature failure instead of UnknownRoleError / MetadataVerificationError" % (p.value.exc, s.text[:60]), False)
    ctx.count("R2.unknown_role_raise", min(role_seen, 1))
    ctx.count("R2.type_mismatch_raise", min(type_seen, 1))
    # (c) root version mismatch -> MetadataVerificationError
    sm = eng.walk("authentication.verify_root")
    tv = SubC(P(sm.params[0]), "signed", "version")
    uv = SubC(P(sm.params[1]), "signed", "version")
    ver_seen = 0
    for p in _explicit_raises(eng, sm, "authentication.verify_root"):
        s = p.value.chain[-1]
        from .c03 import _excludes_increment

        # (a raise on a path on which the version rule was violated - not one after it passed)
        dec = [f for f in p.facts if f[0] in ("ne", "cmp") and _mentions(f, tv) and _mentions(f, uv) and _excludes_increment(f, tv, uv)]
        if dec:
            ver_seen += 1
            ctx.ob("R2", "version-mismatch-class|%s" % s.key(), s.loc(), "a root version mismatch is reported as %s (expected MetadataVerificationError)" % p.value.exc, prog.exc_is_sub(p.value.exc, "MetadataVerificationError"))
    ctx.count("R2.version_raise", min(ver_seen, 1))
    # an error raised while the named exception is being built replaces it
    named = {"SignatureError", "UnknownRoleError", "MetadataVerificationError"}
    seen = set()
    for q in VERIFIERS:
        for p in eng.walk(q).paths:
            if p.kind == "raise" and p.value.origin.startswith("raise-args:"):
                intended = p.value.origin.split(":", 1)[1]
                if intended in named and not prog.exc_is_sub(p.value.exc, intended):
                    s = p.value.chain[-1]
                    k = (intended, p.value.exc, s.key())
                    if k in seen:
                        continue
                    seen.add(k)
                    ctx.ob("R2", "replaced-while-building|%s|%s|%s" % k, s.loc(), "the rejection that should be reported as %s can surface as %s instead: %s" % (intended, p.value.exc, p.value.why[:160]), False)
    for nm in ("R2.threshold_raise", "R2.unknown_role_raise", "R2.type_mismatch_raise", "R2.version_raise"):
        if ctx.counts.get(nm, 0) < 1:
            ctx.ob("R2", "missing|" + nm, "authentication.py", "no explicit raise found for the named rejection %s: the condition is no longer reported by a dedicated error" % nm.split(".")[1], False)

    # ---- "insufficient signatures are reported as a signature error": an entry the verifier cannot
    # use is passed over and counted out - it does not end the call with an error of its own
    # (C02-R1, the per-entry loop is total) ...
    from .c02 import loop_total
    from .vs import VSModel

    m_vs = VSModel(eng)
    loop_total(ctx.sub("DEP-C02"), m_vs, eng.prog.site(m_vs.sm.fi.mod, m_vs.sm.fi.node, m_vs.sm.fi.qualname), "R1")
    # ... and "a root-version mismatch is reported as a metadata-verification error": every offer
    # whose version is not trusted + 1 is refused (C03's rule set, without its own dependencies)
    from . import c03

    c03.run(ctx.sub("DEP-C03"), deps=False)


def _mentions(f, t):
    if f == t:
        return True
    if isinstance(f, (tuple, frozenset)):
        return any(_mentions(x, t) for x in f)
    return False
