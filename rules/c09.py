"""C09 - sign-then-verify round trip, signer binding, determinism, order independence (structural part)."""
from __future__ import annotations

from sa.effects import Effects
from sa.terms import C, CallT, P, Sub, SubC, is_call, is_lit, show
from sa.walker import JSON_TYPES, State, flatten_events

from . import payload_is_isolated, fn_site, own_site
from .signer import SignSignable, agreement, as_item_stores as _as_item_stores, canon_bytes, entry_dict, pubhex_of_private, signature_hex
from .vs import VSModel, envelope, hexconj, le_facts

EXPLANATION = (
    "R1: wrap_as_signable gates on the JSON-serializable types and returns a fresh {'signatures': {}, 'signed': "
    "copy.deepcopy(obj)} on every path. R2: sign_signable validates the key object and the envelope, performs exactly one "
    "store on every returning path, into signable['signatures'][hex(raw public key of the given private key)], of "
    "{'signature': hex(private_key.sign(canonserialize(signable['signed'])))}; the entry passed the signature-entry grammar "
    "before the store; the interprocedural write set of sign_signable on its envelope is exactly that entry (other signers' "
    "entries and the payload are untouched, so signing order cannot matter). R3: signer/verifier agreement on serializer, "
    "field, codec and filing (the C02-R4 rule), and the accept gate is exactly len(counted) >= threshold, so k valid "
    "signers verify for every threshold <= k and for none above."
)
RULE_TEXT = "obligations: wrap return term/gate, signer gates, store target/value/count, write set, agreement items, gate exactness; non-trivial = term equality and fact checks on walked paths"


def run(ctx):
    eng = ctx.eng
    ctx.assume("A1", "A2", "A3", "determinism and idempotence of ed25519 signing and 'stops counting after an edit' are properties of the crypto library (not decided)")
    # ---- R1 wrap
    sm = eng.walk("signing.wrap_as_signable")
    obj = P(sm.params[0])
    site = fn_site(eng, sm)
    from . import refuted_at_defaults

    # (paths that exist only when an optional parameter added after `obj` is given a non-default
    # value are outside the documented call wrap_as_signable(obj))
    rets = [p for p in sm.paths if p.kind == "return" and not refuted_at_defaults(eng, "signing.wrap_as_signable", (sm.params[0],), set(p.facts))]
    gate = all(State(facts=p.facts).holds(("type", obj, JSON_TYPES)) for p in rets) and bool(rets)
    ctx.ob("R1", "wrap-type-gate", site.loc(), "wrap_as_signable %s" % ("accepts only values whose exact type is one of the JSON-serializable types" if gate else "does not gate on the JSON-serializable types"), gate)
    ok, why = bool(rets), "no returning path"
    for p in rets:
        v = p.value
        if not (is_lit(v, "dict") and {k for k, _x in v[2]} == {C("signatures"), C("signed")}):
            ok, why = False, "returns %s" % show(v)[:80]
            break
        d = dict(v[2])
        if not payload_is_isolated(p, d[C("signed")], obj, eng):
            ok, why = False, "payload is %s, not a deep copy of the argument" % show(d[C("signed")])[:80]
            break
        if not (is_lit(d[C("signatures")], "dict") and not d[C("signatures")][2]):
            ok, why = False, "signatures is not a fresh empty dict"
            break
    ctx.ob("R1", "wrap-fresh-envelope", site.loc(), "wrap_as_signable " + ("returns {'signatures': {}, 'signed': deepcopy(obj)}" if ok else "deviates: " + why), ok)
    # "for every JSON payload wrapping ... yields an envelope": the only refusal is the type gate's
    extra = []
    for p in sm.paths:
        if p.kind != "raise" or refuted_at_defaults(eng, "signing.wrap_as_signable", (sm.params[0],), set(p.facts) | set(p.value.conds)):
            continue
        x = p.value
        st_r = State(facts=set(p.facts) | set(x.conds))
        if x.origin == "resource" or (x.exc == "TypeError" and not st_r.holds(("type", obj, JSON_TYPES))):
            continue  # (the value is not of a JSON type, or the copy ran out of stack/memory)
        extra.append(x)
    seen_x = {}
    for x in extra:
        seen_x.setdefault((x.exc, x.chain[-1].key()), x)
    for (exc, k), x in sorted(seen_x.items()):
        ctx.ob("R1", "wrap-refuses|%s|%s" % (exc, k), x.chain[-1].loc(), "wrap_as_signable refuses a value of a JSON type with %s (%s): not every JSON payload can be wrapped and signed any more" % (exc, x.why[:80]), False)
    ctx.ob("R1", "wrap-total", site.loc(), "wrap_as_signable %s" % ("refuses nothing but values that are not of a JSON type" if not extra else "has %d further way(s) of failing" % len(seen_x)), not extra)

    # what wrap_as_signable produces must be what sign_signable / verify_signable take for an
    # envelope: is_signable decides exactly the envelope grammar (all JSON payload types, C15-R4)
    from .c15 import predicate_exact

    p_ok, p_why = predicate_exact(eng, "common.is_signable", "envelope")
    ctx.ob("R1", "envelope-predicate-exact", site.loc(), "is_signable %s" % ("accepts exactly the two-field envelopes with a dict of signatures and a payload of any JSON type" if p_ok else "does not decide the envelope grammar that wrap_as_signable produces: " + p_why), p_ok)
    sign_signable_rules(ctx, "R2")
    signing_is_total(ctx, "R4")

    # the bytes signed are a faithful image of the JSON value only under the published serializer
    # configuration (C07-R1, re-evaluated here)
    from .c07 import serializer_config

    serializer_config(ctx.sub("DEP-C07"), published=False)

    # ---- R3 agreement + exact gate
    agreement(ctx, "R3")
    m = VSModel(eng)
    if m.G is not None:
        lenG = CallT("builtin:len", [m.G])
        acc = frozenset({(lenG, -1), (m.threshold, 1)})
        exact = all(any(co == acc and c == 0 for _f, (co, c) in le_facts(p.facts)) for p in m.returns) and bool(m.returns)
        ctx.ob("R3", "threshold-boundary", fn_site(eng, m.sm).loc(), "the accept gate is %s" % ("exactly len(counted) >= threshold: k valid signers verify for all t <= k and for no t > k" if exact else "not exactly len(counted) >= threshold"), exact)
    # "signing in any order ... verifies for every threshold up to the number of signers; changed
    # payload makes earlier signatures stop counting (not: abort)": the per-entry decisions are
    # independent of each other and of the map's order (C06-R3, re-evaluated here)
    from .c06 import entries_independent

    entries_independent(ctx.sub("DEP-C06"), "R3")
    # "... and for no threshold above the number of authorized signers": no entry counts that is
    # not a valid signature by an authorized key (C01's rule set)
    from . import c01

    c01.run(ctx.sub("DEP-C01"))
    # "... and it verifies with that key authorized, for every threshold up to the number of
    # authorized signers": the verifier turns no valid call away and drops no good entry
    # (C02's rule set, re-evaluated here)
    from . import c02

    c02.run(ctx.sub("DEP-C02"), deps=False)


STEP_CALLEES = ("ext:json.dumps", "method:sign", "method:public_key", "method:public_bytes", "method:private_bytes", "method:encode", "method:decode", "ext:binascii.hexlify", "method:hex", "method:to_hex", "method:to_bytes")


PIPELINE = ("signing.serialize_and_sign", "common.canonserialize")
PIPELINE_CLASSES = ("common.MixinKey.", "common.PrivateKey.", "common.PublicKey.")


def signing_is_total(ctx, rule):
    """"for every JSON payload and every ed25519 private key ... signing yields an envelope": the
    only ways sign_signable may fail are (a) a validator of common.py rejecting the key, the
    envelope or the freshly built entry, (b) a step of the signing pipeline itself failing
    (json.dumps of a payload that is not JSON below its top level, .sign() on something that is not
    a private key, hex/bytes conversions).  Anything else rejects envelopes the property says
    can be signed."""
    from . import validators

    eng = ctx.eng
    w = SignSignable(eng)
    ssite = fn_site(eng, w.sm)
    vals = {"repo:" + q for q in validators(eng.prog)}
    from sa.callgraph import CallGraph

    pipeline = CallGraph(eng.prog).cone([q for q in PIPELINE if q in eng.prog.funcs])
    seen = set()
    n = 0
    for p in w.sm.paths:
        if p.kind != "raise":
            continue
        x = p.value
        n += 1
        raising = [ev for ev, _d in flatten_events(p.events) if ev[0] == "call" and ev[5][0] == "raise" and ev[1] in x.chain]
        cause = None
        for ev in raising:
            callee = ev[2].split("[")[0].split("<")[0] if isinstance(ev[2], str) else ""
            a0 = ev[3][0] if ev[3] else None
            if callee in vals and (a0 in (w.signable, w.priv) or is_lit(a0, "dict") or _rooted(a0, w.priv)):
                cause = "validation of %s" % ("the key" if a0 == w.priv else "the envelope" if a0 == w.signable else "the new entry")
                break
        if cause is None and raising:
            inner = [ev for ev in raising if ev[1] == x.chain[-1]]
            if inner and isinstance(inner[-1][2], str) and inner[-1][2] in STEP_CALLEES:
                cause = "a step of the signing pipeline (%s)" % inner[-1][2].split(":")[-1]
        if cause is None and x.origin == "explicit" and own_site(eng, x.chain[-1], "signing.sign_signable"):
            # an explicit refusal guarded by a validator predicate: `if not is_signable(signable): raise`
            for f in set(p.facts) | set(x.conds):
                fq = f[1][1].split("[")[0].split("<")[0] if f[0] == "ret" and is_call(f[1]) else ""
                if f[0] == "ret" and f[2] is False and (fq in vals or fq[5:].startswith(PIPELINE_CLASSES)) and f[1][2]:
                    a0 = f[1][2][0]
                    if fq[5:].startswith(PIPELINE_CLASSES) and not any(_rooted(a, w.priv) or _mentions(a, w.priv) for a in f[1][2]):
                        continue  # (a key comparison that is not about the key argument)
                    if a0 in (w.signable, w.priv) or _rooted(a0, w.priv) or _mentions(a0, w.priv) or (isinstance(a0, tuple) and a0 and a0[0] in ("call", "lit")):
                        cause = "validation of %s (predicate %s)" % ("the key" if a0 == w.priv else "the envelope" if a0 == w.signable else "the new entry", f[1][1][5:])
                        break
        if cause is None and x.origin == "implicit" and len(x.chain) > 1 and (x.chain[-1].fn in pipeline or x.chain[-1].fn.startswith(PIPELINE_CLASSES)):
            cause = "a step of the signing pipeline (in %s)" % x.chain[-1].fn
        if cause is None and len(x.chain) > 1 and any(st_.fn == "common.canonserialize" for st_ in x.chain):
            # the serializer turned the payload away in words of its own (what it may turn away is C07-R4)
            cause = "a step of the signing pipeline (the serializer's own refusal)"
        k = (cause or "other", x.exc, x.chain[-1].key())
        if k in seen:
            continue
        seen.add(k)
        ctx.count(rule + ".failure_causes")
        ctx.ob(rule, "failure|%s|%s|%s" % k, x.chain[-1].loc(), "sign_signable fails with %s at %s: %s" % (x.exc, x.chain[-1].text[:50], cause if cause else "not a rejection of the key or the envelope, nor a failing step of the signing pipeline (%s) - an envelope the property says can be signed is refused" % x.why[:80]), cause is not None)
    ctx.floor(rule + ".failure_causes", 3)


def sign_signable_rules(ctx, rule):
    """sign_signable adds exactly one entry - the signer's own, under its own key, a checked
    signature over the canonical payload - and touches nothing else of the envelope"""
    from sa.effects import all_events

    eng = ctx.eng
    w = SignSignable(eng)
    ssite = fn_site(eng, w.sm)
    msg = canon_bytes(eng, SubC(w.signable, "signed"))
    n_paths = 0
    agg = {"gates": True, "one-store": True, "target": True, "value": True, "checked-before-store": True}
    notes = {}
    bulk_sites = set()
    for p in w.returns:
        n_paths += 1
        st = State(facts=p.facts)
        signer = w.signer_on(p)
        keyt = st.types(signer)
        if not (keyt is not None and all("Ed25519P" in t or t.startswith("obj:common.P") for t in keyt)) or envelope(st, w.signable):
            agg["gates"] = False
        evs = [ev for ev, _d in flatten_events(p.events)]
        # (stores anywhere on the path, loop bodies included)
        stores = [ev for ev in all_events(p.events) if ev[0] in ("store", "del", "mutcall") and isinstance(ev[2], tuple) and ev[2][0] in ("sub", "attr") and _rooted(ev[2], w.signable)]
        # removing the signer's own entry first (pop / del under its own key) changes nothing else
        own_sigs = SubC(w.signable, "signatures")
        def _own_removal(ev0):
            if ev0[0] == "mutcall" and ev0[2] == own_sigs and ev0[3] in ("pop",) and ev0[4] and pubhex_of_private(eng.expand(ev0[4][0]), signer, st):
                return True
            return ev0[0] == "del" and isinstance(ev0[2], tuple) and ev0[2][0] == "sub" and ev0[2][1] == own_sigs and pubhex_of_private(eng.expand(ev0[2][2]), signer, st)

        stores = [ev0 for ev0 in stores if not _own_removal(ev0)]
        # map.update({k: v}) and map = {**map, k: v}: the same as the stores map[k] = v
        expanded = []
        for ev0 in stores:
            items = _as_item_stores(eng, ev0, own_sigs, evs)
            if items is None:
                expanded.append(ev0)
            else:
                bulk_sites.add(ev0[1])
                expanded.extend(("store", ev0[1], Sub(own_sigs, k), v) for k, v in items)
        stores = expanded
        if len(stores) != 1 or stores[0][0] != "store":
            agg["one-store"] = False
            notes["one-store"] = "%d stores/mutations of the envelope on a returning path" % len(stores)
            continue
        ev = stores[0]
        tgt, val = ev[2], ev[3]
        if not (tgt[1] == SubC(w.signable, "signatures") and pubhex_of_private(eng.expand(tgt[2]), signer, st)):
            agg["target"] = False
            notes["target"] = "stored at %s" % show(tgt)[:120]
        sig = entry_dict(eng.expand(val), evs[: evs.index(ev)] if ev in evs else evs)
        ve = eng.expand(val)
        if is_lit(ve) and ve[3] is not None and "@default" in ve[3]:
            agg["value"] = False
            notes["value"] = "the entry stored is a mutable default argument: one object shared by every call (and every envelope signed)"
            continue
        good, why2 = (False, "entry is %s" % show(val)[:80]) if sig is None else signature_hex(sig, signer, msg)
        if not good:
            agg["value"] = False
            notes["value"] = why2
        else:
            # grammar facts about the stored signature text were established before the store
            idx = evs.index(ev) if ev in evs else len(evs)
            slot = Sub(eng.expand(val), C("signature"))  # (a display filled in after its creation: facts name the slot)
            checked = (hexconj(st, sig, 128) or hexconj(st, slot, 128)) and any(e[0] == "call" and e[2].startswith("repo:") and e[5][0] == "ok" and any(_mentions(a, sig) or a == val or eng.expand(a) == eng.expand(val) for a in e[3]) for e in evs[:idx])
            if not checked:
                agg["checked-before-store"] = False
    texts = {
        "gates": ("sign_signable validates the key object and the envelope shape before signing", "sign_signable does not validate its key/envelope arguments on every returning path"),
        "one-store": ("exactly one store into the envelope on every returning path", "not exactly one store into the envelope"),
        "target": ("the entry is filed under hex(raw public key bytes of the given private key)", "the entry is not filed under the signing key's own public key"),
        "value": ("the entry is {'signature': hex(private_key.sign(canonserialize(signable['signed'])))}", "the stored entry is not a signature by the given key over the canonical payload"),
        "checked-before-store": ("the entry passed the signature-entry grammar before it was stored", "the entry is stored without having passed the signature-entry grammar first"),
    }
    for k, ok2 in agg.items():
        ctx.count(rule + ".items")
        ctx.ob(rule, "sign-signable|%s" % k, ssite.loc(), (texts[k][0] if ok2 else texts[k][1] + (": " + notes[k] if k in notes else "")) + " (%d returning paths)" % n_paths, ok2)
    fx = Effects(eng)
    pw = fx.param_writes(w.sm.fi)
    def _own_slot(x):
        if x[0] != w.sm.params[0] or not x[1] or x[1][0] != ("sub", C("signatures")):
            return False
        if len(x[1]) == 2 and x[1][1][0] == "sub" and any(pubhex_of_private(eng.expand(x[1][1][1]), w.signer_on(p_), State(facts=p_.facts)) for p_ in w.returns):
            return True
        # map.update({own key: entry}) / map = {**map, own key: entry}: judged item by item above
        if len(x[1]) == 1 and x[3] in bulk_sites:
            return True
        # .pop(<own key>, ...) on the signature map
        if len(x[1]) == 1 and x[2] == ".pop()":
            for p_ in w.returns:
                for ev0 in all_events(p_.events):
                    if ev0[0] == "mutcall" and ev0[1] == x[3] and ev0[4] and pubhex_of_private(eng.expand(ev0[4][0]), w.priv):
                        return True
        return False

    bad = [x for x in pw if not _own_slot(x)]
    ctx.ob(rule, "sign-signable|write-set", ssite.loc(), "interprocedural write set of sign_signable %s" % ("is exactly signable['signatures'][<its key>]" if not bad and pw else "contains more than the signer's own entry: " + "; ".join("%s%s" % (x[0], x[1]) for x in bad)[:200]), not bad and bool(pw))


def _rooted(t, root):
    while isinstance(t, tuple) and t and t[0] in ("sub", "attr"):
        t = t[1]
    return t == root


def _mentions(a, t):
    if a == t:
        return True
    if isinstance(a, tuple):
        return any(_mentions(x, t) for x in a)
    return False
