"""C11 - repodata artifact signing is complete, faithful and client-verifiable (structural part)."""
from __future__ import annotations

from sa.effects import all_events
from sa.terms import C, CallT, P, Sub, SubC, is_call, is_lit, norm_codec, root_of, show, subst
from sa.walker import State, flatten_events

from . import own_site, fn_site
from .c08 import _inplace_signers
from .signer import canon_bytes, entry_dict, pubhex_of_private, signature_hex
from .vs import hexconj

EXPLANATION = (
    "Walk of sign_all_in_repodata with the loaded document L = json.load(open(fname,'rb')) as a symbolic value. R1 gates: "
    "the key passed the 64-hex grammar, fname is a str, 'packages' in L else ValueError. R2: the store L['signatures'] = {} "
    "precedes every insertion on every path (stale entries gone). R3 coverage and fidelity: both L['packages'] and "
    "L['packages.conda'] (optional) are iterated; in each loop every completing body path performs exactly one store "
    "L['signatures'][<artifact name>] = {hex(raw public key of the signing key): {'signature': hex(sign(canonserialize(<that "
    "artifact's metadata>)))}} with the key built from the given hex; the two sibling loops produce identical value terms up "
    "to the section. R4: L is written only under ['signatures'] and is written back canonically to the same path (C08-R3). "
    "R5: the entry shape is the one the envelope verifier reads (field 'signature', hex codec, filed under the hex public key)."
)
RULE_TEXT = "obligations: gates, reset-before-insert, per-section loop store target/value, sibling agreement, write-set, write-back; non-trivial = term equality on walked paths"

SECTIONS = ("packages", "packages.conda")
FROM_PRIVATE = "ext:cryptography.hazmat.primitives.asymmetric.ed25519.Ed25519PrivateKey.from_private_bytes"


def run(ctx):
    eng = ctx.eng
    ctx.assume("A1", "A2", "A8")
    # private helpers of the signing module are inlined, so that extracting the loops into a
    # helper does not hide them
    inline = frozenset(q for q, f in eng.prog.funcs.items() if f.mod.short == "signing" and q.split(".")[-1].startswith("_"))
    sm = eng.summary(eng.prog.func("signing.sign_all_in_repodata"), None, inline)
    site = fn_site(eng, sm)
    fname, keyhex = P(sm.params[0]), P(sm.params[1])
    L = eng.expand(eng.repo_call("common.load_metadata_from_file", fname))
    priv_want = norm_codec(CallT(FROM_PRIVATE, [CallT("ext:binascii.unhexlify", [keyhex])]))
    rets = [p for p in sm.paths if p.kind == "return"]
    if not rets:
        ctx.ob("R3", "never-completes", site.loc(), "sign_all_in_repodata has no normally returning path", False)
        return

    # ---- R1 gates
    g_key = all(hexconj(State(facts=p.facts), keyhex, 64) for p in rets)
    g_name = all(State(facts=p.facts).holds(("type", fname, frozenset(["str"]))) for p in rets)
    g_pk = all(State(facts=p.facts).holds(("has", L, C("packages"))) for p in rets)
    ctx.ob("R1", "gate-key", site.loc(), "the private key argument %s the 64-hex grammar on every completing path" % ("passed" if g_key else "did NOT pass"), g_key)
    ctx.ob("R1", "gate-fname", site.loc(), "fname %s" % ("is checked to be a str" if g_name else "is not checked to be a str"), g_name)
    ctx.ob("R1", "gate-packages", site.loc(), "'packages' in the loaded document %s" % ("is established on every completing path" if g_pk else "is not established"), g_pk)
    miss = [p for p in sm.paths if p.kind == "raise" and p.value.origin == "explicit" and all(own_site(eng, st_, "signing.sign_all_in_repodata") for st_ in p.value.chain) and ("nothas", L, C("packages")) in p.facts]
    ctx.ob("R1", "no-packages-error", site.loc(), "a document without 'packages' is rejected with %s" % (miss[0].value.exc if miss else "nothing explicit"), bool(miss) and eng.prog.exc_is_sub(miss[0].value.exc, "ValueError"))

    # a document that is rebuilt ({**L, "signatures": <computed mapping>}) instead of updated in
    # place is a different program shape: the per-section store rules below do not apply to it
    from sa import AnalysisError
    from .c08 import _rebuilt_from

    for p in rets:
        evs0 = [ev for ev, _d in flatten_events(p.events)]
        wr = [ev for ev in evs0 if ev[0] == "call" and ev[2] == "repo:common.write_metadata_to_file" and ev[5][0] == "ok"]
        if wr and all(_rebuilt_from(eng.expand(ev[3][0]), L) for ev in wr) and not any(ev[0] == "store" and root_of(ev[2]) == L for ev in all_events(p.events)):
            raise AnalysisError("C11: sign_all_in_repodata builds a new document {**loaded, 'signatures': ...} instead of updating the loaded one in place; this functional shape is not modelled (no verdict)")

    # ---- R2 / R3 per path
    sigs = SubC(L, "signatures")
    agg = {"reset-first": True, "sections": True, "one-store-per-artifact": True, "target": True, "filed-under-signer": True, "signature-over-own-metadata": True, "siblings-agree": True}
    notes = {}
    for p in rets:
        evs = [ev for ev, _d in flatten_events(p.events)]
        reset_idx = [i for i, ev in enumerate(evs) if ev[0] == "store" and ev[2] == sigs and is_lit(ev[3], "dict") and not ev[3][2]]
        loops = [(i, ev) for i, ev in enumerate(evs) if ev[0] == "loop"]
        first_insert = None
        seen_sections = {}
        for i, ev in loops:
            base = ev[2]
            sect = None
            for sname in SECTIONS:
                if base == SubC(L, sname):
                    sect = sname
            body_stores = []
            for bp in ev[4]:
                if bp[0] not in ("fall", "continue"):
                    continue
                st_evs = [e for e in all_events(bp[2]) if e[0] in ("store", "mutcall", "del") and root_of(e[2]) == L]
                body_stores.append(st_evs)
            if any(body_stores) and first_insert is None:
                first_insert = i
            if sect is None:
                if is_lit(base, "dict") and not base[2]:
                    continue  # the empty default of an absent optional section
                if any(body_stores):
                    agg["sections"] = False
                    notes["sections"] = "a loop over %s inserts signatures" % show(base)[:60]
                continue
            el = ev[3]
            valterm = None
            for st_evs in body_stores:
                if len(st_evs) != 1 or st_evs[0][0] != "store":
                    agg["one-store-per-artifact"] = False
                    notes["one-store-per-artifact"] = "%d stores for one artifact in section %s" % (len(st_evs), sect)
                    continue
                e = st_evs[0]
                if e[2] != Sub(sigs, el):
                    agg["target"] = False
                    notes["target"] = "stored at %s" % show(e[2])[:100]
                val = eng.expand(e[3])
                if not (is_lit(val, "dict") and len(val[2]) == 1):
                    agg["filed-under-signer"] = False
                    notes["filed-under-signer"] = "value is %s" % show(val)[:80]
                    continue
                pk, inner = val[2][0]
                priv = _priv_of(pk)
                if priv is None or norm_codec(priv) != priv_want or not pubhex_of_private(pk, priv):
                    agg["filed-under-signer"] = False
                    notes["filed-under-signer"] = "inner key is %s" % show(pk)[:120]
                    continue
                sig = entry_dict(inner)
                msg = canon_bytes(eng, Sub(SubC(L, sect), el))
                good, why = (False, "inner entry is %s" % show(inner)[:80]) if sig is None else signature_hex(sig, priv, msg)
                if not good:
                    agg["signature-over-own-metadata"] = False
                    notes["signature-over-own-metadata"] = why
                valterm = subst(val, {el: ("ARTIFACT",), SubC(L, sect): ("SECTION",)})
            if not body_stores or not any(body_stores):
                agg["one-store-per-artifact"] = False
                notes["one-store-per-artifact"] = "the loop over section %s stores nothing" % sect
            seen_sections[sect] = valterm
        # the optional section may be absent on this path (d.get(..., {}) default): then has/nothas decides
        st = State(facts=p.facts)
        for sname in SECTIONS:
            if sname not in seen_sections and not st.holds(("nothas", L, C(sname))):
                agg["sections"] = False
                notes["sections"] = "section %s is not iterated" % sname
        vals = [v for v in seen_sections.values() if v is not None]
        if len(vals) == 2 and _strip_sites(vals[0]) != _strip_sites(vals[1]):
            agg["siblings-agree"] = False
            notes["siblings-agree"] = "the two section loops build different entries"
        if not reset_idx or (first_insert is not None and min(reset_idx) > first_insert):
            agg["reset-first"] = False
    texts = {
        "reset-first": ("the signatures section is reset to {} before any insertion on every path", "the signatures section is not reset before insertions (stale entries survive)"),
        "sections": ("both 'packages' and 'packages.conda' (when present) are signed", "not every artifact section is signed"),
        "one-store-per-artifact": ("each loop iteration performs exactly one store into the document", "not exactly one store per artifact"),
        "target": ("each entry is stored at signatures[<artifact name>]", "an entry is not stored under its artifact's name"),
        "filed-under-signer": ("each entry is {hex(raw public key of the signing key): ...} with the key built from the given hex", "an entry is not filed under the signing key's public key"),
        "signature-over-own-metadata": ("each signature is hex(sign(canonserialize(that artifact's own metadata)))", "a signature is not over the artifact's own canonical metadata"),
        "siblings-agree": ("the two section loops build identical entries", "the two section loops disagree"),
    }
    for k, ok in agg.items():
        rule = "R2" if k == "reset-first" else "R3"
        ctx.count(rule + ".items")
        ctx.ob(rule, k, site.loc(), (texts[k][0] if ok else texts[k][1] + (": " + notes[k] if k in notes else "")) + " (%d completing paths)" % len(rets), ok)

    # ---- R4 write set + write back (shared with C08)
    _inplace_signers(ctx.sub("R4"), "C08-R3")

    # ---- "a client verifies each entry through a pkg_mgr delegation": the delegation check accepts
    # properly signed content of any shape and nothing else (C05's rule set, re-evaluated here)
    from . import c05

    c05.run(ctx.sub("DEP-C05"))


def _priv_of(pk):
    """the private-key term inside HEX(priv.public_key().public_bytes(...))"""
    n = norm_codec(pk)
    if isinstance(n, tuple) and n and n[0] == "HEX" and is_call(n[1]) and n[1][2] and is_call(n[1][2][0], "method:public_key") and n[1][2][0][2]:
        return n[1][2][0][2][0]
    return None


def _strip_sites(t):
    if isinstance(t, tuple):
        if len(t) == 4 and t[0] == "lit":
            return ("lit", t[1], _strip_sites(t[2]), None)
        return tuple(_strip_sites(x) for x in t)
    return t
