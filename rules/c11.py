"""C11 - repodata artifact signing is complete, faithful and client-verifiable (structural part)."""
from __future__ import annotations

from sa.effects import all_events
from sa.terms import C, CallT, P, Sub, SubC, is_call, is_lit, norm_codec, root_of, show, subst
from sa.walker import State, flatten_events

from . import own_site, fn_site
from .c08 import _inplace_signers
from .signer import canon_bytes, entry_dict, pubhex_of_private, signature_hex
from .vs import hexconj

EXPLANATION = (
    "Walk of sign_all_in_repodata with the loaded document L = json.load(open(fname,'rb')) as a symbolic value. R1 gates: "
    "the key passed the 64-hex grammar, fname is a str, 'packages' in L else ValueError. R2: the store L['signatures'] = {} "
    "precedes every insertion on every path (stale entries gone). R3 coverage and fidelity: both L['packages'] and "
    "L['packages.conda'] (optional) are iterated; in each loop every completing body path performs exactly one store "
    "L['signatures'][<artifact name>] = {hex(raw public key of the signing key): {'signature': hex(sign(canonserialize(<that "
    "artifact's metadata>)))}} with the key built from the given hex; the two sibling loops produce identical value terms up "
    "to the section. R4: L is written only under ['signatures'] and is written back canonically to the same path (C08-R3). "
    "R5: the entry shape is the one the envelope verifier reads (field 'signature', hex codec, filed under the hex public key)."
)
RULE_TEXT = "obligations: gates, reset-before-insert, per-section loop store target/value, sibling agreement, write-set, write-back; non-trivial = term equality on walked paths"

SECTIONS = ("packages", "packages.conda")
FROM_PRIVATE = "ext:cryptography.hazmat.primitives.asymmetric.ed25519.Ed25519PrivateKey.from_private_bytes"


def run(ctx):
    eng = ctx.eng
    ctx.assume("A1", "A2", "A8")
    # private helpers of the signing module are inlined, so that extracting the loops into a
    # helper does not hide them
    inline = frozenset(q for q, f in eng.prog.funcs.items() if f.mod.short == "signing" and q.split(".")[-1].startswith("_")) | frozenset(q for q in ("signing.sign_signable", "signing.wrap_as_signable", "signing.serialize_and_sign") if q in eng.prog.funcs)
    sm = eng.summary(eng.prog.func("signing.sign_all_in_repodata"), None, inline)
    site = fn_site(eng, sm)
    fname, keyhex = P(sm.params[0]), P(sm.params[1])
    L = eng.expand(eng.repo_call("common.load_metadata_from_file", fname))
    priv_want = norm_codec(CallT(FROM_PRIVATE, [CallT("ext:binascii.unhexlify", [keyhex])]))
    rets = [p for p in sm.paths if p.kind == "return"]
    if not rets:
        ctx.ob("R3", "never-completes", site.loc(), "sign_all_in_repodata has no normally returning path", False)
        return

    # ---- R1 gates
    g_key = all(hexconj(State(facts=p.facts), keyhex, 64) for p in rets)
    g_name = all(State(facts=p.facts).holds(("type", fname, frozenset(["str"]))) for p in rets)
    g_pk = all(State(facts=p.facts).holds(("has", L, C("packages"))) for p in rets)
    ctx.ob("R1", "gate-key", site.loc(), "the private key argument %s the 64-hex grammar on every completing path" % ("passed" if g_key else "did NOT pass"), g_key)
    ctx.ob("R1", "gate-fname", site.loc(), "fname %s" % ("is checked to be a str" if g_name else "is not checked to be a str"), g_name)
    ctx.ob("R1", "gate-packages", site.loc(), "'packages' in the loaded document %s" % ("is established on every completing path" if g_pk else "is not established"), g_pk)
    miss = [p for p in sm.paths if p.kind == "raise" and p.value.origin == "explicit" and all(own_site(eng, st_, "signing.sign_all_in_repodata") for st_ in p.value.chain) and ("nothas", L, C("packages")) in p.facts]
    ctx.ob("R1", "no-packages-error", site.loc(), "a document without 'packages' is rejected with %s" % (miss[0].value.exc if miss else "nothing explicit"), bool(miss) and eng.prog.exc_is_sub(miss[0].value.exc, "ValueError"))

    # ---- R2 / R3 per path: the signatures mapping M that ends up in the written document, the
    # insertions into it, and the loops over the artifact sections they sit in.  M is
    # L['signatures'] itself (reset, then filled in place) or a fresh dict display that is filled
    # and then stored there / placed into a rebuilt document {**L, 'signatures': M}.
    from .c08 import _rebuilt_from

    sigs = SubC(L, "signatures")
    agg = {"reset-first": True, "sections": True, "one-store-per-artifact": True, "target": True, "filed-under-signer": True, "signature-over-own-metadata": True, "siblings-agree": True}
    notes = {}

    def section_of(base):
        for sname in SECTIONS:
            if base == SubC(L, sname):
                return sname
        return None

    for p in rets:
        evs = [ev for ev, _d in flatten_events(p.events)]
        maps = {sigs}
        fresh = set()
        reset_idx = []
        for i, ev in enumerate(evs):
            if ev[0] == "store" and ev[2] == sigs and is_lit(ev[3], "dict") and ev[3][3] is not None:
                maps.add(ev[3])
                fresh.add(ev[3])
                if not ev[3][2]:
                    reset_idx.append(i)
            if ev[0] == "call" and ev[2] == "repo:common.write_metadata_to_file" and ev[5][0] == "ok" and ev[3]:
                W = eng.expand(ev[3][0])
                if _rebuilt_from(W, L):
                    X = W[2][-1][1]
                    if is_lit(X, "dict") and X[3] is not None:
                        maps.add(X)
                        fresh.add(X)
        # M.update(D) with D a dict display of this call that is filled item by item beforehand:
        # D's insertions are M's (checked below: none of them comes after the merge)
        merged = {}
        for i, ev in enumerate(evs):
            if ev[0] == "mutcall" and ev[3] == "update" and ev[2] in maps and len(ev[4]) == 1 and is_lit(ev[4][0], "dict") and ev[4][0][3] is not None and not ev[4][0][2] and ev[4][0] not in maps:
                maps.add(ev[4][0])
                fresh.add(ev[4][0])
                merged[ev[4][0]] = i
        # insertions with their loop context
        inserts = []  # (event, section name or None, element term, body-path events before it, index among top-level events or None)

        def visit(events, lctx, top_index):
            flat_evs = [e for e, _d in flatten_events(events)]
            for i, ev in enumerate(flat_evs):
                if ev[0] == "loop":
                    for bp in ev[4]:
                        if bp[0] in ("fall", "continue"):
                            visit(bp[2], lctx + [(ev, bp)], top_index if top_index is not None else i)
                elif ev[0] == "mutcall" and ev[2] in maps and ev[3] == "update" and len(ev[4]) == 1 and isinstance(ev[4][0], tuple) and len(ev[4][0]) == 5 and ev[4][0][0] == "comp" and ev[4][0][1] in ("dict", "gen", "list") and not eng.__dict__.get("_comp_store", {}).get(("ifs", ev[4][0][4])):
                    # M.update({name: entry for name, md in section.items()}): one insertion per
                    # element of the comprehension's loop
                    comp = ev[4][0]
                    base = comp[2][2][0] if is_call(comp[2], ("method:items", "method:keys", "method:values")) and comp[2][2] else comp[2]
                    elc = ("elem", base, comp[4])
                    kv = comp[3]
                    L_ev = None
                    for e2 in all_events(p.events):
                        if e2[0] == "loop" and e2[3] == elc:
                            L_ev = e2
                    if L_ev is None or not (is_lit(kv, "tuple") and len(kv[2]) == 2):
                        inserts.append((ev, None, None, flat_evs[:i], top_index if top_index is not None else i, lctx))
                        continue
                    for bp in L_ev[4]:
                        if bp[0] in ("fall", "continue"):
                            kterm, vterm = kv[2]
                            if len(bp) > 3 and is_lit(bp[3], "tuple") and len(bp[3][2]) == 2:
                                kterm, vterm = bp[3][2]
                            syn = ("store", ev[1], ("sub", ev[2], kterm), vterm)
                            inserts.append((syn, section_of(base), elc, [e3 for e3, _d3 in flatten_events(bp[2])], top_index if top_index is not None else i, lctx + [(L_ev, bp)]))
                elif ev[0] in ("store", "mutcall", "del") and isinstance(ev[2], tuple) and ev[2][0] == "sub" and ev[2][1] in maps:
                    sect, el = None, None
                    for lev, _bp in reversed(lctx):
                        sname = section_of(lev[2])
                        if sname:
                            sect, el = sname, lev[3]
                            break
                    inserts.append((ev, sect, el, flat_evs[:i], top_index if top_index is not None else i, lctx))

        visit(p.events, [], None)
        # reset-first: an insertion into L['signatures'] itself needs an earlier reset; a fresh
        # display holds nothing but these insertions
        for ev, sect, el, before, top_i, lctx in inserts:
            if ev[2][1] == sigs and not any(r < top_i for r in reset_idx):
                agg["reset-first"] = False
            if ev[2][1] in merged and top_i >= merged[ev[2][1]]:
                agg["one-store-per-artifact"] = False
                notes["one-store-per-artifact"] = "an entry is put into a side dictionary after that dictionary was merged into the signatures mapping"
        if not any(m in fresh for m in maps) and not reset_idx:
            agg["reset-first"] = False
        # loops over sections: one store per completing body path, stored under the element
        seen_sections = {}
        for i, ev in enumerate(evs):
            pass
        loops_seen = {}
        for ev, sect, el, before, top_i, lctx in inserts:
            if sect is None:
                base_txt = show(lctx[-1][0][2])[:60] if lctx else "no loop"
                if lctx and is_lit(lctx[-1][0][2], "dict") and not lctx[-1][0][2][2]:
                    continue  # the empty default of an absent optional section: never iterates
                agg["sections"] = False
                notes["sections"] = "an insertion into the signatures mapping is not inside a loop over an artifact section (%s)" % base_txt
                continue
            if ev[0] != "store":
                agg["one-store-per-artifact"] = False
                notes["one-store-per-artifact"] = "%s on the signatures mapping in section %s" % (ev[0], sect)
                continue
            # innermost section loop and the body path this insertion belongs to
            lev, bp = [(l, b) for l, b in lctx if section_of(l[2]) == sect][-1]
            loops_seen.setdefault((sect, id(lev)), {}).setdefault(id(bp), []).append((ev, before))
        for (sect, lid), per_bp in loops_seen.items():
            valterm = seen_sections.get(sect)
            for bid, ins in per_bp.items():
                if len(ins) != 1:
                    agg["one-store-per-artifact"] = False
                    notes["one-store-per-artifact"] = "%d stores for one artifact in section %s" % (len(ins), sect)
                    continue
                e, before = ins[0]
                el = [x for x in inserts if x[0] is e][0][2]
                if e[2][2] != el:
                    agg["target"] = False
                    notes["target"] = "stored at %s" % show(e[2])[:100]
                val = _materialise(eng.expand(e[3]), before)
                if not (is_lit(val, "dict") and len(val[2]) == 1):
                    agg["filed-under-signer"] = False
                    notes["filed-under-signer"] = "value is %s" % show(val)[:80]
                    continue
                pk, inner = val[2][0]
                inner = _materialise(inner, before)
                priv = _priv_of(pk)
                if priv is None or norm_codec(priv) != priv_want or not pubhex_of_private(pk, priv):
                    agg["filed-under-signer"] = False
                    notes["filed-under-signer"] = "inner key is %s" % show(pk)[:120]
                    continue
                sig = entry_dict(inner)
                msg = canon_bytes(eng, Sub(SubC(L, sect), el))
                good, why = (False, "inner entry is %s" % show(inner)[:80]) if sig is None else signature_hex(sig, priv, msg)
                if not good:
                    agg["signature-over-own-metadata"] = False
                    notes["signature-over-own-metadata"] = why
                valterm = subst(val, {el: ("ARTIFACT",), SubC(L, sect): ("SECTION",)})
            seen_sections[sect] = valterm
        # every completing body path of a section loop inserts (a path that skips an artifact leaves it unsigned)
        def check_complete(events):
            for ev, _d in flatten_events(events):
                if ev[0] == "loop":
                    sname = section_of(ev[2])
                    if sname:
                        for bp in ev[4]:
                            if bp[0] in ("fall", "continue"):
                                n_ins = len([x for x in inserts if any(b is bp for _l, b in x[5])])
                                if n_ins == 0:
                                    agg["one-store-per-artifact"] = False
                                    notes["one-store-per-artifact"] = "a completing iteration over section %s stores nothing" % sname
                                seen_sections.setdefault(sname, None)
                    for bp in ev[4]:
                        check_complete(bp[2])

        check_complete(p.events)
        st = State(facts=p.facts)
        for sname in SECTIONS:
            if sname not in seen_sections and not st.holds(("nothas", L, C(sname))):
                agg["sections"] = False
                notes["sections"] = "section %s is not iterated" % sname
        vals = [v for v in seen_sections.values() if v is not None]
        if len(vals) == 2 and _strip_sites(vals[0]) != _strip_sites(vals[1]):
            agg["siblings-agree"] = False
            notes["siblings-agree"] = "the two section loops build different entries"
    texts = {
        "reset-first": ("the signatures section is reset to {} before any insertion on every path", "the signatures section is not reset before insertions (stale entries survive)"),
        "sections": ("both 'packages' and 'packages.conda' (when present) are signed", "not every artifact section is signed"),
        "one-store-per-artifact": ("each loop iteration performs exactly one store into the document", "not exactly one store per artifact"),
        "target": ("each entry is stored at signatures[<artifact name>]", "an entry is not stored under its artifact's name"),
        "filed-under-signer": ("each entry is {hex(raw public key of the signing key): ...} with the key built from the given hex", "an entry is not filed under the signing key's public key"),
        "signature-over-own-metadata": ("each signature is hex(sign(canonserialize(that artifact's own metadata)))", "a signature is not over the artifact's own canonical metadata"),
        "siblings-agree": ("the two section loops build identical entries", "the two section loops disagree"),
    }
    for k, ok in agg.items():
        rule = "R2" if k == "reset-first" else "R3"
        ctx.count(rule + ".items")
        ctx.ob(rule, k, site.loc(), (texts[k][0] if ok else texts[k][1] + (": " + notes[k] if k in notes else "")) + " (%d completing paths)" % len(rets), ok)

    # ---- R4 write set + write back (shared with C08)
    _inplace_signers(ctx.sub("R4"), "C08-R3")
    # "the file is the canonical form of its content": what the writer puts on disk is exactly
    # canonserialize(document) (C08-R1)
    from .c08 import writer_model

    writer_model(ctx.sub("R4"), "C08-R1")

    # ---- R6: signing completes for every document whatever the console: text the signer (or
    # anything it calls in the package) prints is ASCII-safe - a progress line with an artifact
    # name in it dies with UnicodeEncodeError before the file is written
    from sa.callgraph import CallGraph

    from .c02 import _print_sinks

    cone = sorted(q for q in CallGraph(eng.prog).cone(["signing.sign_all_in_repodata"]) if q in eng.prog.funcs and eng.prog.funcs[q].parent is None and eng.prog.funcs[q].cls is None)
    ctx.count("R6.functions_in_cone", len(cone))
    ctx.floor("R6.functions_in_cone", 5)
    _print_sinks(ctx, cone, "R6")
    ctx.ob("R6", "console-independent", site.loc(), "of the %d functions the signer reaches, %s (%d print sinks)" % (len(cone), "all print only ASCII-safe text" if not ctx.failed("R6") else "some print text that stdout may be unable to encode", ctx.counts.get("R6.print_sinks", 0)), not ctx.failed("R6"))

    # ---- "a client verifies each entry through a pkg_mgr delegation": the delegation check accepts
    # properly signed content of any shape and nothing else (C05's rule set, re-evaluated here)
    from . import c05

    c05.run(ctx.sub("DEP-C05"))


def _materialise(t, events_before):
    """a dict display that was created empty and then filled by stores (d = {}; d[k] = v): the
    display of what the stores put there, in order"""
    if not (is_lit(t, "dict") and t[3] is not None):
        return t
    items = list(t[2])
    for ev in events_before:
        if ev[0] == "store" and isinstance(ev[2], tuple) and ev[2][0] == "sub" and ev[2][1] == t:
            items = [(k, v) for k, v in items if k != ev[2][2]] + [(ev[2][2], ev[3])]
    return ("lit", "dict", tuple(items), t[3])


def _priv_of(pk):
    """the private-key term inside HEX(priv.public_key().public_bytes(...))"""
    n = norm_codec(pk)
    if isinstance(n, tuple) and n and n[0] == "HEX" and is_call(n[1]) and n[1][2] and is_call(n[1][2][0], "method:public_key") and n[1][2][0][2]:
        return n[1][2][0][2][0]
    return None


def _strip_sites(t):
    if isinstance(t, tuple):
        if len(t) == 4 and t[0] == "lit":
            return ("lit", t[1], _strip_sites(t[2]), None)
        return tuple(_strip_sites(x) for x in t)
    return t
