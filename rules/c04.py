"""C04 - root chain integrity over arbitrary histories of offered updates (reduction)."""
from __future__ import annotations

from . import c03, c08, c12

EXPLANATION = (
    "Reduction of the history property to four statically decided facts. S1 (= all C03 rules, re-evaluated on this tree): "
    "a single verify_root(T, U) accepts iff U is well-formed root metadata with U.version = T.version + 1 carrying a "
    "threshold of T's root keys and of its own. S2 (statelessness): no function of the library writes module, class or "
    "function state, no caching decorator, no mutable default, no ambient read reachable from a verifier - so a verdict "
    "is a function of (T, U) alone. S3: the verifiers never write their arguments, in particular the trusted root. "
    "S4: write_metadata_to_file writes exactly canonserialize(x) and load_metadata_from_file returns json.load "
    "unmodified, so a persisted root re-enters the protocol as the same JSON value (given the json library's round trip, "
    "assumed). Paper step on top (not executed): the client's trusted root changes only by an accepted verify_root(T, U); "
    "by S1 each accepted step raises the version by exactly one and is signed by the threshold in force in T; by S2-S3 the "
    "verdict on an offer depends on (T, U) only, so replayed, rolled-back, skipping or self-appointed offers are judged as "
    "if offered first and rejected by S1; induction on the number of accepted offers."
)
RULE_TEXT = "obligations are those of C03 (prefix S1), the purity rules of C12 (prefix S2S3) and the persistence rules C08-R1/R2 (prefix S4), all recomputed on the current tree"


def run(ctx):
    ctx.assume("A1", "A2", "A3", "A8", "json.loads(json.dumps(x)) == x for JSON values (json library; not decided here)")
    c03.run(ctx.sub("S1"))
    c12.run(ctx.sub("S2S3"))
    c08.writer_model(ctx.sub("S4"), "R1")
    c08.loader_model(ctx.sub("S4"), "R2")
