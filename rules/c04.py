"""C04 - root chain integrity over arbitrary histories of offered updates (reduction)."""
from __future__ import annotations

from . import c03, c08, c12

EXPLANATION = (
    "Reduction of the history property to four statically decided facts. S1 (= all C03 rules, re-evaluated on this tree): "
    "a single verify_root(T, U) accepts iff U is well-formed root metadata with U.version = T.version + 1 carrying a "
    "threshold of T's root keys and of its own. S2 (statelessness): no function of the library writes module, class or "
    "function state, no caching decorator, no mutable default, no ambient read reachable from a verifier - so a verdict "
    "is a function of (T, U) alone. S3: the verifiers never write their arguments, in particular the trusted root. "
    "S4: write_metadata_to_file writes exactly canonserialize(x) and load_metadata_from_file returns json.load "
    "unmodified, so a persisted root re-enters the protocol as the same JSON value (given the json library's round trip, "
    "assumed). Paper step on top (not executed): the client's trusted root changes only by an accepted verify_root(T, U); "
    "by S1 each accepted step raises the version by exactly one and is signed by the threshold in force in T; by S2-S3 the "
    "verdict on an offer depends on (T, U) only, so replayed, rolled-back, skipping or self-appointed offers are judged as "
    "if offered first and rejected by S1; induction on the number of accepted offers. S5: the client side lives outside the "
    "library, except where code of the repository itself loops around verify_root (a chain walker): such a loop must pair "
    "every offer with the root accepted just before it (none on the reference tree; zip(x, x) pairings are reported, an "
    "unrecognised pairing is 'no verdict')."
)
RULE_TEXT = "obligations are those of C03 (prefix S1), the purity rules of C12 (prefix S2S3) and the persistence rules C08-R1/R2 (prefix S4), all recomputed on the current tree; S5 inspects every loop of the repository from which verify_root is reachable"


ONE_SHOT_CALLS = ("builtin:iter", "builtin:map", "builtin:filter", "builtin:zip", "builtin:enumerate", "builtin:reversed")


def _one_shot(t):
    return isinstance(t, tuple) and ((len(t) == 4 and t[0] == "call" and t[1] in ONE_SHOT_CALLS) or (len(t) == 3 and t[0] == "gen") or (len(t) == 5 and t[0] == "comp" and t[1] == "gen"))


def chain_walkers(ctx):
    """S5 - code of the repository that itself carries a trusted root over several offers: a loop
    around verify_root (directly or through a helper).  Such a walker is part of the protocol's
    client side and must verify every link: consecutive, overlapping pairs."""
    from sa.callgraph import CallGraph
    from sa.effects import all_events
    from sa.terms import C, is_call, is_lit, show

    from sa import AnalysisError

    eng, prog = ctx.eng, ctx.prog
    cg = CallGraph(prog)
    target = "authentication.verify_root"
    reach = {q for q in prog.funcs if q != target and target in cg.cone([q])}
    reach_callees = {"repo:" + q for q in reach} | {"repo:" + target}

    def reaches(events):
        for ev in all_events(events):
            if ev[0] == "call" and isinstance(ev[2], str) and ev[2].split("[")[0].split("<")[0] in reach_callees:
                return True
        return False

    seen = set()
    for q in sorted(reach):
        fi = prog.funcs[q]
        if fi.parent is not None:
            continue
        sm = eng.walk(q)
        for p in sm.paths:
            for ev in all_events(p.events):
                if ev[0] != "loop" or (ev[1], "loop") in seen:
                    continue
                if not any(reaches(bp[2]) for bp in ev[4]):
                    continue
                seen.add((ev[1], "loop"))
                ctx.count("S5.walkers")
                base = ev[2]
                if is_call(base, "builtin:zip") and len(base[2]) == 2 and not base[3]:
                    a, b = base[2]
                    if a == b:
                        ctx.ob("S5", "walker|%s|pairs" % q, ev[1].loc(), "%s walks a chain of roots over zip(x, x) with x = %s: the links are not consecutive (%s), so an offer is accepted without having been verified against the root accepted just before it" % (q, show(a)[:60], "non-overlapping pairs: every second link is skipped" if _one_shot(a) else "each document paired with itself"), False)
                        continue
                    if isinstance(b, tuple) and b and b[0] == "sub" and b[1] == a and not _one_shot(a) and is_lit(b[2], "slice") and tuple(b[2][2]) == (C(1), C(None), C(None)):
                        ctx.ob("S5", "walker|%s|pairs" % q, ev[1].loc(), "%s walks a chain of roots over zip(x, x[1:]): consecutive, overlapping pairs" % q, True)
                        continue
                if is_call(base, ("ext:itertools.pairwise",)) and len(base[2]) == 1:
                    ctx.ob("S5", "walker|%s|pairs" % q, ev[1].loc(), "%s walks a chain of roots over itertools.pairwise: consecutive, overlapping pairs" % q, True)
                    continue
                verdict = _cursor_walker(prog, fi, ev[1], target)
                if verdict is not None:
                    ok_c, text_c = verdict
                    ctx.ob("S5", "walker|%s|cursor" % q, ev[1].loc(), "%s walks a chain of roots with a cursor: %s" % (q, text_c), ok_c)
                    continue
                raise AnalysisError("C04: %s at %s loops around verify_root over %s - a chain walker whose pairing of trusted and offered roots the analysis does not recognise (no verdict)" % (q, ev[1].loc(), show(base)[:80]))
            for ev in all_events(p.events):
                if ev[0] == "while" and (ev[1], "while") not in seen and any(reaches(bp[2]) for bp in ev[2]):
                    raise AnalysisError("C04: %s at %s has a while loop around verify_root - a chain walker the analysis does not follow (no verdict)" % (q, ev[1].loc()))
    ctx.count("S5.functions_reaching_verify_root", len(reach))


def _cursor_walker(prog, fi, site, target):
    """the walker idiom `cur = trusted; for offer in offers: verify_root(cur, offer); cur = offer`:
    the loop body (top level, in this order) calls the verifier with (cursor variable, loop
    variable) outside any try statement and then rebinds the cursor to the loop variable, nothing
    else assigns either, and no continue / break stands before the rebinding.
    -> (ok, text), or None when the loop is not of this shape"""
    import ast

    from sa.model import dotted_chain

    loop = None
    for n in ast.walk(fi.node):
        if isinstance(n, ast.For) and n.lineno == site[1] and isinstance(n.target, ast.Name):
            loop = n
    if loop is None:
        return None
    offer = loop.target.id
    call_i = cur = None
    for i, st in enumerate(loop.body):
        if isinstance(st, ast.Expr) and isinstance(st.value, ast.Call) and len(st.value.args) >= 2 and all(isinstance(a, ast.Name) for a in st.value.args[:2]):
            chain = dotted_chain(st.value.func)
            r = prog.resolve_dotted(fi.mod, chain)[0] if chain else ("?",)
            if r[0] == "func" and r[1] == target and st.value.args[1].id == offer:
                call_i, cur = i, st.value.args[0].id
                break
    if call_i is None or cur == offer:
        return None
    rebind_i = None
    for i, st in enumerate(loop.body):
        if i > call_i and isinstance(st, ast.Assign) and len(st.targets) == 1 and isinstance(st.targets[0], ast.Name) and st.targets[0].id == cur and isinstance(st.value, ast.Name) and st.value.id == offer:
            rebind_i = i
            break
    others = [x for st in loop.body for x in ast.walk(st) if isinstance(x, ast.Name) and isinstance(x.ctx, ast.Store) and x.id in (cur, offer)]
    if rebind_i is None:
        return (False, "verify_root(%s, %s) is called in the loop but %s is never moved on to the offer just accepted: every offer is judged by the first root" % (cur, offer, cur))
    if len(others) != 1:
        return None
    between = [x for st in loop.body[: rebind_i + 1] for x in ast.walk(st) if isinstance(x, (ast.Continue, ast.Break, ast.Try, ast.Return))]
    if between:
        return None
    return (True, "each offer is verified with verify_root(%s, %s) against the root accepted just before it, and %s moves on only after that call has returned" % (cur, offer, cur))


def run(ctx):
    ctx.assume("A1", "A2", "A3", "A8", "json.loads(json.dumps(x)) == x for JSON values (json library; not decided here)")
    c03.run(ctx.sub("S1"))
    c12.run(ctx.sub("S2S3"))
    c08.writer_model(ctx.sub("S4"), "R1")
    c08.loader_model(ctx.sub("S4"), "R2")
    chain_walkers(ctx)
    # the one client of the protocol inside the repository is the verify-metadata command: the root
    # it judges an offer against is the file it was given, and its status is the library's verdict
    # (C17's rule set, re-evaluated here)
    from . import c17

    c17.run(ctx.sub("S6-C17"))
