"""Writer-side models (sign_signable, sign_all_in_repodata, wrap_as_signable) and the
writer/reader agreement rule shared by C02, C09 and C11."""
from __future__ import annotations

from sa import AnalysisError
from sa.terms import C, CallT, P, Sub, SubC, is_call, is_const, is_lit, norm_codec, show, subst
from sa.walker import flatten_events

RAW_ENC = "ext:cryptography.hazmat.primitives.serialization.Encoding.Raw"
RAW_PUB = "ext:cryptography.hazmat.primitives.serialization.PublicFormat.Raw"
RAW_PRIV = "ext:cryptography.hazmat.primitives.serialization.PrivateFormat.Raw"


def canon_bytes(eng, value_term):
    """expanded term of canonserialize(value_term)"""
    return eng.expand(eng.repo_call("common.canonserialize", value_term))


def is_raw_public_bytes(t, of_key):
    """t == of_key.public_bytes(Raw, Raw) / public_bytes_raw()"""
    if is_call(t, "method:public_bytes_raw") and t[2] == (of_key,):
        return True
    if is_call(t, "method:public_bytes") and t[2] and t[2][0] == of_key:
        vals = list(t[2][1:]) + [v for _n, v in t[3]]
        names = sorted(v[1] for v in vals if isinstance(v, tuple) and v and v[0] == "global")
        return names == sorted([RAW_ENC, RAW_PUB])
    return False


def pubhex_of_private(t, priv, st=None):
    """t == HEX(priv.public_key().public_bytes(Raw, Raw)) - or of a public key object that the
    path (st) has shown equivalent to priv.public_key() (is_equivalent_to(...) is True)"""
    n = norm_codec(t)
    if not (isinstance(n, tuple) and n and n[0] == "HEX"):
        return False
    pk = CallT("method:public_key", [priv])
    if is_raw_public_bytes(n[1], norm_codec(pk)) or is_raw_public_bytes(n[1], pk):
        return True
    if st is not None:
        for f in st.closure():
            if f[0] == "ret" and f[2] is True and is_call(f[1]) and f[1][1].startswith("repo:common.") and ".is_equivalent_to" in f[1][1] and len(f[1][2]) == 2:
                a, b = f[1][2]
                for same, other in ((a, b), (b, a)):
                    if same in (pk, norm_codec(pk)) and is_raw_public_bytes(n[1], other):
                        return True
    return False


def signature_hex(t, priv, message):
    """t == HEX(priv.sign(message))"""
    n = norm_codec(t)
    if not (isinstance(n, tuple) and n and n[0] == "HEX"):
        return False, "not a lower-case hex encoding (%s)" % show(t)[:120]
    s = n[1]
    if not (is_call(s, "method:sign") and len(s[2]) == 2 and s[2][0] == priv):
        return False, "not a signature by the given private key (%s)" % show(s)[:120]
    if s[2][1] != norm_codec(message):
        return False, "signed message is %s, not the canonical serialization of the payload" % show(s[2][1])[:160]
    return True, ""


def materialise(t, events_before):
    """a dict display that was created and then filled by stores (d = {}; d[k] = v): the display
    of what the stores put there, in order (later stores under the same key replace earlier ones)"""
    if not (is_lit(t, "dict") and t[3] is not None):
        return t
    items = list(t[2])
    for ev in events_before:
        if ev[0] == "store" and isinstance(ev[2], tuple) and ev[2][0] == "sub" and ev[2][1] == t:
            items = [(k, v) for k, v in items if k != ev[2][2]] + [(ev[2][2], ev[3])]
        elif ev[0] in ("del", "mutcall") and isinstance(ev[2], tuple) and (ev[2] == t or (ev[2][0] == "sub" and ev[2][1] == t)):
            return t  # removals / bulk updates: not followed
    return ("lit", "dict", tuple(items), t[3])


def entry_dict(t, events_before=()):
    """{'signature': X} display -> X, else None"""
    t = materialise(t, events_before)
    if is_lit(t, "dict") and len(t[2]) == 1 and t[2][0][0] == C("signature"):
        return t[2][0][1]
    return None


def as_item_stores(eng, ev, sigs, evs):
    """[(key, value)...] when the event adds exactly those items to the signature map and keeps
    the rest: sigs.update({k: v, ...}) with a dict display, or sigs = {**sigs, k: v, ...}"""
    before = evs[: evs.index(ev)] if ev in evs else evs
    if ev[0] == "mutcall" and ev[2] == sigs and ev[3] == "update" and len(ev[4]) == 1:
        d = materialise(eng.expand(ev[4][0]), before)
        if is_lit(d, "dict") and d[2] and not any(k == ("unpack",) for k, _v in d[2]):
            return list(d[2])
    if ev[0] == "store" and ev[2] == sigs:
        d = materialise(eng.expand(ev[3]), before)
        if is_lit(d, "dict") and len(d[2]) >= 2 and d[2][0] == (("unpack",), sigs) and not any(k == ("unpack",) for k, _v in d[2][1:]):
            return list(d[2][1:])
    return None


class SignSignable:
    """structural model of sign_signable(signable, private_key)"""

    def __init__(self, eng):
        self.eng = eng
        self.sm = eng.walk("signing.sign_signable")
        ps = self.sm.params
        self.signable, self.priv = P(ps[0]), P(ps[1])
        self.returns = [p for p in self.sm.paths if p.kind == "return"]
        if not self.returns:
            raise AnalysisError("sign_signable has no normally returning path")

    def signer_on(self, p):
        """the key that signs on this path: the `private_key` argument itself, or - on a path for an
        argument that carries a private key (a key-pair record) - the part of it whose .sign()
        produces the stored signature"""
        from sa.walker import State

        keyt = State(facts=p.facts).types(self.priv)
        if keyt is None or not keyt or any("Ed25519P" in t or t.startswith("obj:common.P") for t in keyt):
            return self.priv
        def signers(t):
            if isinstance(t, tuple):
                if is_call(t, "method:sign") and t[2]:
                    yield t[2][0]
                for y in t:
                    if isinstance(y, tuple):
                        yield from signers(y)

        evs = [ev for ev, _d in flatten_events(p.events)]
        for ev in evs:
            if ev[0] in ("store", "mutcall") and isinstance(ev[2], tuple):
                r0 = ev[2]
                while isinstance(r0, tuple) and r0 and r0[0] in ("sub", "attr"):
                    r0 = r0[1]
                if r0 != self.signable:
                    continue
                vals = [ev[3]] if ev[0] == "store" else list(ev[4])
                for v in vals:
                    for x in signers(self.eng.expand(materialise(self.eng.expand(v), evs))):
                        r = x
                        while isinstance(r, tuple) and r and r[0] in ("sub", "attr"):
                            r = r[1]
                        if r == self.priv and x != self.priv:
                            return x
        return self.priv

    def stores(self, p):
        return [ev for ev, _d in flatten_events(p.events) if ev[0] in ("store", "del", "mutcall")]


def agreement(ctx, rule):
    """signer (sign_signable) and verifier (verify_signable) agree on serializer, entry field,
    hex codec and key filing; the written entry passes the reader's grammar"""
    eng = ctx.eng
    from .vs import VSModel

    w = SignSignable(eng)
    m = VSModel(eng)
    fn_site = eng.prog.site(w.sm.fi.mod, w.sm.fi.node, w.sm.fi.qualname)
    msg_w = canon_bytes(eng, SubC(w.signable, "signed"))
    msg_r = subst(canon_bytes(eng, SubC(m.signable, "signed")), {m.signable: w.signable})
    ctx.ob(rule, "agree-serializer", fn_site.loc(), "signer and verifier serialize envelope['signed'] with the same serializer term (%s)" % show(msg_w)[:100], norm_codec(msg_w) == norm_codec(msg_r))
    n = 0
    for p in w.returns:
        evs_p = [e0 for e0, _d0 in flatten_events(p.events)]
        stores_p = []
        for ev in w.stores(p):
            items = as_item_stores(eng, ev, SubC(w.signable, "signatures"), evs_p)
            if items is None:
                stores_p.append(ev)
            else:
                stores_p.extend(("store", ev[1], Sub(SubC(w.signable, "signatures"), k), v) for k, v in items)
        for ev in stores_p:
            if ev[0] != "store":
                continue
            tgt, val = ev[2], ev[3]
            if not (tgt[0] == "sub" and tgt[1] == SubC(w.signable, "signatures")):
                continue
            n += 1
            s = ev[1]
            from sa.walker import State as _State

            signer = w.signer_on(p)
            filed = pubhex_of_private(eng.expand(tgt[2]), signer, _State(facts=p.facts))
            ctx.ob(rule, "agree-filing|%s" % s.key(), s.loc(), "signer files its entry under %s" % ("hex(raw public key of the signing key): the verifier rebuilds exactly that key from the map key" if filed else "something else than hex(raw public key bytes of the signing key): " + show(tgt[2])[:140]), filed)
            before = []
            for e0 in evs_p:
                if e0 is ev or e0[1] == ev[1]:
                    break
                before.append(e0)
            sig = entry_dict(eng.expand(val), before)
            if sig is None:
                ctx.ob(rule, "agree-entry|%s" % s.key(), s.loc(), "signer's entry is not the one-field {'signature': ...} object the verifier reads (%s)" % show(val)[:120], False)
                continue
            ok, why = signature_hex(sig, signer, msg_w)
            ctx.ob(rule, "agree-entry|%s" % s.key(), s.loc(), "signer's entry is {'signature': hex(sign(canonical payload))}, the field, codec and message the verifier checks" if ok else "signer's entry disagrees with the verifier: " + why, ok)
    ctx.count(rule + ".signer_stores", n)
    if n < 1:
        ctx.ob(rule, "agree-nostore", fn_site.loc(), "sign_signable never stores an entry into signable['signatures']", False)
