"""C18 - in-place signing is all-or-nothing with respect to failures."""
from __future__ import annotations

import ast

from sa.callgraph import CallGraph
from sa.effects import all_events
from sa.terms import C, P, is_call, is_const, show
from sa.walker import State, flatten_events

from . import flat, fn_site
from .c08 import writer_model
from .vs import hexconj

EXPLANATION = (
    "Ordering (typestate) rule over the event sequence of every path - normal or failing - of the in-place signers, with "
    "the file-handling callees inlined: the first event that opens the target path for writing (or otherwise mutates it) "
    "must come after every other event that can raise (validation, loading, key construction, signing of every artifact, "
    "serialization); after it only write(handle, bytes computed earlier), the with-exit and the return may follow. Hence a "
    "failure at any earlier point leaves the file byte-identical. R2: no write-mode open of the target inside a loop; "
    "R3: inside write_metadata_to_file the serializer precedes the open (C08-R1, re-evaluated); R4: in the CLI the "
    "hex-key gate dominates the signer call and nothing opens the target for writing before it."
)
RULE_TEXT = "one obligation per in-place signer x path class (position of the first write-mode open relative to the last may-raise event), per loop, per CLI handler; non-trivial = decided on event sequences of walked paths (failing paths included)"

SIGNERS = ("signing.sign_all_in_repodata", "root_signing.sign_root_metadata_via_gpg")
HARMLESS_AFTER = {"with-enter", "with-exit", "write", "return", "enter", "exit", "attrchain", "assume"}


def write_mode(mode):
    if mode is None:
        return False
    if not is_const(mode):
        return True  # unknown mode: assume the worst
    m = str(mode[2])
    return any(c in m for c in "wax+")


def opens_for_writing(ev, target):
    """the event opens the file named by `target` for writing (truncating / creating it):
    open(target, 'w..'), os.open(target, O_WRONLY|...), or open(<descriptor of os.open(target, ...)>, 'w..')"""
    if ev[0] != "call" or not ev[3]:
        return False
    if ev[2] == "builtin:open":
        a0 = ev[3][0]
        if a0 == target or (is_call(a0, ("ext:os.fspath", "builtin:str")) and a0[2] == (target,)):
            return write_mode(open_mode(ev))
        if is_call(a0, "ext:os.open") and a0[2] and a0[2][0] == target:
            return True
        return False
    if ev[2] == "ext:os.open" and ev[3][0] == target and len(ev[3]) > 1:
        from sa.terms import show

        flags = show(ev[3][1])
        return any(f in flags for f in ("O_WRONLY", "O_RDWR", "O_TRUNC", "O_CREAT", "O_APPEND"))
    return False


def open_mode(ev):
    h_args, h_kw = ev[3], dict(ev[4])
    return h_args[1] if len(h_args) > 1 else h_kw.get("mode")


def io_functions(prog, cg, root):
    """functions in root's cone that (transitively) contain file I/O: these are inlined so that
    their open/write events are visible in the caller's event sequence"""
    cone = cg.cone([root])
    direct = set()
    for q in cone:
        fi = prog.funcs[q]
        for n in cg._own_nodes(fi):
            if isinstance(n, ast.Call) and isinstance(n.func, ast.Name) and n.func.id == "open":
                direct.add(q)
            if isinstance(n, ast.Call) and ast.unparse(n.func).startswith(("os.", "shutil.", "pathlib.", "Path(")):
                direct.add(q)
    out = set(direct)
    changed = True
    while changed:
        changed = False
        for q in cone:
            if q not in out and cg.edges.get(q, set()) & out:
                out.add(q)
                changed = True
    out.discard(root)
    return frozenset(out)


def run(ctx):
    eng, prog = ctx.eng, ctx.prog
    ctx.assume("A1", "A6", "A8", "failures of the final write() itself are outside the property's scope")
    cg = CallGraph(prog)
    for q in SIGNERS:
        fi = prog.func(q)
        inline = io_functions(prog, cg, q)
        sm = eng.summary(fi, None, inline)
        site = fn_site(eng, sm)
        target = P(sm.params[0])
        ctx.info.setdefault("inlined", {})[q] = sorted(inline)
        classes = {}
        loops_bad = []
        n_paths = n_writing = 0
        for p in sm.paths:
            n_paths += 1
            evs = [ev for ev, _d in flatten_events(p.events)]
            first = None
            for i, ev in enumerate(evs):
                if opens_for_writing(ev, target):
                    first = i
                    break
                if ev[0] == "fs-mutation" and any(a == target for a in ev[3]):
                    first = i
                    break
            # write-mode opens hidden in loop bodies
            for ev in evs:
                if ev[0] == "loop":
                    for bp in ev[4]:
                        for ev2 in all_events(bp[2]):
                            if opens_for_writing(ev2, target):
                                loops_bad.append(ev2[1])
                            if ev2[0] == "call" and ev2[2] == "repo:common.write_metadata_to_file" and len(ev2[3]) > 1 and ev2[3][1] == target:
                                loops_bad.append(ev2[1])
            if first is None:
                continue
            # R1b: a path that ends in failure must not have written at all, unless the failure is the
            # write phase's own (open/write) - "written in a finally block after the body failed"
            if p.kind == "raise":
                fail_idx = None
                for i, ev in enumerate(evs):
                    if (ev[0] == "call" and ev[5][0] == "raise") or ev[0] == "raise":
                        caught_later = any(e2[0] == "caught" for e2 in evs[i + 1 :]) and not (ev[0] == "call" and ev[5][1] == p.value.exc and ev[1] in p.value.chain)
                        if not caught_later or (ev[0] == "call" and ev[1] in p.value.chain):
                            fail_idx = i
                            break
                if fail_idx is not None and fail_idx < first:
                    k = "written-after-failure"
                    cur = classes.setdefault(k, [0, [evs[fail_idx]], evs[first][1]])
                    cur[0] += 1
                    n_writing += 1
                    continue
            n_writing += 1
            handle = evs[first][5][1] if evs[first][0] == "call" and evs[first][5][0] == "ok" else None
            wrapped = None
            fd = handle if handle is not None and evs[first][2] == "ext:os.open" else None
            if handle is not None and evs[first][2] == "ext:os.open":
                # fd = os.open(target, ...); open(fd, 'wb'): the file object wrapped around the
                # descriptor is the handle of the write phase
                for j in range(first + 1, len(evs)):
                    ev = evs[j]
                    if ev[0] == "call" and ev[2] == "builtin:open" and ev[3] and ev[3][0] == handle and ev[5][0] == "ok":
                        wrapped, handle = ev, ev[5][1]
                        break
            # end of the write phase: the with-exit following the handle's with-enter, or close()
            end = len(evs)
            entered = False
            for j in range(first + 1, len(evs)):
                ev = evs[j]
                if ev[0] == "with-enter" and ev[2] == handle:
                    entered = True
                elif ev[0] == "with-exit" and entered:
                    end = j
                    break
                elif ev[0] == "call" and ev[2] == "method:close" and ev[3] and ev[3][0] == handle:
                    end = j
                    break
            offenders = []
            inlined_sites = {ev[1] for ev in evs if ev[0] in ("inlined", "enter")}
            # a handler inside the write phase that does nothing but re-raise what it caught
            # (`except OSError: raise`): the failure is the write's own and leaves unchanged
            window = evs[first + 1 : end]
            passthrough = set()
            for i, ev in enumerate(window):
                if ev[0] != "caught":
                    continue
                for j in range(i + 1, len(window)):
                    e2 = window[j]
                    if e2[0] == "raise" and len(e2) > 3 and e2[3] == "reraise" and e2[2] == ev[2]:
                        passthrough.update((id(ev), id(e2)))
                        break
                    if e2[0] not in HARMLESS_AFTER:
                        break
            for ev in window:
                k = ev[0]
                if k in HARMLESS_AFTER or ev is wrapped or id(ev) in passthrough:
                    continue
                if fd is not None and k == "call" and ev[2] == "builtin:open" and ev[3] and ev[3][0] == fd:
                    continue  # (a failure to wrap the descriptor is a failure of the write phase itself)
                if k == "call" and ev[2] in ("method:write", "method:close", "method:flush", "method:writelines", "method:fileno") and handle is not None and ev[3] and ev[3][0] == handle:
                    continue
                if k == "call" and ev[2] in ("ext:os.fsync", "ext:os.fdatasync") and handle is not None and ev[3] and (ev[3][0] == handle or (is_call(ev[3][0], "method:fileno") and ev[3][0][2] and ev[3][0][2][0] == handle)):
                    continue  # (forcing the bytes just written to disk: part of the write)
                if k == "caught" and eng.prog.exc_is_sub(ev[2], "OSError") and len(ev) > 6 and ev[6] and any(st_.text.startswith(("os.fsync", "os.fdatasync")) or ".flush()" in st_.text or ".fileno()" in st_.text for st_ in ev[6][-1:]):
                    continue  # (a best-effort fsync whose failure is ignored)
                if k == "call" and ev[2].startswith("repo:") and (ev[2][5:].split("[")[0].split("<")[0] in inline or ev[1] in inlined_sites):
                    continue  # summary marker of an inlined callee (its own events were checked in place)
                if k == "call" and evs[first][0] == "fs-mutation" and ev[1] == evs[first][1]:
                    continue  # the mutating call itself
                offenders.append(ev)
            # a second write phase after the first: a failure in between leaves the intermediate content
            for ev in evs[end:]:
                if (opens_for_writing(ev, target) and ev is not wrapped) or (ev[0] == "fs-mutation" and any(a == target for a in ev[3])):
                    offenders.append(ev)
            key = "ok" if not offenders else "|".join(sorted({"%s %s" % (ev[0], ev[2] if ev[0] == "call" else "") for ev in offenders}))[:160]
            cur = classes.setdefault(key, [0, offenders[:3], evs[first][1]])
            cur[0] += 1
        ctx.count("R1.signers")
        ctx.count("R1.paths", n_paths)
        for key, (n, offenders, osite) in sorted(classes.items()):
            ok = key == "ok"
            if key == "written-after-failure":
                text = "%s: on %d failing path(s) the target is still written after the operation failed (%s): the file does not stay byte-identical" % (q, n, "; ".join("%s at %s" % (show_ev(ev), ev[1].loc()) for ev in offenders))
            else:
                text = "%s: on %d path(s) the target is opened for writing %s" % (q, n, "only after every operation that can fail; afterwards only the write of bytes computed earlier" if ok else "BEFORE operations that can still fail (a failure there leaves a truncated or partially signed file): " + "; ".join("%s at %s" % (show_ev(ev), ev[1].loc()) for ev in offenders))
            ctx.ob("R1", "write-phase|%s|%s" % (q, key), osite.loc(), text, ok)
        if n_writing == 0:
            ctx.ob("R1", "never-writes|%s" % q, site.loc(), "%s has no path that writes its output" % q, False)
        # R5: a failure while signing must end the operation: no handler of the signer itself (or of
        # its private helpers) swallows an exception on a path that goes on to write the target
        own_mod = fi.mod.short
        swallowed = {}
        for p in sm.paths:
            evs_all = list(all_events(p.events))
            writes = any((opens_for_writing(ev, target)) or (ev[0] == "fs-mutation" and any(a == target for a in ev[3])) for ev in evs_all)
            if not writes:
                continue
            for ev in evs_all:
                if ev[0] != "caught":
                    continue
                hsite = ev[1]
                hq = getattr(hsite, "fn", None) or ""
                own_handler = hq == q or (hq.startswith(own_mod + ".") and hq.split(".")[-1].startswith("_")) or hq.startswith(q + ".")
                # ... or a handler elsewhere (a context manager used by the signer) that catches an
                # exception which came out of the signer's own statements
                chain = ev[6] if len(ev) > 6 else ()
                top_fn = getattr(chain[0], "fn", "") if chain else ""
                own_failure = bool(chain) and (top_fn == q or top_fn.startswith(q + ".") or (top_fn.startswith(own_mod + ".") and top_fn.split(".")[-1].startswith("_")))
                if not (own_handler or own_failure):
                    continue  # a library predicate's own probe (is_*), not a failure of the signer
                swallowed.setdefault(hsite.key(), (hsite, ev[2]))
        # ... nor is an error inside a function handed to map()/filter() taken for the end of the data
        for p in sm.paths:
            evs_all = list(all_events(p.events))
            if not any((opens_for_writing(ev, target)) or (ev[0] == "fs-mutation" and any(a == target for a in ev[3])) for ev in evs_all):
                continue
            for ev in evs_all:
                if ev[0] == "iteration-cut-short":
                    swallowed.setdefault(ev[1].key(), (ev[1], "StopIteration (ends the %s iteration silently)" % ev[2][8:]))
        ctx.count("R5.signers")
        ctx.ob(
            "R5",
            "no-swallowed-failure|%s" % q,
            site.loc() if not swallowed else sorted(swallowed.values(), key=lambda x: x[0].loc())[0][0].loc(),
            "%s %s" % (q, "has no handler of its own that lets the operation continue to the write after a failure" if not swallowed else "continues to write the target after a failure was caught: " + "; ".join("%s caught at %s" % (exc, hs.loc()) for hs, exc in sorted(swallowed.values(), key=lambda x: x[0].loc()))[:300] + " (a partially signed or unsigned file is written and success is reported)"),
            not swallowed,
        )
        ctx.ob("R2", "no-write-in-loop|%s" % q, site.loc() if not loops_bad else loops_bad[0].loc(), "%s %s" % (q, "never opens or rewrites the target inside a loop" if not loops_bad else "opens/rewrites the target inside a loop (partially signed output can be left behind)"), not loops_bad)
    ctx.floor("R1.signers", 2)

    # ---- R3
    writer_model(ctx.sub("R3"), "C08-R1")

    # ---- R4 CLI
    sm = eng.walk("cli.cli_sign_artifacts")
    site = fn_site(eng, sm)
    n = bad = 0
    early = 0
    for p in sm.paths:
        pev = flat(p)
        calls = [ev for ev in pev if ev[0] == "call" and ev[2] == "repo:signing.sign_all_in_repodata"]
        for ev in calls:
            n += 1
            st = State(facts=p.facts)
            key = ev[3][1] if len(ev[3]) > 1 else None
            if key is None or not hexconj(st, key, 64):
                bad += 1
            idx = pev.index(ev)
            for e2 in pev[:idx]:
                if opens_for_writing(e2, ev[3][0]):
                    early += 1
    ctx.ob("R4", "cli-key-gate", site.loc(), "cli_sign_artifacts calls the signer %s" % ("only with a key that passed the 64-hex gate, and does not open the repodata file itself" if bad == 0 and early == 0 and n else "without the hex-key gate dominating the call, or after opening the target itself"), bad == 0 and early == 0 and n > 0)

    # ---- R4b: one command = one all-or-nothing write: a CLI handler calls an in-place signer at
    # most once on a path and never from inside a loop (a later call that fails would leave the
    # file as the earlier calls wrote it)
    from sa.extract import subparsers, subparsers_from_events

    subs = subparsers(prog)
    if not any(v.get("func") for v in subs.values()):
        subs = subparsers_from_events(eng) or subs
    callees = {"repo:" + q2 for q2 in SIGNERS}
    for name, sub in sorted(subs.items()):
        if not sub.get("func") or sub["func"] not in prog.funcs:
            continue
        if not (cg.cone([sub["func"]]) & set(SIGNERS)):
            continue
        smh = eng.walk(sub["func"])
        in_loop = multiple = 0
        for p in smh.paths:
            top = [ev for ev, _d in flatten_events(p.events) if ev[0] == "call" and ev[2] in callees]
            if len(top) > 1:
                multiple += 1
            for ev, _d in flatten_events(p.events):
                if ev[0] in ("loop", "while"):
                    bodies = ev[4] if ev[0] == "loop" else ev[2]
                    for bp in bodies:
                        if any(e2[0] == "call" and e2[2] in callees for e2 in all_events(bp[2])):
                            in_loop += 1
        ctx.count("R4.signing_commands")
        ctx.ob("R4", "one-write-per-command|%s" % sub["func"], fn_site(eng, smh).loc(), "%s %s" % (sub["func"], "calls the in-place signer once per invocation" if not (in_loop or multiple) else "calls an in-place signer %s: when a later call fails the file keeps what the earlier calls wrote" % ("inside a loop" if in_loop else "more than once")), not (in_loop or multiple))
    ctx.floor("R4.signing_commands", 2)


def show_ev(ev):
    if ev[0] == "call":
        return "%s(%s)%s" % (ev[2].split(":", 1)[-1], ", ".join(show(a)[:30] for a in ev[3][:2]), "" if ev[5][0] == "ok" else " [may raise %s]" % ev[5][1])
    if ev[0] == "store":
        return "store %s" % show(ev[2])[:60]
    if ev[0] == "raise":
        return "raise %s" % ev[2]
    return ev[0]
