"""C03 - root update accepted iff version+1 and signed per old and new root rules."""
from __future__ import annotations

from sa.terms import C, CallT, P, SubC, linear_cmp, show, show_fact
from sa.walker import State

from . import own_site, CHECKER, VSIG, checked_ok, call_events, flat, fn_site, loc, mentions

EXPLANATION = (
    "Walk of verify_root (all paths, callees through conditional summaries). On every accepting path: R1 both arguments "
    "passed the delegating-metadata checker; R2 both signed.type == 'root'; R3 the version gate in linear normal form is "
    "new.version - trusted.version - 1 == 0 (the other branch raises); R4 there are successful calls "
    "verify_signable(new, K, t, gpg=True) for (K, t) = the 'root' delegation's pubkeys/threshold read from the TRUSTED "
    "root and for the pair read from the NEW root, the first argument being the new-root parameter itself (access paths "
    "rooted at parameters, so temporaries/renaming do not matter). R5 ('iff'): every rejecting path is caused by the "
    "negation of one of R1-R4 or by the explicit missing-'root'-delegation guard; nothing else rejects."
)
RULE_TEXT = "obligations per accepting path x {checker, type, version, verify-old, verify-new} and per distinct rejection cause; all non-trivial (fact or event matching on symbolic paths)"


def run(ctx, deps=True):
    eng = ctx.eng
    ctx.assume("A1", "A3", "A8")
    # verify_root may delegate the signature checks to its public sibling verify_delegation: that
    # one is analysed in place, so that the verify_signable calls it makes are seen here
    fi_vr = eng.prog.func("authentication.verify_root")
    inline_vr = (eng.private_helpers(fi_vr.mod.short) - {fi_vr.qualname}) | ({"authentication.verify_delegation"} if "authentication.verify_delegation" in eng.prog.funcs else set())
    sm = eng.walk("authentication.verify_root", None, frozenset(inline_vr))
    T, U = P(sm.params[0]), P(sm.params[1])
    site = fn_site(eng, sm)
    rets = [p for p in sm.paths if p.kind == "return"]
    ctx.count("accepting_paths", len(rets))
    if not rets:
        ctx.ob("R4", "never-accepts", site.loc(), "verify_root has no accepting path", False)
    tv, uv = SubC(T, "signed", "version"), SubC(U, "signed", "version")
    want_ver = linear_cmp("==", ("binop", "-", uv, tv), C(1))
    pairs = {
        "trusted": (SubC(T, "signed", "delegations", "root", "pubkeys"), SubC(T, "signed", "delegations", "root", "threshold")),
        "new": (SubC(U, "signed", "delegations", "root", "pubkeys"), SubC(U, "signed", "delegations", "root", "threshold")),
    }
    agg = {}

    def note(key, ok, text, detail=None):
        cur = agg.setdefault(key, [True, text, detail, 0])
        cur[3] += 1
        if not ok and cur[0]:
            cur[0], cur[1], cur[2] = False, text, detail

    for p in rets:
        st = State(facts=p.facts)
        for who, X in (("trusted", T), ("new", U)):
            ok = checked_ok(st, CHECKER, X)
            note("R1|checker|" + who, ok, "accepting paths %s the delegating-metadata checker on the %s root" % ("all passed" if ok else "exist that did NOT pass", who))
            ok = st.holds(("eq", SubC(X, "signed", "type"), C("root")))
            note("R2|type|" + who, ok, "accepting paths %s signed.type == 'root' for the %s root" % ("all established" if ok else "exist without", who))
        vers = [f for f in p.facts if f[0] == "eq" and mentions(f, tv) and mentions(f, uv)]
        ok = any(linear_cmp("==", f[1], f[2]) == want_ver for f in vers)
        if not ok:
            # not (new - trusted < 1) and not (new - trusted > 1): both bounds together are the equality
            cmps = [linear_cmp(f[1], f[2], f[3]) for f in p.facts if f[0] == "cmp" and mentions(f, tv) and mentions(f, uv)]
            lo = linear_cmp("<=", C(1), ("binop", "-", uv, tv))  # 1 <= new - trusted
            hi = linear_cmp("<=", ("binop", "-", uv, tv), C(1))  # new - trusted <= 1
            ok = lo in cmps and hi in cmps
        related = [show_fact(f) for f in p.facts if f[0] in ("eq", "ne", "cmp") and mentions(f, tv) and mentions(f, uv)]
        note("R3|version", ok, "accepting paths %s new.version == trusted.version + 1" % ("all established" if ok else "exist that did not establish"), {"version comparisons on the path": related})
        calls = call_events(p, VSIG)
        # (terms are compared modulo what the path has established to equal a constant: a role
        # looked up under metadata['signed']['type'] after that was found to be 'root')
        from sa.terms import is_const, subst

        eqmap = {}
        for f in st.closure():
            if f[0] == "eq" and is_const(f[2]) and not is_const(f[1]) and f[1][0] in ("sub", "attr"):
                eqmap.setdefault(f[1], f[2])
            elif f[0] == "eq" and is_const(f[1]) and not is_const(f[2]) and f[2][0] in ("sub", "attr"):
                eqmap.setdefault(f[2], f[1])
            elif f[0] == "eq":
                # int(x) == x: the integer the checker hands back is the value itself
                for a, b in ((f[1], f[2]), (f[2], f[1])):
                    if isinstance(a, tuple) and len(a) == 4 and a[0] == "call" and a[1] == "builtin:int" and a[2] == (b,):
                        eqmap.setdefault(a, b)
        if eqmap:
            calls = [ev[:3] + (tuple(subst(a, eqmap) for a in ev[3]),) + ev[4:] for ev in calls]
        calls = calls + _virtual_vsig(eng, p, U, pairs, eqmap)
        for who, (K, th) in pairs.items():
            hit = [ev for ev in calls if len(ev[3]) >= 4 and ev[3][0] == U and ev[3][1] == K and ev[3][2] == th and ev[3][3] == C(True)]
            near = [("verify_signable(%s)" % ", ".join(show(a) for a in ev[3])) for ev in calls]
            note("R4|verify|" + who, bool(hit), "accepting paths %s a successful verify_signable(new root, %s root's 'root' pubkeys, its threshold, gpg=True)" % ("all contain" if hit else "exist WITHOUT", who), {"verify_signable calls on the path": near})
    for key, (ok, text, detail, n) in sorted(agg.items()):
        rule, rest = key.split("|", 1)
        ctx.count(rule + ".instances")
        ctx.ob(rule, rest, site.loc(), text + " (%d accepting paths)" % n, ok, detail if not ok else None)

    # ---- R5: rejections are exactly the negations
    seen = set()
    for p in sm.paths:
        if p.kind != "raise":
            continue
        x = p.value
        cause = _cause(eng, p, x, T, U, tv, uv, pairs)
        k = (cause or "other", x.exc, x.chain[0].key())
        if k in seen:
            continue
        seen.add(k)
        ctx.count("R5.rejection_causes")
        ctx.ob(
            "R5",
            "reject|%s|%s|%s" % k,
            loc(x.chain[0]),
            "rejection %s at %s %s" % (x.exc, x.chain[0].text[:60], "is the negation of: " + cause if cause else "is not caused by any clause of the update rule (the rule would reject more than specified): " + x.why),
            cause is not None,
        )
    ctx.floor("R1.instances", 2)
    ctx.floor("R4.instances", 2)

    # ---- what "signatures meet a key set and threshold" means is C01's rule set, re-evaluated here:
    # a root update is only as sound as the envelope verifier it calls
    if deps:
        from . import c01

        c01.run(ctx.sub("DEP-C01"))
        # ... and "both are well-formed root metadata" means what the delegating-metadata checker
        # decides: C14's schema rules, re-evaluated here
        from . import c14

        c14.run(ctx.sub("DEP-C14"), deps=False)


def _excludes_increment(f, tv, uv):
    """a comparison of the two versions that cannot hold when new == trusted + 1 (so a rejection
    guarded by it rejects no proper update)"""
    lf = linear_cmp("!=" if f[0] == "ne" else f[1], *(f[1:3] if f[0] == "ne" else f[2:4]))
    if lf is None:
        return False
    op, co, c = lf
    co = dict(co)
    if set(co) - {tv, uv}:
        return False
    cu, ct = co.get(uv, 0), co.get(tv, 0)
    if cu + ct != 0:
        return False  # depends on the version itself, not only on the gap
    val = cu + c  # value of the form at new = trusted + 1
    holds = {"==": val == 0, "!=": val != 0, "<": val < 0, "<=": val <= 0}[op]
    return not holds


def _cause(eng, p, x, T, U, tv, uv, pairs):
    from . import refuted_at_defaults

    if refuted_at_defaults(eng, "authentication.verify_root", (T[1], U[1]), set(p.facts) | set(x.conds)):
        return "an optional parameter outside the documented signature has a non-default value"
    top = x.chain[0]
    facts = set(p.facts) | set(x.conds)
    # (modulo what the path has established to equal a constant)
    from sa.terms import is_const, subst

    eqmap = {}
    for f in State(facts=facts).closure():
        if f[0] == "eq" and is_const(f[2]) and not is_const(f[1]) and f[1][0] in ("sub", "attr"):
            eqmap.setdefault(f[1], f[2])
        elif f[0] == "eq":
            for a, b in ((f[1], f[2]), (f[2], f[1])):
                if isinstance(a, tuple) and len(a) == 4 and a[0] == "call" and a[1] == "builtin:int" and a[2] == (b,):
                    eqmap.setdefault(a, b)
    for ev in flat(p):
        # int(x) handed to the verifier on a path on which the integrality check failed or has not
        # happened yet cannot be told from x by its value: compare the verifier's arguments modulo int()
        if ev[0] == "call" and ev[2] == VSIG:
            for a in ev[3]:
                if isinstance(a, tuple) and len(a) == 4 and a[0] == "call" and a[1] == "builtin:int" and len(a[2]) == 1:
                    eqmap.setdefault(a, a[2][0])
    if eqmap:
        facts = facts | {subst(f, eqmap) for f in facts if f[0] in ("has", "nothas", "ne", "eq")}
    st = State(facts=facts)
    dec = _vs_decomposition(eng)
    if dec is not None:
        params, steps = dec
        for ev in flat(p):
            if ev[0] == "call" and ev[5][0] == "raise" and (ev[1] == top or ev[1] in x.chain) and ev[2] in [c for c, _a, _k in steps]:
                step = [s_ for s_ in steps if s_[0] == ev[2]][0]
                for who, (K, th) in pairs.items():
                    mp = {P(params[0]): U, P(params[1]): K, P(params[2]): th, P(params[3]): C(True)}
                    if tuple(eng.expand(subst(a, eqmap)) for a in ev[3]) == tuple(eng.expand(subst(a, mp)) for a in step[1]):
                        return "signatures meet the %s root's keys/threshold (a step of verify_signable, called directly)" % who
    if x.origin == "explicit" and all(own_site(eng, st_, "authentication.verify_root") for st_ in x.chain):
        for X, who in ((T, "trusted"), (U, "new")):
            if ("ne", SubC(X, "signed", "type"), C("root")) in facts:
                return "%s root declares type root" % who
            if ("nothas", SubC(X, "signed", "delegations"), C("root")) in facts:
                return "%s root delegates 'root' (explicit guard)" % who
        tt, ut = SubC(T, "signed", "type"), SubC(U, "signed", "type")
        if ("ne", tt, ut) in facts or ("ne", ut, tt) in facts:
            return "both roots declare type root (the two declared types differ)"
        if any(f[0] in ("ne", "cmp") and mentions(f, tv) and mentions(f, uv) and _excludes_increment(f, tv, uv) for f in facts):
            return "new.version == trusted.version + 1"
        # a spelled-out "this argument is not a dictionary": such a value is not well-formed root
        # metadata (the checker refuses it with the same class a few lines further down)
        if eng.prog.exc_is_sub(x.exc, "TypeError"):
            for X, who in ((T, "trusted"), (U, "new")):
                if any(f[0] == "nottype" and f[1] in (X, SubC(X, "signed"), SubC(X, "signatures")) and "dict" in f[2] for f in facts):
                    return "well-formedness of the %s root (not a dictionary)" % who
        return None
    for ev in flat(p):
        if ev[0] == "call" and ev[5][0] == "raise" and (ev[1] == top or ev[1] in x.chain):
            if ev[2] == CHECKER and ev[3] and ev[3][0] in (T, U):
                return "well-formedness of the %s root" % ("trusted" if ev[3][0] == T else "new")
            if ev[2] == VSIG and len(ev[3]) >= 4 and ev[3][0] == U and ev[3][3] == C(True):
                for who, (K, th) in pairs.items():
                    if subst(ev[3][1], eqmap) == K and subst(ev[3][2], eqmap) == th:
                        return "signatures meet the %s root's keys/threshold" % who
    # an implicit error: explained iff some clause is not (yet) established on this path
    from . import cond_roots

    about = cond_roots(x)
    for X, who in ((T, "trusted"), (U, "new")):
        if not checked_ok(st, CHECKER, X) and (not about or X in about):
            return "well-formedness of the %s root (implicit error)" % who
    return None


def _vs_decomposition(eng):
    """verify_signable written as a composition of its own private helpers and the serializer -
    [(callee string, argument terms over its parameters)] in call order - when every completing
    path of it is exactly that sequence of calls (no loop, store or explicit raise of its own);
    None otherwise.  A caller that makes the same calls with the same arguments has verified."""
    cache = eng.__dict__.setdefault("_vs_decomp", {})
    if "v" in cache:
        return cache["v"]
    res = None
    try:
        fi = eng.prog.func("authentication.verify_signable")
        sm = eng.summary(fi, None, frozenset())
        rets = [p for p in sm.paths if p.kind == "return"]
        seqs = set()
        ok = bool(rets) and len(sm.params) >= 4
        for p in rets:
            steps = []
            for ev in p.events:
                if ev[0] == "call" and isinstance(ev[2], str) and ev[2].startswith("repo:") and ev[5][0] == "ok":
                    steps.append((ev[2], tuple(eng.expand(a) for a in ev[3]), tuple(ev[4])))
                elif ev[0] in ("loop", "store", "del", "mutcall", "write", "while", "caught", "print"):
                    ok = False
            seqs.add(tuple(steps))
        for p in sm.paths:
            if p.kind == "raise" and (p.value.origin == "explicit" and len(p.value.chain) == 1):
                ok = False  # a rejection of verify_signable's own: a caller of the parts would skip it
        if ok and len(seqs) == 1:
            steps = list(next(iter(seqs)))
            if len(steps) >= 2 and any(c != "repo:common.canonserialize" and c.startswith("repo:authentication._") for c, _a, _k in steps):
                res = (tuple(sm.params[:4]), steps)
    except Exception:
        res = None
    cache["v"] = res
    return res


def _virtual_vsig(eng, p, U, pairs, eqmap):
    """verify_signable calls that the path makes *in parts*: for every (keys, threshold) pair, all
    steps of the composition found on the path with the arguments verify_signable would have
    given them for (U, keys, threshold, gpg=True)  ->  list of synthetic call events"""
    from sa.terms import subst

    dec = _vs_decomposition(eng)
    if dec is None:
        return []
    params, steps = dec
    evs = [ev for ev in flat(p) if ev[0] == "call" and isinstance(ev[2], str) and ev[5][0] == "ok"]
    out = []
    for who, (K, th) in pairs.items():
        mp = {P(params[0]): U, P(params[1]): K, P(params[2]): th, P(params[3]): C(True)}
        found = []
        for callee, args, kwargs in steps:
            want = tuple(eng.expand(subst(a, mp)) for a in args)
            hit = [ev for ev in evs if ev[2] == callee and tuple(eng.expand(subst(a, eqmap)) for a in ev[3]) == want and not ev[4]]
            if not hit:
                break
            found.append(hit[0])
        else:
            out.append(("call", found[-1][1], VSIG, (U, K, th, C(True)), (), ("ok", None)))
    return out
