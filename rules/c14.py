"""C14 - the delegating-metadata checker enforces exactly the documented schema."""
from __future__ import annotations

from sa.terms import C, CallT, G, P, Sub, SubC, is_call, lit_const_values, show, show_fact
from sa.walker import State

from . import own_site, flat, fn_site
from .kinds import KINDS, function_decides
from .vs import envelope, forall_bodies

EXPLANATION = (
    "The schema is written down as an obligation table at primitive level (from the property statement, not from the code): "
    "two-field envelope; every value of 'signatures' a raw or OpenPGP entry; 'signed' has type, metadata_spec_version, "
    "delegations, expiration; type a str in the supported list (= ['root', 'key_mgr']); spec version a str; delegations a "
    "dict of str -> {exactly pubkeys, threshold; pubkeys a list of distinct 64-hex keys; threshold an integral number >= 1}; "
    "expiration parses with '%Y-%m-%dT%H:%M:%SZ'; timestamp or version present; root => version; each present => well formed. "
    "R1 (soundness): every accepting path of the checker establishes every row (facts reach the checker's path through the "
    "callee summaries, so helper names are irrelevant). R2 (completeness): every rejecting path is caused by the negation of "
    "a row - an explicit raise under the negated literal, a sub-validator failing on exactly the row's access path, or an "
    "implicit TypeError from probing a non-mapping 'signed' part. R3: each sub-validator decides exactly its row's grammar "
    "(accepting paths establish every conjunct, rejecting paths refute one)."
)
RULE_TEXT = "one obligation per schema row (soundness), per distinct rejection cause (completeness), per sub-validator x grammar; non-trivial = decided from facts on walked paths"

REQUIRED = ("type", "metadata_spec_version", "delegations", "expiration")
ROW_KIND = {"type": "str", "metadata_spec_version": "str", "delegations": "delegations", "expiration": "utc", "timestamp": "utc", "version": "natural"}
SUPPORTED = ["root", "key_mgr"]


def run(ctx, deps=True):
    eng, prog = ctx.eng, ctx.prog
    ctx.assume("A1", "A3", "exact value grammar of int(x) == x and strptime beyond the conjunct structure (see C15 and the residual list)")
    sm = eng.walk_whole("common.checkformat_delegating_metadata", parts=("signed",))
    site = fn_site(eng, sm)
    m = P(sm.params[0])
    s = SubC(m, "signed")
    sigs = SubC(m, "signatures")
    rets = [p for p in sm.paths if p.kind == "return"]
    ctx.count("accepting_paths", len(rets))
    rows = {}

    def row(name, ok, why=None):
        cur = rows.setdefault(name, [True, None])
        if not ok and cur[0]:
            cur[0], cur[1] = False, why

    sup_lit = eng.const_literal("common.SUPPORTED_DELEGATING_METADATA_TYPES")
    sup_vals = lit_const_values(sup_lit) if sup_lit is not None else None
    for p in rets:
        st = State(facts=p.facts)
        miss = envelope(st, m)
        row("envelope", not miss, "; ".join(miss))
        good = False
        for el, body in forall_bodies(st, sigs):
            st2 = State(facts=set(body) | st.facts)
            for f in body:
                if f[0] == "ok" and is_call(f[1]) and f[1][1].startswith("repo:") and f[1][2] == (Sub(sigs, el),):
                    q = f[1][1][5:].split("[")[0]
                    if function_decides(eng, q, "entry")[0]:
                        good = True
            if not KINDS["entry"][0](st2, Sub(sigs, el)):
                good = True
        row("signature-entries", good, "no validator deciding the raw/OpenPGP entry grammar is applied to every value of the signature map")
        for k in REQUIRED:
            row("required|" + k, st.holds(("has", s, C(k))), "'%s' in signed is not established" % k)
        for k in ("type", "metadata_spec_version", "delegations", "expiration"):
            ms = KINDS[ROW_KIND[k]][0](st, Sub(s, C(k)))
            row("wellformed|" + k, not ms, "; ".join(ms))
        ty = Sub(s, C("type"))
        in_sup = any(f[0] == "in" and f[1] == ty and (f[2] == G("const:common.SUPPORTED_DELEGATING_METADATA_TYPES") or lit_const_values(f[2]) == SUPPORTED) for f in st.closure()) or any(st.holds(("eq", ty, C(v))) for v in SUPPORTED)
        row("type-supported", in_sup and sup_vals == SUPPORTED, "type in %r is not established (supported list is %r)" % (SUPPORTED, sup_vals))
        has_ts, has_v = st.holds(("has", s, C("timestamp"))), st.holds(("has", s, C("version")))
        row("timestamp-or-version", has_ts or has_v, "neither 'timestamp' nor 'version' is established on an accepting path")
        row("root-needs-version", has_v or st.holds(("ne", ty, C("root"))), "an accepting path has neither 'version' present nor type != 'root'")
        for k in ("timestamp", "version"):
            present = st.holds(("has", s, C(k)))
            absent = st.holds(("nothas", s, C(k)))
            ms = KINDS[ROW_KIND[k]][0](st, Sub(s, C(k))) if not absent else []
            row("optional-wellformed|" + k, (present or absent) and not ms, "presence of '%s' undecided or value not checked: %s" % (k, "; ".join(ms)))
    if not rets:
        ctx.ob("R1", "never-accepts", site.loc(), "the checker has no accepting path", False)
    for name, (ok, why) in sorted(rows.items()):
        ctx.count("R1.rows")
        ctx.ob("R1", "row|%s" % name, site.loc(), "schema row '%s' %s" % (name, "is established on all %d accepting paths" % len(rets) if ok else "is NOT enforced: " + (why or "")), ok)
    ctx.floor("R1.rows", 15)

    # ---- R2 completeness: causes of rejection
    expected_args = {m: "envelope", Sub(s, C("type")): "str", Sub(s, C("metadata_spec_version")): "str", Sub(s, C("delegations")): "delegations", Sub(s, C("expiration")): "utc", Sub(s, C("timestamp")): "utc", Sub(s, C("version")): "natural"}
    seen = set()
    for p in sm.paths:
        if p.kind != "raise":
            continue
        x = p.value
        cause = _cause(eng, p, x, m, s, sigs, expected_args)
        k = (cause or "other", x.exc, x.chain[0].key())
        if k in seen:
            continue
        seen.add(k)
        ctx.count("R2.rejection_causes")
        ctx.ob("R2", "reject|%s|%s|%s" % k, x.chain[0].loc(), "rejection %s at %s %s" % (x.exc, x.chain[0].text[:60], "negates schema row: " + cause if cause else "is not the negation of any schema row (the checker rejects more than the schema): " + x.why), cause is not None)
    ctx.floor("R2.rejection_causes", 8)

    # ---- R3 sub-validators decide their rows
    used = {}
    type_calls = {}
    for p in sm.paths:
        for ev in flat(p):
            if ev[0] == "call" and ev[2].startswith("repo:") and ev[3]:
                a = ev[3][0]
                kind = expected_args.get(a)
                if kind:
                    used.setdefault((ev[2][5:].split("[")[0].split("<")[0], kind), ev[1])
                    if a == Sub(s, C("type")):
                        type_calls.setdefault(ev[2][5:].split("[")[0].split("<")[0], ev)
            if ev[0] == "loop":
                for bp in ev[4]:
                    for e2 in bp[2]:
                        if e2[0] == "call" and e2[2].startswith("repo:") and e2[3] and e2[3][0] == Sub(sigs, ev[3]):
                            used.setdefault((e2[2][5:].split("[")[0], "entry"), e2[1])
    for extra_q, kind in (("common.checkformat_delegation", "delegation"), ("common.checkformat_list_of_hex_keys", "keylist")):
        if extra_q in prog.funcs:
            used.setdefault((extra_q, kind), fn_site(eng, eng.walk(extra_q)))
    priv = eng.private_helpers("common")
    for (q, kind), st_ in sorted(used.items()):
        if q in priv:
            continue  # analysed in place as part of the checker
        if kind == "envelope":
            from .c15 import predicate_exact, raiser_exact

            smq = eng.summary(eng.prog.funcs[q], None)
            is_pred = any(p.kind == "return" and p.value == C(False) for p in smq.paths)
            ok, why = (predicate_exact if is_pred else raiser_exact)(eng, q, "envelope")
            detail = {"deviation": why}
        else:
            ok, detail = function_decides(eng, q, kind)
            if not ok and kind == "str" and q in type_calls:
                # a validator for "a string that is one of <permitted>" applied to the type field with
                # the supported-types list: it decides two schema rows at once (str, type-supported)
                ok2, detail2 = _decides_one_of(eng, q, type_calls[q])
                if ok2:
                    ok, detail = True, None
                elif isinstance(detail, dict):
                    detail = dict(detail, **{"as a one-of validator": detail2})
        ctx.count("R3.subvalidators")
        ctx.ob("R3", "decides|%s|%s" % (q, kind), st_.loc(), "%s %s the '%s' grammar" % (q, "decides exactly" if ok else "does NOT decide exactly", kind), ok, detail if not ok else None)
    ctx.floor("R3.subvalidators", 6)
    ctx.info["field_kinds"] = ROW_KIND
    # "the verifiers never run into an internal error on anything it accepts": the escape sets of
    # the validators and verifiers stay inside the documented families (C13's rule set)
    if deps:
        from . import c13

        c13.run(ctx.sub("DEP-C13"))


def _decides_one_of(eng, q, ev):
    """q(x, ..., permitted, ...) accepts exactly the strings that are members of `permitted`, and
    the call hands it the supported-types list for that parameter"""
    from sa.terms import G

    fi = eng.prog.funcs.get(q)
    if fi is None:
        return False, "function %s not found" % q
    callee = eng.callee_index.get(ev[2])
    order = list(callee[2]) if callee else fi.params()
    sup = G("const:common.SUPPORTED_DELEGATING_METADATA_TYPES")
    sup_lit = eng.const_literal("common.SUPPORTED_DELEGATING_METADATA_TYPES")
    pn = [order[i] for i, a in enumerate(ev[3]) if i < len(order) and i > 0 and (a == sup or (sup_lit is not None and lit_const_values(a) is not None and lit_const_values(a) == lit_const_values(sup_lit)))]
    if len(pn) != 1:
        return False, "the supported-types list is not one of its arguments"
    inline = frozenset(x for x, f in eng.prog.funcs.items() if f.mod.short == "common") - {q}
    actual = [a for i, a in enumerate(ev[3]) if i < len(order) and order[i] == pn[0]][0]
    smq = eng.summary(fi, None, inline, ((pn[0], actual),))
    x, perm = P(smq.params[0]), actual

    def same_collection(t):
        # list(permitted) / tuple(permitted) / set(permitted): the same members
        while is_call(t, ("builtin:list", "builtin:tuple", "builtin:set", "builtin:frozenset", "builtin:sorted")) and len(t[2]) == 1:
            t = t[2][0]
        if t == perm or t == sup_lit:
            return True
        return sup_lit is not None and lit_const_values(t) is not None and sorted(lit_const_values(t)) == sorted(lit_const_values(sup_lit))

    missing, refuted = KINDS["str"]
    n_acc = 0
    for p in smq.paths:
        facts = set(p.facts) | (set(p.value.conds) if p.kind == "raise" else set())
        if p.kind == "return":
            n_acc += 1
            if missing(State(facts=facts), x) or not any(f[0] == "in" and f[1] == x and same_collection(f[2]) for f in facts):
                return False, "an accepting path does not establish 'a str that is in %s'" % pn[0]
        elif not (refuted(facts, x) or any(f[0] == "notin" and f[1] == x and same_collection(f[2]) for f in facts)):
            return False, "rejects for another reason: %s at %s" % (p.value.exc, p.value.chain[-1].loc())
    return n_acc > 0, "no accepting path"


def _cause(eng, p, x, m, s, sigs, expected_args):
    from . import refuted_at_defaults

    if refuted_at_defaults(eng, "common.checkformat_delegating_metadata", (m[1],), set(p.facts) | set(x.conds)):
        return "an optional parameter outside the documented signature has a non-default value"
    facts = set(p.facts) | set(x.conds)
    top = x.chain[0]
    if x.origin == "explicit" and all(own_site(eng, st_, "common.checkformat_delegating_metadata") for st_ in x.chain):
        for k in REQUIRED:
            if ("nothas", s, C(k)) in facts:
                return "required field '%s'" % k
        ty = Sub(s, C("type"))
        if any(f[0] == "notin" and f[1] == ty for f in facts) or all(("ne", ty, C(v)) in facts for v in SUPPORTED):
            return "type is a supported type"
        if ("nothas", s, C("timestamp")) in facts and ("nothas", s, C("version")) in facts:
            return "timestamp or version present"
        if ("eq", ty, C("root")) in facts and ("nothas", s, C("version")) in facts:
            return "root metadata has a version"
        if len(x.chain) == 1:
            return None
    if x.origin == "assert":
        return None
    for ev in flat(p):
        if ev[0] == "loop-iter":
            continue
        if ev[0] == "call" and (ev[1] == top or ev[1] in x.chain) and ev[5][0] == "raise" and ev[3]:
            a = ev[3][0]
            if a in expected_args:
                return "%s (%s)" % (show(a), expected_args[a])
            if a[0] == "sub" and a[1] == sigs:
                return "signature entry grammar"
    # implicit errors of the checker's own probing of a non-mapping 'signed' part
    st = State(facts=p.facts)
    if all(own_site(eng, st_, "common.checkformat_delegating_metadata") for st_ in x.chain) and x.origin == "implicit" and x.exc == "TypeError" and not st.holds(("type", s, frozenset(["dict"]))):
        return "'signed' is a mapping (implicit TypeError while probing it)"
    return None
