"""C15 - leaf format validators decide exact grammars; one spelling per key."""
from __future__ import annotations

from sa.terms import C, CallT, Elem, P, Sub, is_call, show, show_fact
from sa.walker import State

from . import fn_site, refuted_at_defaults, validators
from .vs import forall_bodies

EXPLANATION = (
    "Each leaf validator is compared, path by path (callees of common.py inlined so that facts are at primitive level), "
    "with its specification written as a conjunction: hex string = {bytes.fromhex(s) succeeded, s.isalnum(), s.lower() == s}; "
    "key / signature / fingerprint add len(s) == 64 / 128 / 40; raw entry = {dict, 'signature' in e, hex-128 signature, "
    "len(e) == 1}; OpenPGP entry = {dict, key set one of {other_headers, signature}, {other_headers, see_also, signature}, hex "
    "other_headers, hex-128 signature, hex-40 see_also if present}; key list = {list, every element a hex key, "
    "len(set(l)) == len(l)}. Accepting paths must hold every conjunct; rejecting paths must carry the negation of a "
    "conjunct (nothing else rejects). R4: each predicate is_X returns True exactly on ok(checkformat_X(x)), False exactly "
    "from a handler that covers checkformat_X's whole escape set. Lemma (paper, A1): the three hex conjuncts hold iff s is "
    "a str in ([0-9a-f]{2})+ (fromhex accepts only ASCII hex digits and ASCII whitespace, in pairs; isalnum excludes "
    "whitespace; lower()==s excludes A-F), hence with the length exactly N lower-case hex digits - one spelling per byte string."
)
RULE_TEXT = "obligations: one per validator x {accepting paths hold all conjuncts, rejecting paths refute a conjunct}, per predicate/raiser pair; non-trivial = decided from primitive-level facts of inlined paths"


def hex_missing(st, t, n=None):
    out = []
    if not st.holds(("ok", CallT("ext:bytes.fromhex", [t]))):
        out.append("fromhex")
    if not st.holds(("truthy", CallT("method:isalnum", [t]))):
        out.append("isalnum")
    if not (st.holds(("eq", CallT("method:lower", [t]), t)) or st.holds(("eq", t, CallT("method:lower", [t])))):
        out.append("lower")
    if n is not None and not st.holds(("eq", CallT("builtin:len", [t]), C(n))):
        out.append("len==%d" % n)
    if out and _validated_by_exact_checker(st, t, n):
        return []
    if out:
        # not the literal conjunct list: decide the language of the string facts instead
        from . import hexlang

        sem = hexlang.hex_missing_semantic(hexlang.current(), st, t, n)
        if sem is not None:
            return sem
    return out


_EXACT_BUSY = set()


def _validated_by_exact_checker(st, t, n):
    """the path holds ok(checker(t)) / predicate(t) is True for a validator of the repository that
    is itself shown to accept exactly the lower-case hex strings (of n characters): the callee's
    accepting paths may each establish the grammar in their own way, which a merged summary
    cannot express - the callee's own exactness can"""
    from . import hexlang

    w = hexlang.current()
    if w is None:
        return False
    eng = w.eng
    for f in st.closure():
        call = None
        if f[0] == "ok" and is_call(f[1]) and f[1][1].startswith("repo:") and f[1][2] == (t,):
            call, kind = f[1], "raiser"
        elif f[0] == "ret" and f[2] is True and is_call(f[1]) and f[1][1].startswith("repo:") and f[1][2] == (t,):
            call, kind = f[1], "predicate"
        if call is None:
            continue
        q = call[1][5:].split("[")[0].split("<")[0]
        fi = eng.prog.funcs.get(q)
        if fi is None or fi.mod.short != "common" or len(fi.params()) < 1:
            continue
        for m in ([n] if n is not None else [None, 64, 128, 40]):
            key = (q, kind, m)
            if key in _EXACT_BUSY:
                continue
            cache = eng.__dict__.setdefault("_exact_hex", {})
            if key not in cache:
                _EXACT_BUSY.add(key)
                try:
                    cache[key] = (raiser_exact if kind == "raiser" else predicate_exact)(eng, q, "hex", m)[0]
                except Exception:
                    cache[key] = False
                finally:
                    _EXACT_BUSY.discard(key)
            if cache[key]:
                return True
    return False


def hex_refuted(facts, t, n=None):
    lo = CallT("method:lower", [t])
    ln = CallT("builtin:len", [t])
    for f in facts:
        k = f[0]
        if k == "notok" and f[1] == CallT("ext:bytes.fromhex", [t]):
            return True
        if k == "falsy" and f[1] == CallT("method:isalnum", [t]):
            return True
        if k == "ne" and {f[1], f[2]} == {lo, t}:
            return True
        if n is not None and k == "ne" and f[1] == ln and f[2] == C(n):
            return True
        if n is not None and k == "eq" and f[1] == ln and f[2] != C(n) and f[2][0] == "const":
            return True
        if k == "nottype" and f[1] == t:
            return True
        if k == "type" and f[1] == t and "str" not in f[2]:
            return True
    from . import hexlang

    return hexlang.hex_refuted_semantic(hexlang.current(), facts, t, n)


GPG_ALTS = frozenset([frozenset(["other_headers", "signature"]), frozenset(["other_headers", "see_also", "signature"])])


def raw_missing(st, e):
    out = []
    if not st.holds(("type", e, frozenset(["dict"]))):
        out.append("dict")
    if not st.holds(("has", e, C("signature"))):
        out.append("has signature")
    out += ["signature:" + m for m in hex_missing(st, Sub(e, C("signature")), 128)]
    if not st.holds(("eq", CallT("builtin:len", [e]), C(1))):
        out.append("len(e)==1")
    return out


def raw_refuted(facts, e):
    if any(f[0] == "nottype" and f[1] == e for f in facts) or ("nothas", e, C("signature")) in facts:
        return True
    if any(f[0] == "has" and f[1] == e and f[2] != C("signature") and f[2][0] == "const" for f in facts):
        return True  # an entry besides 'signature': the raw shape has exactly that one
    if hex_refuted(facts, Sub(e, C("signature")), 128):
        return True
    return any(f[0] == "ne" and f[1] == CallT("builtin:len", [e]) and f[2] == C(1) for f in facts)


def gpg_missing(st, e):
    out = []
    if not st.holds(("type", e, frozenset(["dict"]))):
        out.append("dict")
    ks = None
    for f in st.closure():
        if f[0] == "keys" and f[1] == e:
            ks = frozenset([f[2]])
        elif f[0] == "keysin" and f[1] == e:
            ks = f[2]
    if ks is None or not ks <= GPG_ALTS:
        out.append("key set")
    out += ["other_headers:" + m for m in hex_missing(st, Sub(e, C("other_headers")))]
    out += ["signature:" + m for m in hex_missing(st, Sub(e, C("signature")), 128)]
    may_have = ks is None or any("see_also" in a for a in ks)
    if may_have and not st.holds(("nothas", e, C("see_also"))):
        st2 = st
        if not st.holds(("has", e, C("see_also"))):
            # presence undecided on this (merged) path: the conditional postcondition must cover it
            st2 = State(facts=set(st.facts) | {("has", e, C("see_also"))})
        if hex_missing(st2, Sub(e, C("see_also")), 40):
            out.append("see_also fingerprint")
    return out


def gpg_refuted(facts, e):
    if any(f[0] == "nottype" and f[1] == e for f in facts):
        return True
    if any(f[0] in ("notkeysin", "notkeys") and f[1] == e for f in facts):
        return True
    if ("nothas", e, C("signature")) in facts or ("nothas", e, C("other_headers")) in facts:
        return True  # a required field is absent: the key set is none of the alternatives
    for f in facts:
        # sorted(keys) failed / keys of mixed types: the key set is none of the (all-str) alternatives
        if f[0] in ("notok", "mixed-elements") and _is_keys_of(f[1], e):
            return True
    if hex_refuted(facts, Sub(e, C("other_headers"))) or hex_refuted(facts, Sub(e, C("signature")), 128):
        return True
    if ("has", e, C("see_also")) in facts and hex_refuted(facts, Sub(e, C("see_also")), 40):
        return True
    return False


def _is_keys_of(t, e):
    while is_call(t, ("builtin:sorted", "builtin:list", "builtin:set", "builtin:tuple")) and t[2]:
        t = t[2][0]
    return (is_call(t, "method:keys") and t[2] and t[2][0] == e) or t == e


SPECS = {
    "common.checkformat_hex_string": ("hex", None),
    "common.checkformat_hex_key": ("hex", 64),
    "common.checkformat_gpg_fingerprint": ("hex", 40),
    "common.is_hex_signature": ("hexpred", 128),
    "common.checkformat_signature": ("raw|gpg", None),
    "common.checkformat_gpg_signature": ("gpg", None),
    "common.checkformat_any_signature": ("raw|gpg", None),
    "common.checkformat_list_of_hex_keys": ("keylist", None),
}
PAIRS = ["hex_string", "hex_key", "gpg_fingerprint", "gpg_signature", "signature", "signable"]


def run(ctx):
    eng, prog = ctx.eng, ctx.prog
    ctx.assume("A1", "A3", "Lemma: {fromhex ok, isalnum, lower()==s} <=> s in ([0-9a-f]{2})+ (CPython's documented bytes.fromhex / str.isalnum / str.lower)")
    inline = frozenset(q for q, f in prog.funcs.items() if f.mod.short == "common")
    for q, (kind, n) in SPECS.items():
        fi = prog.func(q)
        sm = eng.summary(fi, None, inline - {q})
        site = fn_site(eng, sm)
        x = P(sm.params[0])
        acc_bad, rej_bad = [], []
        n_acc = n_rej = 0
        for p in sm.paths:
            facts = set(p.facts)
            accepting = p.kind == "return" and not (kind == "hexpred" and p.value == C(False))
            if p.kind == "raise":
                facts |= set(p.value.conds)
            if refuted_at_defaults(eng, q, (sm.params[0],), facts):
                continue  # only with a non-default value of an optional parameter the grammar does not speak about
            facts = _str_is_identity(facts, x)
            st = State(facts=facts)
            if accepting:
                n_acc += 1
                miss = _missing(kind, st, x, n)
                if miss:
                    acc_bad.append(miss)
            else:
                n_rej += 1
                if not _refuted(kind, facts, st, x, n):
                    rej_bad.append((p.value.exc, p.value.chain[-1].loc(), p.value.why) if p.kind == "raise" else ("returns False", site.loc(), ""))
        ctx.count("R1.validators")
        ctx.ob("R1", "accept|%s" % q, site.loc(), "%s: %s" % (q, "all %d accepting paths establish every conjunct of its grammar" % n_acc if not acc_bad and n_acc else "an accepting path does not establish: " + ", ".join(sorted({m for ms in acc_bad for m in ms})) if n_acc else "has no accepting path"), not acc_bad and n_acc > 0)
        ctx.ob("R1", "reject|%s" % q, site.loc(), "%s: %s" % (q, "all %d rejecting paths carry the negation of a conjunct (it rejects nothing else)" % n_rej if not rej_bad else "rejects for a reason outside its grammar: " + "; ".join("%s at %s %s" % r for r in rej_bad[:3])), not rej_bad and n_rej > 0)
    ctx.floor("R1.validators", 8)

    # ---- R4 predicate / raiser pairs: both decide exactly the same grammar (hence agree on every
    # input), and the predicate never raises
    pair_kind = {"hex_string": ("hex", None), "hex_key": ("hex", 64), "gpg_fingerprint": ("hex", 40), "gpg_signature": ("gpg", None), "signature": ("raw|gpg", None), "signable": ("envelope", None)}
    for stem in PAIRS:
        pq, rq = "common.is_" + stem, "common.checkformat_" + stem
        prog.func(pq), prog.func(rq)
        kind, n = pair_kind[stem]
        p_ok, p_why = predicate_exact(eng, pq, kind, n)
        r_ok, r_why = raiser_exact(eng, rq, kind, n)
        esc = sorted({xx.exc for xx, _c in eng.walk(pq).escapes})
        ok = p_ok and r_ok and not esc
        site = fn_site(eng, eng.walk(pq))
        ctx.count("R4.pairs")
        ctx.ob(
            "R4",
            "pair|%s" % stem,
            site.loc(),
            "is_%s is True exactly on the values checkformat_%s accepts (both decide the '%s' grammar%s) and never raises" % (stem, stem, kind, "" if n is None else " with length %d" % n)
            if ok
            else "is_%s and checkformat_%s can disagree: %s" % (stem, stem, "; ".join(x for x in (("predicate: " + p_why) if not p_ok else "", ("raiser: " + r_why) if not r_ok else "", ("predicate may raise %s" % esc) if esc else "") if x)),
            ok,
        )
    ctx.floor("R4.pairs", 6)
    # ... and so does every other predicate of the module ("False for all other values": an is_x that
    # lets the checker's exception through does not answer)
    for q in sorted(q for q, f in prog.funcs.items() if f.mod.short == "common" and f.cls is None and f.parent is None and q.split(".")[-1].startswith("is_") and q.split(".")[-1][3:] not in PAIRS and (q in SPECS or "common.checkformat_" + q.split(".")[-1][3:] in prog.funcs)):
        # (the predicates that have a raising form, or a grammar of their own in this check; with
        # optional parameters added later at their defaults)
        smq = eng.walk(q)
        esc = sorted({xx.exc for xx, cc in smq.escapes if xx.origin != "resource" and not refuted_at_defaults(eng, q, (smq.params[0],), set(cc))})
        ctx.count("R4.other_predicates")
        ctx.ob("R4", "predicate-total|%s" % q, fn_site(eng, smq).loc(), "%s %s" % (q, "answers True or False for every value" if not esc else "may raise %s instead of answering False" % ", ".join(esc)), not esc)


def predicate_exact(eng, q, kind, n=None):
    """does the boolean predicate q return True exactly on values of the grammar `kind`?
    (True paths establish every conjunct; False / raising paths refute one)"""
    prog = eng.prog
    fi = prog.funcs.get(q)
    if fi is None:
        return False, "function %s not found" % q
    inline = frozenset(x for x, f in prog.funcs.items() if f.mod.short == "common") - {q}
    sm = eng.summary(fi, None, inline)
    x = P(sm.params[0])
    bad = []
    n_true = 0
    for p in sm.paths:
        facts = set(p.facts)
        if p.kind == "raise":
            facts |= set(p.value.conds)
        if refuted_at_defaults(eng, q, (sm.params[0],), facts):
            continue
        facts = _str_is_identity(facts, x)
        st = State(facts=facts)
        if p.kind == "return" and p.value == C(True):
            n_true += 1
            ms = _missing(kind, st, x, n)
            if ms:
                bad.append("a True path does not establish: " + ", ".join(ms))
        elif p.kind == "return" and p.value == C(False):
            if not _refuted(kind, facts, st, x, n):
                bad.append("a False path carries no negation of the grammar (well-formed values are turned away)")
        elif p.kind == "raise":
            if not _refuted(kind, facts, st, x, n):
                bad.append("raises %s outside the grammar" % p.value.exc)
        else:
            bad.append("returns a non-boolean")
    if n_true == 0:
        bad.append("never returns True")
    return (not bad, "; ".join(sorted(set(bad)))[:300])


def raiser_exact(eng, q, kind, n=None):
    """does the raising validator q return exactly on values of the grammar `kind`?"""
    prog = eng.prog
    fi = prog.funcs.get(q)
    if fi is None:
        return False, "function %s not found" % q
    inline = frozenset(x for x, f in prog.funcs.items() if f.mod.short == "common") - {q}
    sm = eng.summary(fi, None, inline)
    x = P(sm.params[0])
    bad = []
    n_acc = 0
    for p in sm.paths:
        facts = set(p.facts)
        if p.kind == "raise":
            facts |= set(p.value.conds)
        if refuted_at_defaults(eng, q, (sm.params[0],), facts):
            continue
        facts = _str_is_identity(facts, x)
        st = State(facts=facts)
        if p.kind == "return":
            n_acc += 1
            ms = _missing(kind, st, x, n)
            if ms:
                bad.append("an accepting path does not establish: " + ", ".join(ms))
        elif not _refuted(kind, facts, st, x, n):
            bad.append("rejects (%s) outside the grammar" % p.value.exc)
    if n_acc == 0:
        bad.append("never accepts")
    return (not bad, "; ".join(sorted(set(bad)))[:300])


def _str_is_identity(facts, x):
    """str(x) is x itself when x is a str: facts about the rendering are facts about the value"""
    from sa.terms import subst

    sx = CallT("builtin:str", [x])
    st0 = State(facts=set(facts))
    ts = st0.types(x)
    if ts is not None and ts <= {"str"} and any(_mentions_term(f, sx) for f in facts):
        return set(subst(f, {sx: x}) for f in facts)
    return facts


def _mentions_term(f, t):
    if f == t:
        return True
    if isinstance(f, (tuple, frozenset)):
        return any(_mentions_term(y, t) for y in f)
    return False


def _missing(kind, st, x, n):
    if kind in ("hex", "hexpred"):
        return hex_missing(st, x, n)
    if kind == "gpg":
        return gpg_missing(st, x)
    if kind == "raw|gpg":
        a, b = raw_missing(st, x), gpg_missing(st, x)
        return [] if (not a or not b) else ["neither raw (%s) nor OpenPGP (%s) shape" % (",".join(a), ",".join(b))]
    if kind == "keylist":
        from .kinds import keylist_missing

        return keylist_missing(st, x)
    if kind == "envelope":
        from .vs import envelope

        return envelope(st, x)
    return ["unknown spec"]


def _refuted(kind, facts, st, x, n):
    if kind in ("hex", "hexpred"):
        return hex_refuted(facts, x, n)
    if kind == "gpg":
        return gpg_refuted(facts, x)
    if kind == "raw|gpg":
        return raw_refuted(facts, x) and gpg_refuted(facts, x)
    if kind == "keylist":
        from .kinds import keylist_refuted

        return keylist_refuted(facts, x)
    if kind == "envelope":
        sigs, sgn = Sub(x, C("signatures")), Sub(x, C("signed"))
        from sa.walker import JSON_TYPES

        for f in facts:
            # (the failed type test must be the grammar's own: "not a dict" for the envelope and its
            # signature map, "none of the JSON types" for the payload - a narrower test, e.g. one
            # that leaves out bool, turns valid envelopes away)
            if f[0] == "nottype" and f[1] in (x, sigs) and "dict" in f[2]:
                return True
            if f[0] == "nottype" and f[1] == sgn and JSON_TYPES <= f[2]:
                return True
            if f[0] in ("notkeys", "notkeysin") and f[1] == x:
                return True
            if f[0] == "type" and f[1] == x and "dict" not in f[2]:
                return True
        return False
    return False


def _elems(f, x):
    out = []

    def go(t):
        if isinstance(t, tuple):
            if len(t) == 3 and t[0] == "elem" and t[1] == x:
                out.append(t)
            for y in t:
                go(y)
        elif isinstance(t, frozenset):
            for y in t:
                go(y)

    go(f)
    return out


def thorough(ctx):
    """the lemma behind the hex grammar, decided instead of assumed: the language of
    {bytes.fromhex(s) succeeds, s.isalnum(), s.lower() == s} is exactly ([0-9a-f]{2})+, with
    len(s) == n exactly [0-9a-f]{n}; and the automata of the string atoms agree with the
    interpreter's own functions on every word up to three characters over the exact partition of
    Unicode into character classes"""
    from sa import strlang as SL

    conj = [SL.L_fromhex(), SL.L_isalnum(), SL.L_lower_fixed()]
    a = SL.decide(conj, SL.L_hex(None))
    b = SL.decide([SL.L_hex(None)], ("and",) + tuple(conj))
    ctx.ob("R1", "lemma|hex-string", "sa/strlang.py", "{fromhex ok, isalnum, lower() == s} %s ([0-9a-f]{2})+ (automata over %d character classes of Unicode)" % ("is exactly" if a["included"] and b["included"] else "is NOT", a["classes"]), a["included"] and b["included"], {"witness": a["witness_outside"] or b["witness_outside"]})
    for n in (40, 64, 128):
        a = SL.decide(conj + [SL.L_len("==", n)], SL.L_hex(n))
        b = SL.decide([SL.L_hex(n)], ("and",) + tuple(conj + [SL.L_len("==", n)]))
        ctx.ob("R1", "lemma|hex-%d" % n, "sa/strlang.py", "with len(s) == %d the conjuncts %s [0-9a-f]{%d}" % (n, "decide exactly" if a["included"] and b["included"] else "do NOT decide", n), a["included"] and b["included"])
    words, bad, ncls = SL.validate_atoms(3)
    ctx.count("R1.atom_words", words)
    ctx.ob("R1", "atoms-agree-with-interpreter", "sa/strlang.py", "the automata of 15 string atoms agree with the interpreter on all %d words of up to 3 characters over %d character classes%s" % (words, ncls, "" if not bad else "; MISMATCH e.g. %r" % (bad[0],)), not bad)
