"""Per-property rules.  A rule module exposes EXPLANATION, RULE_TEXT, run(ctx) and
optionally thorough(ctx); rules only query the engine (sa/*), they never execute repo code.
"""
from __future__ import annotations

from sa import AnalysisError
from sa.walker import flatten_events

VERIFIERS = [
    "authentication.verify_root",
    "authentication.verify_delegation",
    "authentication.verify_signature",
    "authentication.verify_signable",
    "authentication.verify_gpg_signature",
]
PRIMITIVES = {"authentication.verify_signature", "authentication.verify_gpg_signature"}
FAMILY = ("TypeError", "ValueError", "CCT_Error")


def validators(prog):
    """the public validator family: module-level is_* / checkformat_* of common.py"""
    m = prog.by_short.get("common")
    if m is None:
        raise AnalysisError("module conda_content_trust/common.py not found (vanished anchor)")
    # (including validators whose bodies live in a private module that common re-exports: they are
    # known as common.<name>, see Program._canonicalise_reexports)
    return sorted(q for q, fi in prog.funcs.items() if q.startswith("common.") and q.count(".") == 1 and q.split(".")[1].startswith(("is_", "checkformat_")) and fi.parent is None and fi.cls is None and q == fi.qualname)


def in_family(prog, exc, extra=()):
    return any(prog.exc_is_sub(exc, f) for f in FAMILY + tuple(extra))


def events_of(path, kind=None):
    for ev, depth in flatten_events(path.events):
        if kind is None or ev[0] == kind:
            yield ev


def loc(site):
    return site.loc() if site is not None else "?"


def call_events(path, callee, outcome="ok"):
    """top-level call events of `path` to the given callee string with the given outcome"""
    out = []
    for ev, _d in flatten_events(path.events):
        if ev[0] == "call" and ev[2] == callee and (outcome is None or ev[5][0] == outcome):
            out.append(ev)
    return out


def flat(path):
    """all events of a path with inlined callees expanded in place"""
    return [ev for ev, _d in flatten_events(path.events)]


def mentions(f, t):
    if f == t:
        return True
    if isinstance(f, (tuple, frozenset)):
        return any(mentions(x, t) for x in f)
    return False


def fn_site(eng, sm):
    return eng.prog.site(sm.fi.mod, sm.fi.node, sm.fi.qualname)


CHECKER = "repo:common.checkformat_delegating_metadata"
VSIG = "repo:authentication.verify_signable"


def checked_ok(st, callee, x):
    """the path holds ok(callee(x)) - also when the callee has meanwhile got optional parameters,
    which the call term then carries at their (constant) defaults"""
    from sa.terms import CallT, is_call, is_const

    if st.holds(("ok", CallT(callee, [x]))):
        return True
    import ast as _ast

    from .hexlang import current

    w = current()
    fi = w.eng.prog.funcs.get(callee[5:]) if w is not None else None
    if fi is None:
        return False
    a = fi.node.args
    pos = a.posonlyargs + a.args
    dflt = {}
    for arg, d in zip(pos[len(pos) - len(a.defaults):], a.defaults):
        dflt[arg.arg] = d
    for arg, d in zip(a.kwonlyargs, a.kw_defaults):
        if d is not None:
            dflt[arg.arg] = d
    names = [x_.arg for x_ in pos] + [x_.arg for x_ in a.kwonlyargs]

    def is_default(name, term):
        d = dflt.get(name)
        return isinstance(d, _ast.Constant) and is_const(term) and term[2] == d.value and type(term[2]) is type(d.value)

    for f in st.closure():
        if f[0] == "ok" and is_call(f[1], callee) and f[1][2] and f[1][2][0] == x:
            extra_pos = f[1][2][1:]
            if all(i + 1 < len(names) and is_default(names[i + 1], t) for i, t in enumerate(extra_pos)) and all(is_default(n, v) for n, v in f[1][3]):
                return True
    return False


def checker_family(eng):
    """the delegating-metadata checker and the functions that decide the *contents* part of its
    schema for it: a function of the same module to which the checker hands envelope['signed'],
    as its only argument, on every accepting path (so: it fails on x => the checker fails on every
    envelope whose signed part is x).  Asking one of them about untrusted['signed'] is asking the
    checker about the signed part with the signature map left out."""
    fam = eng.__dict__.get("_checker_family")
    if fam is not None:
        return fam
    from sa.terms import P, SubC

    out = {CHECKER}
    sm = eng.walk_whole("common.checkformat_delegating_metadata", parts=("signed",))
    s = SubC(P(sm.params[0]), "signed")
    cands = None
    for p in sm.paths:
        if p.kind != "return":
            continue
        here = {ev[2] for ev in flat(p) if ev[0] == "call" and isinstance(ev[2], str) and ev[2].startswith("repo:common.") and ev[5][0] == "ok" and tuple(ev[3]) == (s,) and not ev[4]}
        cands = here if cands is None else cands & here
    for c in cands or ():
        if c[5:] in getattr(sm, "inlined_whole", ()):
            out.add(c)
    fam = tuple(sorted(out))
    eng.__dict__["_checker_family"] = fam
    return fam


def own_site(eng, site, anchor_qualname):
    """is this site inside the anchor function itself or one of the private helpers of its module
    (which are analysed as one unit with it)"""
    if site is None:
        return False
    if site.fn == anchor_qualname:
        return True
    fi = eng.prog.funcs.get(site.fn)
    # a nested function / lambda belongs to the function that contains it
    while fi is not None and fi.parent is not None:
        fi = fi.parent
    if fi is not None and fi.qualname == anchor_qualname:
        return True
    afi = eng.prog.funcs.get(anchor_qualname)
    if fi is not None:
        site = type(site)(site[0], site[1], site[2], fi.qualname, site[4])
    if fi is not None and fi.qualname in eng.__dict__.get("_whole", {}).get(anchor_qualname, ()):
        return True  # a function the anchor hands its whole argument to, analysed in place (Engine.walk_whole)
    return fi is not None and afi is not None and fi.mod.short == afi.mod.short and site.fn in eng.private_helpers(fi.mod.short)


def cond_roots(x):
    """parameters an exception's raise conditions talk about (empty set: unknown)"""
    out = set()

    def go(t):
        if isinstance(t, tuple):
            if len(t) == 2 and t[0] == "param":
                out.add(t)
                return
            for y in t:
                go(y)
        elif isinstance(t, frozenset):
            for y in t:
                go(y)

    for c in x.conds:
        go(c)
    return out


IMMUTABLE_ATOMS = frozenset(["str", "int", "float", "bool", "NoneType", "bytes"])


def structural_deep_copy(eng, callee):
    """is the repository function `callee` (a "repo:..." callee string) a hand-written deep copy
    of plain data: dicts, lists and tuples are rebuilt with every value copied by the function
    itself (recursively), anything else is returned as it is only when it is none of those"""
    from sa.terms import P, is_call
    from sa.walker import State

    hit = eng.callee_index.get(callee)
    if hit is None:
        return False
    fi = hit[0]
    if len(fi.params()) != 1:
        return False
    sm = eng.walk(fi.qualname)
    x = P(sm.params[0])
    me = "repo:" + fi.qualname

    def rec(t, arg_ok):
        return is_call(t) and t[1].split("<")[0].split("[")[0] == me and len(t[2]) == 1 and arg_ok(t[2][0])

    def elem_of_x(a):
        return isinstance(a, tuple) and a and a[0] == "elem" and a[1] in (x, ("call", "method:items", (x,), ()), ("call", "method:values", (x,), ()))

    n_ret = 0
    for p in sm.paths:
        if p.kind == "raise":
            if p.value.origin == "unknown-callable":
                continue  # the recursive call itself, not summarised
            return False
        n_ret += 1
        v = p.value
        st = State(facts=p.facts)
        if v == x:
            ts = st.types(x)
            if not (st.holds(("nottype", x, frozenset(["dict"]))) and st.holds(("nottype", x, frozenset(["list"]))) and st.holds(("nottype", x, frozenset(["tuple"])))) and not (ts is not None and ts <= IMMUTABLE_ATOMS):
                return False
            continue
        if isinstance(v, tuple) and len(v) == 5 and v[0] == "comp" and v[1] == "dict":
            kv = v[3]
            if not (isinstance(kv, tuple) and len(kv) == 4 and kv[0] == "lit" and kv[1] == "tuple" and len(kv[2]) == 2):
                return False
            k, val = kv[2]
            if not (elem_of_x(k) and rec(val, lambda a: a == ("sub", x, k))):
                return False
            continue
        if isinstance(v, tuple) and len(v) == 5 and v[0] == "comp" and v[1] == "list":
            if not rec(v[3], elem_of_x):
                return False
            continue
        if is_call(v, ("builtin:tuple", "builtin:list")) and len(v[2]) == 1 and isinstance(v[2][0], tuple) and len(v[2][0]) == 5 and v[2][0][0] == "comp":
            if not rec(v[2][0][3], elem_of_x):
                return False
            continue
        return False
    return n_ret > 0


def _rebuilt_with_copies(eng, v, x):
    """v is a dict / list / tuple built from x's items with every value passed through a
    structural deep copy function"""
    from sa.terms import is_call

    def copy_of(t, arg_ok):
        return is_call(t) and t[1].startswith("repo:") and len(t[2]) == 1 and arg_ok(t[2][0]) and structural_deep_copy(eng, t[1])

    def elem_of_x(a):
        return isinstance(a, tuple) and a and a[0] == "elem" and a[1] in (x, ("call", "method:items", (x,), ()), ("call", "method:values", (x,), ()))

    if isinstance(v, tuple) and len(v) == 5 and v[0] == "comp" and v[1] == "dict":
        kv = v[3]
        if isinstance(kv, tuple) and len(kv) == 4 and kv[0] == "lit" and kv[1] == "tuple" and len(kv[2]) == 2:
            k, val = kv[2]
            return elem_of_x(k) and copy_of(val, lambda a: a == ("sub", x, k))
        return False
    if isinstance(v, tuple) and len(v) == 5 and v[0] == "comp" and v[1] == "list":
        return copy_of(v[3], elem_of_x)
    if is_call(v, ("builtin:tuple", "builtin:list")) and len(v[2]) == 1 and isinstance(v[2][0], tuple) and len(v[2][0]) == 5 and v[2][0][0] == "comp":
        return copy_of(v[2][0][3], elem_of_x)
    return False


def payload_is_isolated(p, payload, obj, eng=None):
    """the wrapped payload cannot share mutable state with the argument: it is copy.deepcopy(obj),
    or it is obj itself on a path where obj's exact type is an immutable atom (for which deepcopy
    returns the same object anyway), or a hand-written structural deep copy of it"""
    from sa.terms import is_call
    from sa.walker import State

    if is_call(payload, "ext:copy.deepcopy") and payload[2] == (obj,):
        return True
    if eng is not None and is_call(payload) and payload[1].startswith("repo:") and payload[2] == (obj,) and structural_deep_copy(eng, payload[1]):
        return True
    if eng is not None and _rebuilt_with_copies(eng, payload, obj):
        return True  # (the copy function analysed in place: one level unfolded)
    if payload == obj:
        st = State(facts=p.facts)
        ts = st.types(obj)
        if ts is not None:
            for f in st.closure():
                if f[0] == "nottype" and f[1] == obj:
                    ts = ts - f[2]
        return ts is not None and ts <= IMMUTABLE_ATOMS
    return False


def refuted_at_defaults(eng, qualname, modelled, facts):
    """can this set of path facts only hold when an optional parameter that the property does not
    speak about (one added after the `modelled` leading parameters, with a constant default) is
    given a non-default value?  Then the path does not exist for callers that use the documented
    signature."""
    import ast as _ast

    from sa.terms import C, P, subst
    from sa.walker import State

    fi = eng.prog.funcs.get(qualname)
    if fi is None:
        return False
    a = fi.node.args
    pos = a.posonlyargs + a.args
    defaults = {}
    for arg, d in zip(pos[len(pos) - len(a.defaults):], a.defaults):
        defaults[arg.arg] = d
    for arg, d in zip(a.kwonlyargs, a.kw_defaults):
        if d is not None:
            defaults[arg.arg] = d
    mp = {}
    for name, d in defaults.items():
        if name in modelled:
            continue
        if isinstance(d, _ast.Constant):
            mp[P(name)] = C(d.value)
    if not mp:
        return False
    empty = State()
    for f in facts:
        g = subst(f, mp)
        if g is f or g == f:
            continue
        try:
            if empty.contradicts(g):
                return True
        except Exception:
            continue
        if g[0] in ("in", "notin") and g[1][0] == "const":
            from sa.terms import is_lit, lit_const_values

            vals = lit_const_values(g[2]) if is_lit(g[2]) else None
            if vals is not None:
                inside = any(type(v) is type(g[1][2]) and v == g[1][2] for v in vals)
                if (g[0] == "in") != inside:
                    return True
    return False


# callables that change process-wide interpreter / library configuration: what they set is read,
# implicitly, by code that looks like a function of its arguments (int <-> str conversion inside
# json.dumps, the decimal context, the locale, the warnings filter, the recursion limit, ...)
GLOBAL_SETTERS = (
    "sys.set_int_max_str_digits", "sys.setrecursionlimit", "sys.setswitchinterval", "sys.setprofile", "sys.settrace", "sys.setdlopenflags",
    "locale.setlocale", "os.putenv", "os.unsetenv", "os.chdir", "os.umask", "os.environ.update", "os.environ.setdefault", "os.environ.pop", "os.environ.clear",
    "warnings.simplefilter", "warnings.filterwarnings", "warnings.resetwarnings", "logging.basicConfig", "logging.disable",
    "decimal.setcontext", "random.seed", "socket.setdefaulttimeout", "gc.disable", "gc.set_threshold", "faulthandler.enable", "codecs.register", "codecs.register_error",
    "copyreg.pickle", "atexit.register", "signal.signal", "time.tzset",
)


def interpreter_reconfigurations(eng):
    """(site text, file:line, what) for every place in the package - module level or inside a
    function - that calls one of GLOBAL_SETTERS or assigns to / deletes an attribute or item of an
    imported external module (json.encoder.FLOAT_REPR = ..., os.environ["X"] = ..., sys.stdout = ...)"""
    import ast

    from sa.model import dotted_chain

    out = []
    for short, mod in sorted(eng.prog.modules.items()):
        for node in ast.walk(mod.tree):
            if isinstance(node, ast.Call):
                chain = dotted_chain(node.func)
                if chain and chain[0] in mod.imports:
                    r, rest = eng.prog.resolve_dotted(mod, chain)
                    if r[0] == "ext":
                        full = ".".join([r[1]] + list(rest))
                        if full in GLOBAL_SETTERS:
                            out.append((ast.unparse(node)[:80], "%s:%d" % (mod.relpath, node.lineno), "calls " + full))
            targets = []
            if isinstance(node, (ast.Assign, ast.Delete)):
                targets = list(node.targets)
            elif isinstance(node, (ast.AugAssign, ast.AnnAssign)) and getattr(node, "value", None) is not None:
                targets = [node.target]
            for t in targets:
                base = t
                while isinstance(base, (ast.Attribute, ast.Subscript)):
                    base = base.value
                if base is t or not isinstance(base, ast.Name) or base.id not in mod.imports:
                    continue
                chain = dotted_chain(t.value if isinstance(t, ast.Subscript) else t)
                r = eng.prog.resolve_dotted(mod, chain)[0] if chain else ("?",)
                if r[0] == "ext":
                    out.append((ast.unparse(node)[:80], "%s:%d" % (mod.relpath, node.lineno), "rebinds/changes " + ast.unparse(t)[:60]))
    return out
