"""C12 - verification is pure: no argument mutation, no state carried across calls."""
from __future__ import annotations

import ast

import os

from sa import AnalysisError
from sa.effects import DECORATOR_WHITELIST, Effects, decorators, module_mutables, mutable_defaults, name_uses, summary_events
from sa.engine import Engine
from sa.report import VERIF
from sa.terms import P, is_call, is_lit, C, show

from . import payload_is_isolated, VERIFIERS, fn_site, validators

EXPLANATION = (
    "Effect analysis over the walker's events. R1: the interprocedural write set on parameters (subscript/attribute "
    "stores, del, mutating method calls, closed over resolved repo calls and a table of mutating externals) is empty for "
    "all 29 validators/verifiers, the serializer, serialize_and_sign, wrap_as_signable and the key helper class methods. "
    "R2: no function of the library modules writes a module/class/function attribute, a module constant or a global name, "
    "and every use of a module-level mutable constant is a read. R3: no caching construct (decorator whitelist, no "
    "mutable default argument). R4: no ambient read (clock, environment, randomness, locale, filesystem, stdin) is "
    "reachable from a validator/verifier. R5: every dotted module chain evaluated in the library modules is in the static "
    "import closure of its own module. R6: text printed by validators/verifiers is ASCII-safe. R7: wrap_as_signable returns "
    "a fresh two-field dict whose payload is copy.deepcopy of its argument. Zero-count rules are exercised on a fixture "
    "module on every run (each detector must fire there)."
)
RULE_TEXT = "one obligation per analysed function x effect kind, per module constant use, per decorator/default, per module chain, per print sink; distinct non-trivial = obligations decided from events of walked paths"

LIB = ("authentication", "common", "signing", "metadata_construction", "root_signing")
CORE = ("authentication", "common", "signing")


def pure_anchors(prog):
    out = [(q, None) for q in validators(prog) + VERIFIERS]
    for q in ("common.canonserialize", "signing.serialize_and_sign", "signing.wrap_as_signable"):
        prog.func(q)
        out.append((q, None))
    return out


def run(ctx, only=None):
    eng, prog = ctx.eng, ctx.prog
    ctx.assume("A1", "A3", "A8")
    fx = Effects(eng)
    anchors = pure_anchors(prog)
    # key helper class methods under each concrete binding
    for q, fi in sorted(prog.funcs.items()):
        if fi.mod.short == "common" and fi.cls and fi.cls != "BytesLike":
            for b in fx.bindings(fi):
                try:
                    eng.summary(fi, b)
                    anchors.append((q, b))
                except AnalysisError:
                    if b is not None:
                        raise

    # ---- R1 parameter write sets
    for q, b in anchors:
        fi = prog.func(q)
        pw = fx.param_writes(fi, b)
        ctx.count("R1.functions")
        label = q + ("[%s]" % b.split(".")[-1] if b else "")
        if not pw:
            ctx.ob("R1", "no-param-write|%s" % label, fn_site(eng, eng.summary(fi, b)).loc(), "%s writes none of its parameters (own stores and all resolved callees)" % label, True)
        for pname, steps, kind, site, via in sorted(pw, key=lambda x: (x[0], str(x[1]), x[3])):
            path = pname + "".join("[%s]" % show(s[1]) if s[0] == "sub" else "." + str(s[1]) for s in steps)
            ctx.ob("R1", "param-write|%s|%s|%s" % (label, path, site.key()), site.loc(), "%s modifies its argument: %s of %s%s" % (label, kind, path, " (through %s at %s)" % (via[0], via[1].loc()) if via else ""), False)
    ctx.floor("R1.functions", 32)

    # ---- R2 module-level state
    walked = []
    for q, fi in sorted(prog.funcs.items()):
        if fi.mod.short not in LIB or fi.parent is not None or (fi.cls == "BytesLike"):
            continue
        for b in fx.bindings(fi):
            walked.append((fi, b))
    for fi, b in walked:
        gws = fx.global_writes(fi, b)
        ctx.count("R2.functions")
        for tgt, kind, site in gws:
            ctx.ob("R2", "global-write|%s|%s" % (fi.qualname, site.key()), site.loc(), "%s writes module-level state: %s %s" % (fi.qualname, kind, tgt), False)
    if not ctx.failed("R2"):
        ctx.ob("R2", "no-global-write", "library modules", "none of the %d library functions writes a module, class or function attribute, a module constant or a global name" % len(walked), True)
    for m, name, site, kind in module_mutables(prog, LIB):
        uses = name_uses(prog, m.short, name)
        # a one-shot iterator is changed by every use that is not a plain membership-free read
        bad = [(um, n) for um, n, c in uses if c == "mutated" or kind.startswith("one-shot iterator")]
        ctx.count("R2.mutable_constants")
        ctx.ob("R2", "mutable-constant|%s.%s" % (m.short, name), site.loc(), "module-level %s %s.%s has %d uses, %s" % (kind, m.short, name, len(uses), "all reads" if not bad else "%d of them mutate it (e.g. %s:%d)" % (len(bad), bad[0][0].relpath, bad[0][1].lineno)), not bad)

    # ---- R3 caching constructs
    for obj, txt, dotted in decorators(prog, LIB):
        ok = txt in DECORATOR_WHITELIST or (dotted or "") in DECORATOR_WHITELIST
        why_not = "is not in the stateless whitelist (a cache would carry verdicts across calls)"
        if not ok:
            from sa.effects import repo_decorator_is_stateless

            for dnode in obj.node.decorator_list:
                tnode = dnode.func if isinstance(dnode, ast.Call) else dnode
                if ast.unparse(tnode) == txt:
                    res = repo_decorator_is_stateless(prog, obj.mod, dnode)
                    if res is not None:
                        ok = res[0]
                        why_not = "is defined in the library and keeps state between calls: " + res[1]
        s = prog.site(obj.mod, obj.node, obj.qualname)
        ctx.count("R3.decorators")
        ctx.ob("R3", "decorator|%s|%s" % (obj.qualname, txt), s.loc(), "decorator @%s on %s %s" % (txt, obj.qualname, "keeps no state" if ok else why_not), ok)
    for fi, site in mutable_defaults(prog, LIB):
        ctx.ob("R3", "mutable-default|%s|%s" % (fi.qualname, site.text), site.loc(), "%s has a mutable default argument (%s): state shared across calls" % (fi.qualname, site.text), False)
    from sa.effects import shared_class_attributes

    for cname, attr, site_m, text in shared_class_attributes(prog, LIB):
        ctx.ob("R3", "shared-class-attribute|%s.%s|%s" % (cname, attr, text), site_m.loc(), "%s.%s is a mutable object created once in the class body and changed in place (%s) without __init__ giving each instance its own: state shared by all calls and threads" % (cname, attr, text), False)
    ctx.ob("R3", "scan", "library modules", "decorators and default arguments of %d library functions scanned" % len([1 for q, f in prog.funcs.items() if f.mod.short in LIB]), True, nontrivial=False)

    # ---- R4 ambient reads from validators / verifiers
    for q, b in pure_anchors(prog):
        fi = prog.func(q)
        amb = fx.ambient(fi, b)
        ctx.count("R4.functions")
        for what, site, via in amb:
            ctx.ob("R4", "ambient|%s|%s|%s" % (q, what, site.key()), site.loc(), "%s reads ambient state (%s) via %s: its verdict is not a function of its arguments alone" % (q, what.split(":", 1)[-1], " -> ".join(via)), False)
    if not ctx.failed("R4"):
        ctx.ob("R4", "no-ambient", "validators/verifiers", "no clock, environment, randomness, locale, filesystem or stdin read is reachable from the %d pure anchors" % len(pure_anchors(prog)), True)

    # the file helpers read the file system by design, but nothing else of the environment: what
    # they load must not depend on locale, environment variables, clock or randomness
    for q in ("common.load_metadata_from_file", "common.write_metadata_to_file", "common.keyfiles_to_bytes", "common.keyfiles_to_keys"):
        if q not in prog.funcs:
            continue
        fi = prog.func(q)
        for what, site, via in fx.ambient(fi, None):
            if what in ("builtin:open",) or what.startswith("ext:os.path") or what.startswith("ext:os.stat"):
                continue
            ctx.ob("R4", "ambient|%s|%s|%s" % (q, what, site.key()), site.loc(), "%s depends on ambient state other than the named file (%s) via %s: the value loaded, hence every verdict on it, varies with the process environment" % (q, what.split(":", 1)[-1], " -> ".join(via)), False)
        ctx.count("R4.file_helpers")

    # ---- R5 import closure
    chains = {}
    for fi, b in walked:
        if fi.mod.short not in CORE:
            continue
        for ev in summary_events(eng.summary(fi, b)):
            if ev[0] == "attrchain":
                chains.setdefault((ev[1].key(), ".".join(ev[2])), (ev[1], ev[4]))
    for (k, chain), (site, missing) in sorted(chains.items()):
        ctx.count("R5.chains")
        ctx.ob("R5", "chain|%s" % k, site.loc(), "module chain %s %s" % (chain, "resolves inside the static import closure of its module" if missing is None else "uses submodule %s, which is neither imported nor in the static import closure: AttributeError unless something else imported it" % missing), missing is None)
    ctx.floor("R5.chains", 3)

    # ---- R6 stdout taint
    from .c02 import _print_sinks

    sub = ctx.sub("R6") if hasattr(ctx, "sub") else ctx
    _print_sinks(sub)

    wrap_isolation(ctx, "R7")

    # ---- fixtures: every zero-count detector must fire on the positive examples
    _fixtures(ctx)


def _fixtures(ctx):
    root = os.path.join(VERIF, "fixtures", "purity")
    feng = Engine(root)
    fx = Effects(feng)
    prog = feng.prog
    need = {
        "direct param write": bool(fx.param_writes(prog.func("fix.writes_param_directly"))),
        "interprocedural param write": bool(fx.param_writes(prog.func("fix.writes_param_through_callee"))),
        "mutating method on param": bool(fx.param_writes(prog.func("fix.sorts_param_in_place"))),
        "module cache write": bool(fx.global_writes(prog.func("fix.writes_module_cache"))),
        "global name write": bool(fx.global_writes(prog.func("fix.writes_global_name"))),
        "function attribute store": bool(fx.global_writes(prog.func("fix.function_attribute_cache"))),
        "caching decorator": any(txt not in DECORATOR_WHITELIST and (d or "") not in DECORATOR_WHITELIST for _o, txt, d in decorators(prog, ("fix",))),
        "mutable default": bool(mutable_defaults(prog, ("fix",))),
        "ambient read": len(fx.ambient(prog.func("fix.reads_environment"))) >= 2,
        "mutated module constant": any(c == "mutated" for _m, name, _s, _k in module_mutables(prog, ("fix",)) for _um, _n, c in name_uses(prog, "fix", name)),
    }
    missing = [k for k, v in need.items() if not v]
    if missing:
        raise AnalysisError("C12 fixture self-check failed: detector(s) did not fire on the positive examples: " + ", ".join(missing))
    ctx.info["fixture_detectors_fired"] = sorted(need)
    ctx.count("fixtures.detectors", len(need))


def wrap_isolation(ctx, rule):
    """wrap_as_signable returns a fresh two-field dict whose payload shares no mutable state with
    its argument"""
    eng = ctx.eng
    # ---- R7 deep copy on wrapping
    sm = eng.walk("signing.wrap_as_signable")
    obj = P(sm.params[0])
    rets = [p for p in sm.paths if p.kind == "return"]
    ok = bool(rets)
    why = ""
    for p in rets:
        v = p.value
        if not (is_lit(v, "dict") and {k for k, _v in v[2]} == {C("signatures"), C("signed")}):
            ok, why = False, "returns %s, not a fresh two-field dict" % show(v)[:80]
            break
        d = dict(v[2])
        if not payload_is_isolated(p, d[C("signed")], obj, eng):
            ok, why = False, "payload is %s, not copy.deepcopy(argument): later changes to either side affect the other" % show(d[C("signed")])[:80]
            break
        if not (is_lit(d[C("signatures")], "dict") and len(d[C("signatures")][2]) == 0):
            ok, why = False, "signatures is not a fresh empty dict"
            break
    ctx.ob(rule, "wrap-deepcopy", fn_site(eng, sm).loc(), "wrap_as_signable " + ("returns {'signatures': {}, 'signed': deepcopy(obj)} on every path" if ok else why), ok)
