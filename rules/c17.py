"""C17 - CLI exit status reflects the library's verdict."""
from __future__ import annotations

import os

from sa.callgraph import CallGraph
from sa.extract import exit_flows, subparsers
from sa.terms import C, P, SubC, is_call, is_const, show
from sa.walker import State, flatten_events

from . import flat, fn_site

EXPLANATION = (
    "R1: every path of the verify-metadata handler that returns a value which may be falsy/0 contains a successful call "
    "of verify_root(T, U) under U.signed.type == 'root', or of verify_delegation(U.signed.type, U, T) otherwise, where "
    "T / U are load_metadata_from_file of the first / second positional argument of the verify-metadata sub-parser (order "
    "read from build_parser); every other return value is a non-zero integer constant; no path falls off the end. "
    "R2: cli() returns args.func(args) unchanged and build_parser registers the handlers by set_defaults(func=...). "
    "R3: for each entry point ([project.scripts] target, the __main__ block of cli.py, the package's __main__.py) the value "
    "of the cli() call flows into sys.exit / SystemExit. R4: each signing handler (a registered handler whose call-graph cone "
    "contains an in-place signer) returns a possibly-falsy value only after that signer returned normally."
)
RULE_TEXT = "obligations: one per return path class of each handler, per entry point, per registry entry; non-trivial = decided from call events / facts on walked paths or from resolved statement dataflow"

SIGNERS = ("signing.sign_all_in_repodata", "root_signing.sign_root_metadata_via_gpg")


def maybe_falsy(v):
    if is_const(v):
        return not v[2]
    return True  # unknown value: could be 0 / None


def nonzero_int(v):
    return is_const(v) and isinstance(v[2], int) and not isinstance(v[2], bool) and v[2] != 0


def run(ctx):
    eng, prog = ctx.eng, ctx.prog
    ctx.assume("A1", "A7", "A8")
    subs = subparsers(prog)
    if not (subs.get("verify-metadata") and subs["verify-metadata"]["func"] and len(subs["verify-metadata"]["positionals"]) >= 2):
        # the registration is not written out call by call (a table, a generator, a helper drive
        # it): read it from the walked builder instead
        from sa.extract import subparsers_from_events

        subs = subparsers_from_events(eng) or subs
    ctx.info["subcommands"] = {k: {"positionals": v["positionals"], "func": v["func"]} for k, v in subs.items()}
    vm = subs.get("verify-metadata")
    site_bp = fn_site(eng, eng.walk("cli.cli"))
    if vm is None or vm["func"] is None or len(vm["positionals"]) < 2:
        ctx.ob("R1", "verify-metadata-registered", site_bp.loc(), "the verify-metadata sub-command (two positional files, handler via set_defaults) was not found in build_parser", False)
        return
    handler = prog.func(vm["func"])
    sm = eng.summary(handler)
    site = fn_site(eng, sm)
    args = P(sm.params[0])
    first, second = vm["positionals"][:2]
    Tm = eng.expand(eng.repo_call("common.load_metadata_from_file", ("attr", args, first)))
    Um = eng.expand(eng.repo_call("common.load_metadata_from_file", ("attr", args, second)))
    uty = SubC(Um, "signed", "type")

    # ---- R1
    classes = {}
    for p in sm.paths:
        if p.kind != "return":
            continue
        v = p.value
        st = State(facts=p.facts)
        if not maybe_falsy(v):
            ok = nonzero_int(v)
            k = ("failure-status", show(v))
            text = "failure paths return the non-zero integer %s" % show(v) if ok else "a failure path returns %s, which is not a non-zero integer constant" % show(v)
            # ... and only when the library rejected: the verifier for the declared type was called
            # with these two files and raised (a handler that is stricter than the library - extra
            # validation of its own - turns acceptable files away)
            rejected = [ev for ev in flat(p) if ev[0] == "call" and ev[2] in ("repo:authentication.verify_root", "repo:authentication.verify_delegation") and ev[5][0] == "raise"]
            if ok and not rejected and _library_would_reject(eng, st, Tm, Um, uty):
                rejected = ["(the verifier for the declared type has no accepting path under what this path established)"]
            if ok and not rejected:
                ok = False
                k = ("failure-without-library-rejection", show(v))
                text = "a path returns the failure status %s although neither verify_root nor verify_delegation rejected the files: the command is stricter than the library" % show(v)
        else:
            root_ok = [ev for ev in flat(p) if ev[0] == "call" and ev[2] == "repo:authentication.verify_root" and ev[5][0] == "ok" and tuple(eng.expand(a) for a in ev[3][:2]) == (Tm, Um)]
            del_ok = [ev for ev in flat(p) if ev[0] == "call" and ev[2] == "repo:authentication.verify_delegation" and ev[5][0] == "ok" and len(ev[3]) >= 3 and eng.expand(ev[3][0]) == uty and eng.expand(ev[3][1]) == Um and eng.expand(ev[3][2]) == Tm]
            is_root = st.holds(("eq", uty, C("root")))
            not_root = st.holds(("ne", uty, C("root")))
            ok = (bool(root_ok) and is_root) or (bool(del_ok) and not_root)
            anyv = [ev for ev in flat(p) if ev[0] == "call" and ev[2] in ("repo:authentication.verify_root", "repo:authentication.verify_delegation")]
            k = ("success-status", show(v), "ok" if ok else "|".join("%s(%s)->%s" % (ev[2].split(".")[-1], ",".join(show(a)[:40] for a in ev[3][:3]), ev[5][0]) for ev in anyv) or "no-verifier-call")
            text = (
                "paths returning %s (exit status 0) all follow a successful verify_root(trusted, untrusted) for declared type root / verify_delegation(declared type, untrusted, trusted) otherwise" % show(v)
                if ok
                else "a path returns %s (exit status 0) without the library having accepted the second file on the basis of the first (declared-type dispatch, file binding or verdict is wrong): %s" % (show(v), k[2])
            )
        cur = classes.setdefault(k, [ok, text, 0])
        cur[2] += 1
    # "... if and only if the library accepts": once the verifier has accepted, nothing may turn the
    # command into a failure - an exception escaping the handler after a successful verification
    # ends the process with a traceback and status 1
    for p in sm.paths:
        if p.kind != "raise":
            continue
        acc = [ev for ev in flat(p) if ev[0] == "call" and ev[2] in ("repo:authentication.verify_root", "repo:authentication.verify_delegation") and ev[5][0] == "ok"]
        if not acc:
            continue
        x = p.value
        k = ("raises-after-acceptance", x.exc, x.chain[-1].key())
        cur = classes.setdefault(k, [False, "%s (%s) can escape the handler at %s after the library has accepted the files: the command prints success and exits with a traceback and status 1" % (x.exc, x.why[:70], x.chain[-1].text[:60]), 0])
        cur[2] += 1
    for k, (ok, text, n) in sorted(classes.items()):
        ctx.count("R1.return_classes")
        ctx.ob("R1", "%s|%s" % (k[0], "|".join(k[1:])), site.loc(), "%s (%d paths)" % (text, n), ok)
    ctx.floor("R1.return_classes", 2)
    succ = [k for k in classes if k[0] == "success-status" and classes[k][0]]
    if not succ:
        ctx.ob("R1", "never-succeeds", site.loc(), "the verify-metadata handler has no path that reports success after a successful verification", False)

    # ---- R2
    smc = eng.walk("cli.cli")
    okc = True
    for p in smc.paths:
        if p.kind == "return":
            v = p.value
            if is_call(v, "dynamic") and len(v[2]) == 2 and v[2][0] == ("attr", v[2][1], "func"):
                continue
            # a non-zero constant instead, on a path on which the handler did not return (its call
            # raised and the exception was dealt with here): a failure status for a failed command
            handler_calls = [ev for ev in flat(p) if ev[0] == "call" and ev[2] == "dynamic" and ev[3] and isinstance(ev[3][0], tuple) and ev[3][0][:1] == ("attr",) and ev[3][0][2:] == ("func",)]
            if is_const(v) and isinstance(v[2], int) and not isinstance(v[2], bool) and v[2] != 0 and handler_calls and all(ev[5][0] == "raise" for ev in handler_calls):
                continue
            okc = False
    ctx.ob("R2", "cli-returns-handler-result", fn_site(eng, smc).loc(), "cli() %s" % ("returns args.func(args) unchanged on every path" if okc else "does not return the handler's result unchanged"), okc)
    for name, sub in sorted(subs.items()):
        ctx.count("R2.registry")
        ctx.ob("R2", "registered|%s" % name, sub["site"].loc(), "sub-command %s dispatches to %s" % (name, sub["func"] or "nothing (no set_defaults(func=...))"), sub["func"] is not None)

    # ---- R5 no explicit exit with a zero status from the dispatcher or a handler
    targets = [("cli.cli", smc)] + [(sub["func"], eng.summary(prog.func(sub["func"]))) for _n, sub in sorted(subs.items()) if sub["func"] and sub["func"] in ("cli.cli_verify_metadata", "cli.cli_sign_artifacts", "cli.cli_gpg_sign", "cli.cli_gpg_key_lookup")]
    seen_exit = set()
    for q, smx in targets:
        for p in smx.paths:
            if p.kind != "raise" or p.value.exc != "SystemExit" or p.value.origin != "explicit":
                continue
            exits = [ev for ev, _d in flatten_events(p.events) if ev[0] == "exit"]
            status = exits[-1][2] if exits else C(None)
            s = p.value.chain[-1]
            k = (q, s.key(), show(status))
            if k in seen_exit:
                continue
            seen_exit.add(k)
            ctx.count("R5.explicit_exits")
            ctx.ob("R5", "explicit-exit|%s|%s|%s" % k, s.loc(), "%s exits the process explicitly with status %s%s" % (q, show(status), "" if nonzero_int(status) else ": a zero/None status reports success although the command did not complete"), nonzero_int(status))
    if not seen_exit:
        ctx.ob("R5", "no-explicit-exit", fn_site(eng, smc).loc(), "neither cli() nor a handler exits the process explicitly: the status is always the handler's return value or an uncaught exception", True, nontrivial=False)

    # ---- R3 entry points
    _entry_points(ctx)

    # ---- R4 signing handlers
    cg = CallGraph(prog)
    for name, sub in sorted(subs.items()):
        if not sub["func"]:
            continue
        cone = cg.cone([sub["func"]])
        signers = [s for s in SIGNERS if s in cone and s in prog.funcs]
        if not signers:
            continue
        smh = eng.summary(prog.func(sub["func"]))
        bad = 0
        n = 0
        for p in smh.paths:
            if p.kind != "return" or not maybe_falsy(p.value):
                continue
            n += 1
            if not any(ev[0] == "call" and ev[2] in ["repo:" + s for s in signers] and ev[5][0] == "ok" for ev in flat(p)):
                bad += 1
        ctx.count("R4.signing_handlers")
        ctx.ob("R4", "signed-before-success|%s" % sub["func"], fn_site(eng, smh).loc(), "%s %s" % (sub["func"], "returns a zero/None status only after %s returned normally (%d such paths)" % (", ".join(signers), n) if not bad else "can return a zero/None status without having signed (%d of %d falsy-return paths do not follow a successful signer call)" % (bad, n)), bad == 0 and n > 0)
    ctx.floor("R4.signing_handlers", 2)
    # "exit zero only if they actually signed": a signer that returns normally has written its output
    for q in SIGNERS:
        if q not in prog.funcs:
            continue
        sms = eng.walk(q)
        rets = [p for p in sms.paths if p.kind == "return"]
        nowrite = [p for p in rets if not any(ev[0] == "call" and ev[2] == "repo:common.write_metadata_to_file" and ev[5][0] == "ok" for ev in flat(p)) and not _nothing_to_sign(eng, sms, p)]
        ctx.count("R4.signers")
        ctx.ob("R4", "returns-only-after-writing|%s" % q, fn_site(eng, sms).loc(), "%s %s" % (q, "returns normally only after write_metadata_to_file succeeded (%d returning paths)" % len(rets) if rets and not nowrite else "can return normally without having written its output (%d of %d returning paths): the command would report success although nothing was signed" % (len(nowrite), len(rets))), bool(rets) and not nowrite)
    ctx.floor("R4.signers", 2)
    # ... and a write_metadata_to_file that returned normally has put the bytes under the name
    # (C08-R1, re-evaluated here: a writer that swallows its own failure makes every signing
    # sub-command report success with the file left unsigned)
    from .c08 import writer_model

    writer_model(ctx.sub("R4"), "C08-R1")


def _library_would_reject(eng, st, Tm, Um, uty):
    """under the facts of this path, does the library's verifier for the declared type reject the
    two files anyway?  (every accepting path of verify_root(T, U) / verify_delegation(type, U, T)
    needs something the path has refuted) - then a failure status the command decides on by itself
    turns away nothing the library would have accepted"""
    from sa.terms import subst

    smr = eng.summary(eng.prog.func("authentication.verify_root"))
    smd = eng.summary(eng.prog.func("authentication.verify_delegation"))
    cands = []
    if not st.holds(("ne", uty, C("root"))):
        cands.append((smr, {P(smr.params[0]): Tm, P(smr.params[1]): Um}))
    if not st.holds(("eq", uty, C("root"))):
        cands.append((smd, {P(smd.params[0]): uty, P(smd.params[1]): Um, P(smd.params[2]): Tm}))
    for sm, mp in cands:
        rets = [p for p in sm.paths if p.kind == "return"]
        if not rets:
            return False
        for p in rets:
            if not any(st.contradicts(subst(f, mp)) for f in p.facts if f[0] in ("eq", "ne", "has", "nothas", "type", "nottype", "in", "notin", "ok", "notok", "ret")):
                return False
    return bool(cands)


def _nothing_to_sign(eng, sms, p):
    """a repodata signer that returns without writing on a path on which every artifact section
    of the loaded document is empty or absent: there was nothing to sign"""
    if sms.fi.qualname != "signing.sign_all_in_repodata" or not sms.params:
        return False
    L = eng.expand(eng.repo_call("common.load_metadata_from_file", P(sms.params[0])))
    st = State(facts=p.facts)

    def empty(sec, optional):
        d = SubC(L, sec)
        if optional and st.holds(("nothas", L, C(sec))):
            return True
        return st.truth_value(d) is False or st.holds(("falsy", d)) or st.holds(("eq", ("call", "builtin:len", (d,), ()), C(0)))

    return empty("packages", False) and empty("packages.conda", True)


def _entry_points(ctx):
    eng, prog = ctx.eng, ctx.prog
    scripts = (prog.pyproject.get("project", {}) or {}).get("scripts", {}) or {}
    found = False
    for name, target in scripts.items():
        found = True
        ok = target.replace(" ", "") == "conda_content_trust.cli:cli" and "cli.cli" in prog.funcs
        ctx.count("R3.entry_points")
        ctx.ob("R3", "console-script|%s" % name, "pyproject.toml", "console script %s = %s %s" % (name, target, "(the wrapper generated by the installer is sys.exit(cli()), A7)" if ok else "does not point at conda_content_trust.cli:cli"), ok)
    if not found:
        ctx.ob("R3", "console-script|missing", "pyproject.toml", "no [project.scripts] entry found", False)
    m = prog.by_short.get("cli")
    for body in m.main_blocks:
        flows = exit_flows(prog, m, body, "cli.cli")
        for call, reached in flows:
            s = prog.site(m, call, "cli.<__main__ block>")
            ctx.count("R3.entry_points")
            ctx.ob("R3", "main-block|cli", s.loc(), "python -m conda_content_trust.cli: the value of cli() %s sys.exit" % ("is passed to" if reached else "does NOT reach"), reached)
        if not flows:
            ctx.ob("R3", "main-block|cli|nocall", m.relpath, "the __main__ block of cli.py does not call cli()", False)
    _names_bound_before_main(ctx, m, CallGraph(prog))
    mm = prog.by_short.get("__main__")
    if mm is None:
        ctx.ob("R3", "package-main|missing", "conda_content_trust/__main__.py", "the package has no __main__.py (python -m conda_content_trust does not work)", False)
    else:
        flows = exit_flows(prog, mm, mm.tree.body, "cli.cli")
        for call, reached in flows:
            s = prog.site(mm, call, "__main__.<module>")
            ctx.count("R3.entry_points")
            ctx.ob("R3", "package-main", s.loc(), "python -m conda_content_trust: the value of cli() %s sys.exit (otherwise the exit status is 0 whatever the verdict)" % ("is passed to" if reached else "does NOT reach"), reached)
        if not flows:
            ctx.ob("R3", "package-main|nocall", mm.relpath, "__main__.py does not call cli()", False)
    ctx.floor("R3.entry_points", 3)


def _names_bound_before_main(ctx, m, cg):
    """python -m conda_content_trust.cli runs the `if __name__ == "__main__":` block when the
    module body reaches it: a module-level name bound only further down does not exist yet when
    the handlers run (NameError, exit status 1 after the verdict was printed)"""
    import ast

    prog = ctx.prog
    body = m.tree.body
    idx = None
    for i, st_ in enumerate(body):
        if isinstance(st_, ast.If) and any(st_.body is b or st_.body == b for b in m.main_blocks):
            idx = i
            break
    if idx is None:
        return

    def bound(stmts):
        out = set()
        for st_ in stmts:
            for x in ast.walk(st_):
                if isinstance(x, (ast.FunctionDef, ast.AsyncFunctionDef, ast.ClassDef)):
                    if x in stmts:
                        out.add(x.name)
                elif isinstance(x, ast.Name) and isinstance(x.ctx, ast.Store):
                    out.add(x.id)
                elif isinstance(x, (ast.Import, ast.ImportFrom)):
                    for a in x.names:
                        out.add((a.asname or a.name).split(".")[0])
        return out

    def top_level_bound(stmts):
        # names bound by the statements themselves (not inside nested function bodies)
        out = set()

        def go(n):
            if isinstance(n, (ast.FunctionDef, ast.AsyncFunctionDef, ast.ClassDef)):
                out.add(n.name)
                return
            if isinstance(n, ast.Name) and isinstance(n.ctx, ast.Store):
                out.add(n.id)
            if isinstance(n, (ast.Import, ast.ImportFrom)):
                for a in n.names:
                    out.add((a.asname or a.name).split(".")[0])
            for ch in ast.iter_child_nodes(n):
                go(ch)

        for st_ in stmts:
            go(st_)
        return out

    late = top_level_bound(body[idx + 1 :]) - top_level_bound(body[:idx])
    cone = sorted(q for q in cg.cone(["cli.cli"]) if prog.funcs[q].mod is m)
    bad = []
    for q in cone:
        fi = prog.funcs[q]
        if fi.qualname.split(".")[1] in late and fi.parent is None and fi.cls is None:
            bad.append("%s is defined after the __main__ block" % q)
        local = {a.arg for a in fi.node.args.posonlyargs + fi.node.args.args + fi.node.args.kwonlyargs} | {x.id for x in ast.walk(fi.node) if isinstance(x, ast.Name) and isinstance(x.ctx, ast.Store)}
        for x in ast.walk(fi.node):
            if isinstance(x, ast.Name) and isinstance(x.ctx, ast.Load) and x.id in late and x.id not in local:
                bad.append("%s reads %s (line %d), bound only after the __main__ block" % (q, x.id, x.lineno))
    ctx.count("R3.functions_checked_for_late_names", len(cone))
    ctx.ob("R3", "main-block|cli|names-bound", prog.site(m, body[idx], "cli.<__main__ block>").loc(), "python -m conda_content_trust.cli: %s" % ("every module-level name the %d reachable functions of cli.py read is bound before the __main__ block runs (%d names are bound after it)" % (len(cone), len(late)) if not bad else "the __main__ block runs before the module body is complete: " + "; ".join(sorted(set(bad)))[:300]), not bad)


def thorough(ctx):
    """cross-check A7 against the console-script wrapper actually installed in /venv/bin"""
    path = "/venv/bin/conda-content-trust"
    if os.path.exists(path):
        src = open(path, encoding="utf-8", errors="replace").read()
        ok = "sys.exit(cli())" in src.replace(" ", "") and "fromconda_content_trust.cliimportcli" in src.replace(" ", "")
        ctx.ob("R3", "installed-wrapper", path, "the installed console-script wrapper %s" % ("is sys.exit(cli()) (assumption A7 holds in this environment)" if ok else "is not of the form sys.exit(cli())"), ok)
