"""C10 - OpenPGP-wrapped signatures follow RFC 4880 v4 (structural part)."""
from __future__ import annotations

from sa.effects import all_events
from sa.terms import C, CallT, P, Sub, SubC, concat_parts, is_call, is_const, norm_codec, show
from sa.walker import State, flatten_events

from . import fn_site
from .c15 import GPG_ALTS, gpg_missing, hex_missing
from .signer import canon_bytes
from .vs import FROM_PUBLIC

EXPLANATION = (
    "R1: on every accepting path of verify_gpg_signature the hash object is SHA-256 (cryptography's Hash(SHA256()) or "
    "hashlib.sha256), the sequence of bytes fed to it - concatenations flattened, pack('>I', n) and n.to_bytes(4,'big') "
    "normalised to BE32(n), hex codecs normalised - is exactly [data, unhex(signature['other_headers']), b'\\x04\\xff', "
    "BE32(len(unhex(signature['other_headers'])))] (RFC 4880 5.2.4, v4 trailer, written as this term list), followed by "
    "finalize/digest, and the accepted event is from_public_bytes(unhex(key_value)).verify(unhex(signature['signature']), "
    "digest). R2: the entry, key and data format gates precede; InvalidSignature is not swallowed (C01-R4). R3: every module "
    "chain used lies in the static import closure (defect D1). R4 (transcription): sign_via_gpg passes its data argument to "
    "the GnuPG signer unchanged and returns the signer's dict with exactly 'keyid' removed (optionally copied to 'see_also'); "
    "sign_root_metadata_dict_via_gpg signs canonserialize(root_signable['signed']) and files the result under the raw key "
    "value q fetched for the same fingerprint; the resulting field set is one of the two the entry grammar accepts, assuming "
    "the signer returns {keyid, other_headers, signature}."
)
RULE_TEXT = "obligations: digest term sequence, hash algorithm, verify event, gates, module chains, transcription stores; non-trivial = term-sequence equality on walked paths"

SHA256_CTORS = ("ext:cryptography.hazmat.primitives.hashes.SHA256",)


def be32(t):
    """pack('>I', n) / pack('!I', n) / n.to_bytes(4, 'big') -> ('BE32', n)"""
    if is_call(t, "ext:struct.pack") and len(t[2]) == 2 and is_const(t[2][0]) and t[2][0][2] in (">I", "!I", ">L", "!L"):
        return ("BE32", norm_codec(t[2][1]))
    if is_call(t, "method:to_bytes") and t[2]:
        n = t[2][0]
        length = t[2][1] if len(t[2]) > 1 else dict(t[3]).get("length")
        order = t[2][2] if len(t[2]) > 2 else dict(t[3]).get("byteorder", C("big"))
        if length == C(4) and order == C("big") and dict(t[3]).get("signed", C(False)) == C(False):
            return ("BE32", norm_codec(n))
    return None


def norm_chunk(eng, t):
    out = []
    for part in concat_parts(t):
        b = be32(part)
        out.append(b if b is not None else norm_codec(eng.expand(part)))
    return out


def run(ctx):
    eng = ctx.eng
    ctx.assume("A1", "A2", "A5", "what real GnuPG / securesystemslib emit is not decided (binary and library are not installed); R4 assumes the signer returns {keyid, other_headers, signature}")
    sm = eng.walk("authentication.verify_gpg_signature")
    site = fn_site(eng, sm)
    sig, key, data = (P(x) for x in sm.params[:3])
    oh = ("UNHEX", Sub(sig, C("other_headers")))
    want = [data, oh, C(b"\x04\xff"), ("BE32", CallT("builtin:len", [oh]))]
    rets = [p for p in sm.paths if p.kind == "return"]
    agg = {"sha256": True, "digest-sequence": True, "verify-event": True, "gates": True}
    notes = {}
    for p in rets:
        evs = [ev for ev, _d in flatten_events(p.events)]
        verifies = [ev for ev in evs if ev[0] == "call" and ev[2] == "method:verify" and ev[5][0] == "ok" and len(ev[3]) == 3]
        if len(verifies) != 1:
            agg["verify-event"] = False
            notes["verify-event"] = "%d successful verify events on an accepting path" % len(verifies)
            continue
        v = verifies[0]
        recv, sigb, msg = norm_codec(eng.expand(v[3][0])), norm_codec(eng.expand(v[3][1])), v[3][2]
        if recv != ("call", FROM_PUBLIC, (("UNHEX", key),), ()) or sigb != ("UNHEX", Sub(sig, C("signature"))):
            agg["verify-event"] = False
            notes["verify-event"] = "verify is %s.verify(%s, ...)" % (show(v[3][0])[:80], show(v[3][1])[:60])
        if not (is_call(msg, ("method:finalize", "method:digest")) and msg[2]):
            agg["digest-sequence"] = False
            notes["digest-sequence"] = "the verified message is %s, not a digest" % show(msg)[:80]
            continue
        h = msg[2][0]
        chunks = []
        algo_ok = False
        if is_call(h, "ext:cryptography.hazmat.primitives.hashes.Hash") and h[2]:
            algo_ok = is_call(h[2][0], SHA256_CTORS) and not h[2][0][2]
        elif is_call(h, "ext:hashlib.sha256"):
            algo_ok = True
            if h[2]:
                chunks += norm_chunk(eng, h[2][0])
        elif is_call(h, "ext:hashlib.new") and h[2] and h[2][0] == C("sha256"):
            algo_ok = True
            if len(h[2]) > 1:
                chunks += norm_chunk(eng, h[2][1])
        if not algo_ok:
            agg["sha256"] = False
            notes["sha256"] = "hash object is %s" % show(h)[:100]
        vi = evs.index(v)
        for ev in evs[:vi]:
            if ev[0] == "hash-update" and ev[2] == h:
                chunks += norm_chunk(eng, ev[3])
        later = [ev for ev in evs[vi:] if ev[0] == "hash-update" and ev[2] == h]
        if [norm_codec(c) if not (isinstance(c, tuple) and c and c[0] in ("BE32", "UNHEX")) else c for c in chunks] != [norm_codec(w) if not (isinstance(w, tuple) and w and w[0] in ("BE32", "UNHEX")) else w for w in want] or later:
            agg["digest-sequence"] = False
            notes["digest-sequence"] = "hashed sequence is [%s]" % ", ".join(_show(c) for c in chunks)
        st = State(facts=p.facts)
        gm = gpg_missing(st, sig) + ["key:" + m for m in hex_missing(st, key, 64)]
        if not (st.holds(("hasattr", data, "decode")) or st.holds(("type", data, frozenset(["bytes"])))):
            gm.append("data is bytes-like")
        if gm:
            agg["gates"] = False
            notes["gates"] = "; ".join(gm)[:200]
    texts = {
        "sha256": ("the digest algorithm is SHA-256", "the digest algorithm is not SHA-256"),
        "digest-sequence": ("the hashed byte sequence is data || unhex(other_headers) || 04 ff || be32(len(unhex(other_headers)))", "the hashed byte sequence deviates from RFC 4880 5.2.4"),
        "verify-event": ("acceptance is from_public_bytes(unhex(key_value)).verify(unhex(signature['signature']), digest)", "acceptance is not the expected verify event"),
        "gates": ("entry, key and data format gates hold on every accepting path", "a format gate is missing on an accepting path"),
    }
    if not rets:
        ctx.ob("R1", "never-accepts", site.loc(), "verify_gpg_signature has no accepting path", False)
    for k, ok in agg.items():
        rule = "R2" if k == "gates" else "R1"
        ctx.count(rule + ".items")
        ctx.ob(rule, k, site.loc(), (texts[k][0] if ok else texts[k][1] + (": " + notes[k] if k in notes else "")) + " (%d accepting paths)" % len(rets), ok and bool(rets))
    esc = [x for x, _c in sm.escapes if x.exc == "InvalidSignature" and x.origin == "crypto"]
    ctx.ob("R2", "invalid-signature-propagates", site.loc(), "InvalidSignature from the crypto library %s" % ("escapes to the caller" if esc else "is swallowed"), bool(esc))

    # "valid exactly when the signature verifies over that digest": the verdict "invalid" comes from
    # the verify call and from nowhere else, and nothing but the three arguments goes into it
    own_invalid = {}
    for x, _c in sm.escapes:
        if eng.prog.exc_is_sub(x.exc, "InvalidSignature") and x.origin != "crypto":
            own_invalid.setdefault(x.chain[-1].key(), x)
    for k, x in sorted(own_invalid.items()):
        ctx.ob("R1", "invalid-for-another-reason|%s" % k, x.chain[-1].loc(), "verify_gpg_signature reports InvalidSignature at %s, not from the ed25519 verification of the digest: a signature that verifies can be refused" % x.chain[-1].text[:60], False)
    from sa.effects import Effects as _Fx

    amb = _Fx(eng).ambient(sm.fi)
    ctx.ob("R1", "verdict-from-arguments-only", site.loc(), "verify_gpg_signature %s" % ("reads no clock, environment or other ambient state" if not amb else "reads ambient state (%s): the same signature is valid here and invalid there" % ", ".join(sorted({a[0] for a in amb}))[:200]), not amb)

    # "valid exactly when": the entry format gate must not be narrower than the OpenPGP entry
    # grammar (any hex header string of whole bytes) - C15's deciders, re-evaluated here
    from .c15 import predicate_exact, raiser_exact

    for q, fn_ in (("common.checkformat_gpg_signature", raiser_exact), ("common.is_gpg_signature", predicate_exact)):
        if q in eng.prog.funcs:
            ok_, why_ = fn_(eng, q, "gpg")
            ctx.ob("R2", "entry-grammar-exact|%s" % q, fn_site(eng, eng.walk(q)).loc(), "%s %s" % (q, "decides exactly the OpenPGP entry grammar" if ok_ else "does not decide exactly the OpenPGP entry grammar (valid entries are turned away or malformed ones let through): " + why_), ok_)

    # ---- R1 (cont.) the data that is hashed is the caller's, unchanged: the verifier writes none of
    # its arguments (a bytearray payload assembled with += would grow with every call)
    from sa.effects import Effects

    pw = Effects(eng).param_writes(sm.fi)
    ctx.ob("R1", "arguments-unchanged", site.loc(), "verify_gpg_signature %s" % ("writes none of its arguments (own stores and all resolved callees)" if not pw else "modifies its argument: " + "; ".join("%s of %s at %s" % (k, pn, s.loc()) for pn, _st, k, s, _via in sorted(pw, key=lambda x: (x[0], str(x[3]))))[:300]), not pw)

    # ---- R3 module chains
    n = 0
    for p in sm.paths:
        for ev, _d in flatten_events(p.events):
            if ev[0] == "attrchain":
                n += 1
                if ev[4] is not None:
                    ctx.ob("R3", "unimported-chain|%s" % ev[1].key(), ev[1].loc(), "module chain %s uses %s, which is not imported and not in the static import closure" % (".".join(ev[2]), ev[4]), False)
    ctx.ob("R3", "chains", site.loc(), "%d module-chain evaluations in verify_gpg_signature, all inside the import closure" % n, not ctx.failed("R3"))

    # ---- R4 transcription
    _transcription(ctx)

    # ---- the envelope verifier must actually reach this primitive for every counted OpenPGP entry
    # (C01's rule set, re-evaluated here)
    from . import c01

    c01.run(ctx.sub("DEP-C01"))


def _show(c):
    if isinstance(c, tuple) and c and c[0] in ("BE32", "UNHEX", "HEX"):
        return "%s(%s)" % (c[0], _show(c[1]))
    return show(c)[:60]


def _transcription(ctx):
    eng = ctx.eng
    sv = eng.walk("root_signing.sign_via_gpg")
    site = fn_site(eng, sv)
    data, fp = P(sv.params[0]), P(sv.params[1])
    rets = [p for p in sv.paths if p.kind == "return"]
    ok_all, why = bool(rets), "no returning path"
    for p in rets:
        evs = [ev for ev, _d in flatten_events(p.events)]
        signer = [ev for ev in evs if ev[0] == "call" and ev[2].endswith("gpg.functions.create_signature") and ev[5][0] == "ok"]
        if len(signer) != 1 or signer[0][3][:2] != (data, fp):
            ok_all, why = False, "the GnuPG signer is not called once with (data_to_sign, gpg_key_fingerprint)"
            break
        res = signer[0][5][1]
        if p.value != res:
            ok_all, why = False, "returns %s, not the signer's result" % show(p.value)[:60]
            break
        muts = [ev for ev in evs if ev[0] in ("store", "del", "mutcall") and _root(ev[2]) == res]
        removed = [ev[2] for ev in muts if ev[0] == "del"] + [Sub(ev[2], ev[4][0]) for ev in muts if ev[0] == "mutcall" and ev[3] == "pop" and ev[2] == res and ev[4]]
        stores = [ev for ev in muts if ev[0] == "store"]
        others = [ev for ev in muts if ev[0] == "mutcall" and not (ev[3] == "pop" and ev[2] == res)]
        if removed != [Sub(res, C("keyid"))] or others:
            ok_all, why = False, "does not remove exactly the 'keyid' field from the signer's result"
            break
        keyid_values = (Sub(res, C("keyid")), CallT("method:pop", [res, C("keyid")]))
        for ev in stores:
            if not (ev[2] == Sub(res, C("see_also")) and ev[3] in keyid_values):
                ok_all, why = False, "adds a field other than see_also := keyid (%s)" % show(ev[2])[:60]
                break
        fields = {"other_headers", "signature"} | ({"see_also"} if stores else set())
        if frozenset(fields) not in GPG_ALTS:
            ok_all, why = False, "resulting field set %s is not accepted by the entry grammar" % sorted(fields)
    ctx.ob("R4", "transcribe-entry", site.loc(), "sign_via_gpg " + ("returns the signer's dict minus 'keyid' (optionally see_also := keyid): a field set the OpenPGP entry grammar accepts" if ok_all else "deviates: " + why), ok_all)

    sd = eng.walk("root_signing.sign_root_metadata_dict_via_gpg")
    site = fn_site(eng, sd)
    rs, fp = P(sd.params[0]), P(sd.params[1])
    rets = [p for p in sd.paths if p.kind == "return"]
    ok_all, why = bool(rets), "no returning path"
    want_msg = canon_bytes(eng, SubC(rs, "signed"))
    for p in rets:
        evs = [ev for ev, _d in flatten_events(p.events)]
        stores = [ev for ev in evs if ev[0] == "store" and _root(ev[2]) == rs]
        if len(stores) != 1 or stores[0][2][1] != SubC(rs, "signatures"):
            ok_all, why = False, "not exactly one store into root_signable['signatures']"
            break
        from sa.effects import all_events

        others = [ev for ev in all_events(p.events) if ev[0] in ("store", "del", "mutcall") and _root(ev[2]) == rs and ev is not stores[0]]
        if others:
            ok_all, why = False, "besides filing its own entry it changes the envelope (%s %s at %s): entries of other keyholders do not survive" % (others[0][0], show(others[0][2])[:60], others[0][1].loc())
            break
        keyterm, val = stores[0][2][2], stores[0][3]
        calls = [ev for ev in evs if ev[0] == "call" and ev[2] == "repo:root_signing.sign_via_gpg" and ev[5][0] == "ok"]
        if len(calls) != 1 or eng.expand(calls[0][3][0]) != want_msg or calls[0][3][1] != fp:
            ok_all, why = False, "sign_via_gpg is not called with (canonserialize(root_signable['signed']), fingerprint)"
            break
        if val != calls[0][5][1]:
            ok_all, why = False, "the stored entry is not sign_via_gpg's result"
            break
        kcalls = [ev for ev in evs if ev[0] == "call" and ev[2] == "repo:root_signing.fetch_keyval_from_gpg" and ev[5][0] == "ok"]
        if len(kcalls) != 1 or kcalls[0][3][0] != fp or keyterm != kcalls[0][5][1]:
            ok_all, why = False, "the entry is not filed under fetch_keyval_from_gpg(<same fingerprint>)"
            break
    ctx.ob("R4", "transcribe-filing", site.loc(), "sign_root_metadata_dict_via_gpg " + ("signs canonserialize(root_signable['signed']) and files the entry under the raw key value fetched for the same fingerprint" if ok_all else "deviates: " + why), ok_all)

    fk = eng.walk("root_signing.fetch_keyval_from_gpg")
    rets = [p for p in fk.paths if p.kind == "return"]
    okq = bool(rets) and all(_is_q(p.value) for p in rets)
    ctx.ob("R4", "transcribe-q", fn_site(eng, fk).loc(), "fetch_keyval_from_gpg %s" % ("returns export_pubkey(fingerprint)['keyval']['public']['q']" if okq else "does not return the exported key's ['keyval']['public']['q']"), okq)


def _is_q(v):
    steps = []
    while isinstance(v, tuple) and v and v[0] == "sub":
        steps.append(v[2])
        v = v[1]
    return steps[::-1] == [C("keyval"), C("public"), C("q")] and is_call(v) and v[1].endswith("gpg.functions.export_pubkey")


def _root(t):
    while isinstance(t, tuple) and t and t[0] in ("sub", "attr"):
        t = t[1]
    return t
