"""C19 - key material round-trips losslessly (structural part: codec pairing)."""
from __future__ import annotations

from sa.terms import C, CallT, P, is_call, is_const, is_lit, norm_codec, show, show_fact
from sa.walker import State, flatten_events

from . import fn_site
from .signer import RAW_ENC, RAW_PRIV, RAW_PUB
from .vs import hexconj

EXPLANATION = (
    "R1 (codec pairing): for both key classes to_hex(k) expands to hex(to_bytes(k)) (lower-case hex codec) and from_hex(x) "
    "to from_bytes(unhex(x)) on a path that established the 64-hex grammar of x; PublicKey.to_bytes is "
    "public_bytes(Raw, Raw) paired with from_public_bytes, PrivateKey.to_bytes is private_bytes(Raw, Raw, NoEncryption()) "
    "paired with from_private_bytes; from_bytes gates on a bytes-like argument. R2 (key files): the writer stores "
    "PrivateKey.to_bytes(private) in name + '.pri' and PublicKey.to_bytes(public) in name + '.pub' in binary mode, the "
    "reader reads the same suffixes in binary mode into PrivateKey.from_bytes / PublicKey.from_bytes in the same roles. "
    "R3: is_equivalent_to validates its second key, returns False when the two types differ and otherwise the symmetric "
    "byte comparison to_bytes(k1) == to_bytes(k2). R4: checkformat_key is the isinstance gate over both Ed25519 key classes."
)
RULE_TEXT = "obligations: one per helper x class binding, per key-file stream, per equivalence clause; non-trivial = expanded-term equality on walked paths"

PUB = "common.PublicKey"
PRIV = "common.PrivateKey"
FROM = {PUB: "ext:cryptography.hazmat.primitives.asymmetric.ed25519.Ed25519PublicKey.from_public_bytes", PRIV: "ext:cryptography.hazmat.primitives.asymmetric.ed25519.Ed25519PrivateKey.from_private_bytes"}


def raw_bytes_of(t, key, cls):
    """t == key.public_bytes(Raw, Raw) / key.private_bytes(Raw, Raw, NoEncryption()) (or *_raw())"""
    if cls == PUB:
        if is_call(t, "method:public_bytes_raw") and t[2] == (key,):
            return True
        if is_call(t, "method:public_bytes") and t[2] and t[2][0] == key:
            vals = list(t[2][1:]) + [v for _n, v in t[3]]
            return sorted(v[1] for v in vals if v[0] == "global") == sorted([RAW_ENC, RAW_PUB]) and len(vals) == 2
        return False
    if is_call(t, "method:private_bytes_raw") and t[2] == (key,):
        return True
    if is_call(t, "method:private_bytes") and t[2] and t[2][0] == key:
        vals = list(t[2][1:]) + [v for _n, v in t[3]]
        globs = sorted(v[1] for v in vals if v[0] == "global")
        noenc = [v for v in vals if is_call(v, "ext:cryptography.hazmat.primitives.serialization.NoEncryption")]
        return globs == sorted([RAW_ENC, RAW_PRIV]) and len(noenc) == 1 and len(vals) == 3
    return False


def run(ctx):
    eng, prog = ctx.eng, ctx.prog
    ctx.assume("A1", "A2", "equality with RFC 8032 outputs and value-level losslessness are properties of the cryptography library (not decided)")
    for cls in (PUB, PRIV):
        short = cls.split(".")[-1]
        # to_bytes
        tb = prog.find_method(cls, "to_bytes")
        sm = eng.summary(tb[1], cls)
        k = P(sm.params[-1])
        rets = [p for p in sm.paths if p.kind == "return"]
        ok = bool(rets) and all(raw_bytes_of(p.value, k, cls) for p in rets)
        ctx.count("R1.items")
        ctx.ob("R1", "to_bytes|%s" % short, fn_site(eng, sm).loc(), "%s.to_bytes %s" % (short, "returns the raw key bytes (Raw encoding, Raw format%s)" % (", no encryption" if cls == PRIV else "") if ok else "does not return the Raw/Raw serialization: " + "; ".join(show(p.value)[:100] for p in rets)), ok)
        # from_bytes
        fb = prog.find_method(cls, "from_bytes")
        sm = eng.summary(fb[1], cls)
        b = P(sm.params[-1])
        rets = [p for p in sm.paths if p.kind == "return"]
        ok = bool(rets) and all(p.value == CallT(FROM[cls], [b]) for p in rets)
        gate = bool(rets) and all(State(facts=p.facts).holds(("hasattr", b, "decode")) or State(facts=p.facts).holds(("type", b, frozenset(["bytes"]))) for p in rets)
        ctx.count("R1.items")
        ctx.ob("R1", "from_bytes|%s" % short, fn_site(eng, sm).loc(), "%s.from_bytes %s" % (short, "is %s(bytes) behind the bytes-like gate: the inverse of its to_bytes" % FROM[cls].split(".")[-1] if ok and gate else "is not the inverse of to_bytes (%s; gate %s)" % ("; ".join(show(p.value)[:80] for p in rets), gate)), ok and gate)
        # to_hex
        th = prog.find_method(cls, "to_hex")
        sm = eng.summary(th[1], cls)
        k = P(sm.params[-1])
        rets = [p for p in sm.paths if p.kind == "return"]
        ok = bool(rets)
        for p in rets:
            n = norm_codec(eng.expand(p.value))
            if not (isinstance(n, tuple) and n and n[0] == "HEX" and raw_bytes_of(n[1], k, cls)):
                ok = False
        ctx.count("R1.items")
        ctx.ob("R1", "to_hex|%s" % short, fn_site(eng, sm).loc(), "%s.to_hex %s" % (short, "is lower-case hex of to_bytes(key)" if ok else "is not hex(to_bytes(key)): " + "; ".join(show(p.value)[:100] for p in rets)), ok)
        # from_hex
        fh = prog.find_method(cls, "from_hex")
        sm = eng.summary(fh[1], cls)
        x = P(sm.params[-1])
        rets = [p for p in sm.paths if p.kind == "return"]
        ok = bool(rets)
        why = ""
        for p in rets:
            n = norm_codec(eng.expand(p.value))
            if n != ("call", FROM[cls], (("UNHEX", x),), ()):
                ok, why = False, "value is %s" % show(p.value)[:100]
            if not hexconj(State(facts=p.facts), x, 64):
                ok, why = False, "the 64-hex grammar of the argument is not established before decoding"
        ctx.count("R1.items")
        ctx.ob("R1", "from_hex|%s" % short, fn_site(eng, sm).loc(), "%s.from_hex %s" % (short, "is from_bytes(unhex(x)) after the 64-lower-hex format check: the inverse of to_hex" if ok else "is not the inverse of to_hex: " + why), ok)
    ctx.floor("R1.items", 8)

    # ---- R2 key files
    # (private helpers of the key module that the writer imports - a _write_key_file next to the
    # reader's _read_key_file - are analysed in place, like the writer's own)
    wm = eng.walk("metadata_construction.gen_and_write_keys", None, frozenset(eng.private_helpers("metadata_construction") | eng.private_helpers("common")) - {"metadata_construction.gen_and_write_keys"})
    fname = P(wm.params[0])
    rets = [p for p in wm.paths if p.kind == "return"]
    ok, why = bool(rets), "no returning path"
    for p in rets:
        evs = [ev for ev, _d in flatten_events(p.events)]
        writes = {}
        for ev in evs:
            if ev[0] == "write" and is_call(ev[2], ("builtin:open", "ext:os.fdopen")) and ev[2][2]:
                path, mode = ev[2][2][0], (ev[2][2][1] if len(ev[2][2]) > 1 else dict(ev[2][3]).get("mode"))
                if is_call(path, "ext:os.open") and path[2] and "O_APPEND" not in show(path[2][1] if len(path[2]) > 1 else C(0)) and "O_TRUNC" in show(path[2][1] if len(path[2]) > 1 else C(0)):
                    path = path[2][0]  # a descriptor opened (truncating) on that path
                if isinstance(path, tuple) and path[0] == "binop" and path[1] == "+" and path[2] == fname and is_const(path[3]) and mode is not None and is_const(mode) and "b" in str(mode[2]) and "w" in str(mode[2]):
                    writes[path[3][2]] = eng.expand(ev[3])
        v = p.value
        if isinstance(v, tuple) and len(v) == 3 and v[0] == "nt" and len(v[2]) == 2:
            v = ("lit", "tuple", v[2], None)  # a two-field NamedTuple unpacks like the pair
        if not (is_lit(v, "tuple") and len(v[2]) == 2):
            ok, why = False, "does not return the (private, public) pair"
            break
        priv, pub = v[2]
        if not (".pri" in writes and raw_bytes_of(writes[".pri"], priv, PRIV)):
            ok, why = False, "name + '.pri' does not receive PrivateKey.to_bytes(private) in binary mode"
            break
        if not (".pub" in writes and raw_bytes_of(writes[".pub"], pub, PUB)):
            ok, why = False, "name + '.pub' does not receive PublicKey.to_bytes(public) in binary mode"
            break
        if pub != CallT("method:public_key", [priv]):
            ok, why = False, "the public key returned is not derived from the private key"
            break
    ctx.ob("R2", "keyfile-writer", fn_site(eng, wm).loc(), "gen_and_write_keys " + ("writes the raw private bytes to name.pri and the raw public bytes to name.pub (binary)" if ok else "deviates: " + why), ok)
    rm = eng.walk("common.keyfiles_to_keys")
    name = P(rm.params[0])
    rets = [p for p in rm.paths if p.kind == "return"]
    ok, why = bool(rets), "no returning path"

    def is_read_of(t, suffix):
        """t == open(name + suffix, <binary read mode>).read()"""
        if is_call(t, "method:read") and len(t[2]) == 2 and is_call(t[2][0], "builtin:open") and (_const_int(t[2][1]) or 0) > 32 and cur_state[0] is not None and cur_state[0].holds(("eq", CallT("builtin:len", [t]), C(32))):
            # a bounded read of more than a key's worth, on a path that found exactly 32 bytes:
            # the whole file
            t = ("call", "method:read", (t[2][0],), ())
        if not (is_call(t, "method:read") and len(t[2]) == 1 and is_call(t[2][0], "builtin:open")):
            return False
        h = t[2][0]
        path = h[2][0] if h[2] else dict(h[3]).get("file")
        mode = h[2][1] if len(h[2]) > 1 else dict(h[3]).get("mode")
        return path == ("binop", "+", name, C(suffix)) and mode is not None and is_const(mode) and "b" in str(mode[2]) and "r" in str(mode[2]) and "+" not in str(mode[2])

    cur_state = [None]
    for p in rets:
        v = eng.expand(p.value)
        cur_state[0] = State(facts=p.facts)
        if isinstance(v, tuple) and len(v) == 3 and v[0] == "nt" and len(v[2]) == 2:
            v = ("lit", "tuple", v[2], None)
        good = (
            is_lit(v, "tuple")
            and len(v[2]) == 2
            and is_call(v[2][0], FROM[PRIV])
            and is_call(v[2][1], FROM[PUB])
            and len(v[2][0][2]) == 1
            and len(v[2][1][2]) == 1
            and is_read_of(v[2][0][2][0], ".pri")
            and is_read_of(v[2][1][2][0], ".pub")
        )
        if not good:
            ok, why = False, "returns %s" % show(v)[:160]
    ctx.ob("R2", "keyfile-reader", fn_site(eng, rm).loc(), "keyfiles_to_keys " + ("reads name.pri / name.pub in binary mode into PrivateKey.from_bytes / PublicKey.from_bytes, in that order" if ok else "does not mirror the writer: " + why), ok)

    # "keys written to key files load back": the reader turns a file away for its length (what
    # from_bytes checks) and for nothing it finds *in* the bytes - every 32-byte string is a key
    from . import mentions, own_site, refuted_at_defaults

    turned_away = {}
    for q_r in ("common.keyfiles_to_keys", "common.keyfiles_to_bytes"):
        if q_r not in eng.prog.funcs:
            continue
        for p in eng.walk(q_r).paths:
            if p.kind != "raise" or p.value.origin != "explicit" or not all(own_site(eng, st_, q_r) or st_.fn in ("common.keyfiles_to_keys", "common.keyfiles_to_bytes") for st_ in p.value.chain):
                continue
            facts = set(p.facts) | set(p.value.conds)
            if refuted_at_defaults(eng, q_r, (eng.walk(q_r).params[0],), facts):
                continue
            about_reads = [f for f in facts if f[0] in ("truthy", "falsy", "eq", "ne", "cmp", "in", "notin", "ret") and _mentions_read(f)]
            by_length = [f for f in about_reads if _mentions_len_of_read(f) or (f[0] in ("truthy", "falsy") and is_call(f[1], "method:read"))]
            if about_reads and not by_length:
                turned_away.setdefault(p.value.chain[-1].key(), (p.value, about_reads))
    for k, (x, fs) in sorted(turned_away.items()):
        ctx.ob("R2", "keyfile-refused-for-content|%s" % k, x.chain[-1].loc(), "the key-file reader raises %s depending on the bytes it read (%s), not on their number: some 32-byte keys that were written do not load back" % (x.exc, "; ".join(sorted(show_fact(f) for f in fs))[:160]), False)

    # ---- R3 equivalence
    for cls in (PUB, PRIV):
        short = cls.split(".")[-1]
        ie = prog.find_method(cls, "is_equivalent_to")
        sm = eng.summary(ie[1], cls)
        k1, k2 = P(sm.params[-2]), P(sm.params[-1])
        tb = lambda k: eng.expand(eng.repo_call("%s.to_bytes" % cls, k, clsbind=cls))  # noqa: E731
        ok, why = True, ""
        trues = [p for p in sm.paths if p.kind == "return" and p.value == C(True)]
        falses = [p for p in sm.paths if p.kind == "return" and p.value == C(False)]
        others = [p for p in sm.paths if p.kind == "return" and p.value not in (C(True), C(False))]
        if others or not trues or not falses:
            ok, why = False, "does not return a boolean on every path"
        a, b = tb(k1), tb(k2)
        for p in trues:
            st = State(facts=p.facts)
            if not (st.holds(("eq", a, b)) or st.holds(("eq", b, a))):
                ok, why = False, "returns True without to_bytes(k1) == to_bytes(k2)"
            if not st.holds(("is", CallT("builtin:type", [k1]), CallT("builtin:type", [k2]))):
                ok, why = False, "returns True for keys of different types"
            t2 = st.types(k2)
            if not (t2 is not None and all("Ed25519P" in t or t.startswith("obj:common.P") for t in t2)):
                ok, why = False, "the second key is not validated"
        for p in falses:
            st = State(facts=p.facts)
            if not (st.holds(("isnot", CallT("builtin:type", [k1]), CallT("builtin:type", [k2]))) or st.holds(("ne", a, b)) or st.holds(("ne", b, a))):
                ok, why = False, "returns False without a type or byte difference"
        ctx.count("R3.items")
        ctx.ob("R3", "equivalence|%s" % short, fn_site(eng, sm).loc(), "%s.is_equivalent_to %s" % (short, "is the symmetric comparison of raw key bytes between keys of the same type" if ok else "deviates: " + why), ok)

    # ---- R4 key object gate
    ck = eng.walk("common.checkformat_key")
    kx = P(ck.params[0])
    rets = [p for p in ck.paths if p.kind == "return"]
    want = {"obj:cryptography.hazmat.primitives.asymmetric.ed25519.Ed25519PublicKey", "obj:cryptography.hazmat.primitives.asymmetric.ed25519.Ed25519PrivateKey"}
    ok = bool(rets)
    union = set()
    for p in rets:
        ts = State(facts=p.facts).types(kx)
        if ts is None or not all("Ed25519P" in t or t.startswith("obj:common.P") for t in ts):
            ok = False
        else:
            union |= ts
    ok = ok and want <= union
    rejects = [p for p in ck.paths if p.kind == "raise"]
    ok = ok and bool(rejects) and all(eng.prog.exc_is_sub(p.value.exc, "TypeError") for p in rejects)
    ctx.ob("R4", "key-gate", fn_site(eng, ck).loc(), "checkformat_key %s" % ("accepts exactly instances of the two Ed25519 key classes" if ok else "is not the isinstance gate over both Ed25519 key classes"), ok)

    # "the hex under which it files signatures and the signatures it produces" are those of the key
    # it was given: the signer derives the public key from the private key and signs with that
    # private key (C09-R2, re-evaluated here)
    from .c09 import sign_signable_rules

    sign_signable_rules(ctx.sub("DEP-C09"), "R2")


def _const_int(t):
    """value of an integer expression built from constants (32 + 1), else None"""
    if is_const(t) and isinstance(t[2], int) and not isinstance(t[2], bool):
        return t[2]
    if isinstance(t, tuple) and len(t) == 4 and t[0] == "binop" and t[1] in ("+", "-", "*"):
        a, b = _const_int(t[2]), _const_int(t[3])
        if a is not None and b is not None:
            return {"+": a + b, "-": a - b, "*": a * b}[t[1]]
    return None


def _mentions_read(f):
    if isinstance(f, tuple):
        if len(f) == 4 and f[0] == "call" and f[1] == "method:read":
            return True
        return any(_mentions_read(x) for x in f)
    if isinstance(f, frozenset):
        return any(_mentions_read(x) for x in f)
    return False


def _mentions_len_of_read(f):
    if isinstance(f, tuple):
        if len(f) == 4 and f[0] == "call" and f[1] == "builtin:len" and f[2] and is_call(f[2][0], "method:read"):
            return True
        return any(_mentions_len_of_read(x) for x in f)
    if isinstance(f, frozenset):
        return any(_mentions_len_of_read(x) for x in f)
    return False
