"""C06 - declared metadata type is bound to the role by signed content alone."""
from __future__ import annotations

from sa.terms import C, CallT, G, P, Sub, SubC, is_call, is_lit, show, show_fact, subterms
from sa.walker import State, flatten_events

from . import own_site, CHECKER, VSIG, checker_family, call_events, flat, fn_site, loc, mentions

EXPLANATION = (
    "Information-flow rule on verify_delegation. R1: for every exception that a handler in verify_delegation catches "
    "and that thereby lets a path reach verify_signable without the type-vs-role comparison, the conditions under which "
    "it is raised (the guard literals of its raising path, propagated through the callee summaries and rewritten to the "
    "caller's access paths) must not mention any element of untrusted['signatures'] - otherwise an attacker decides, in "
    "the unsigned part of the envelope, whether the type check runs (defect D2). Envelope-level facts that verify_signable "
    "itself requires are exempt. R2: on every accepting path on which the delegating-metadata checker accepted the signed "
    "part, the comparison delegation_name == untrusted['signed']['type'] was evaluated and held, its other branch raising "
    "MetadataVerificationError. R3 (monotonicity under removal of non-counting entries) follows from R1 and the per-entry "
    "decision table of C02, which is re-evaluated here."
)
RULE_TEXT = "obligations: one per caught-exception cause reaching the verifier without the comparison, one per accepting path class, plus the C02 decision table; non-trivial: decided from propagated raise conditions"


def _forced_count(cube, atoms, spec):
    """every completion of the cube satisfies the specification's counting condition"""
    import itertools

    for vals in itertools.product([False, True], repeat=len(atoms)):
        v = dict(zip(atoms, vals))
        if all(v[a] == b for a, b in cube.items()) and not spec(v):
            return False
    return True


def sigmap_elements(conds, U):
    """sub-terms that denote an element (key or value) of U['signatures']"""
    sm = SubC(U, "signatures")
    out = set()
    for c in conds:
        for t in subterms(c):
            if isinstance(t, tuple) and len(t) == 3 and t[0] == "sub" and t[1] == sm:
                out.add(show(t))
            if isinstance(t, tuple) and len(t) == 3 and t[0] == "elem" and t[1] == sm:
                out.add(show(t))
            if isinstance(t, tuple) and len(t) == 2 and t[0] == "nonempty" and t[1] == sm:
                out.add("nonempty(%s)" % show(sm))
    return out


def run(ctx):
    eng = ctx.eng
    ctx.assume("A1", "A3", "A8")
    sm = eng.walk("authentication.verify_delegation")
    name, U, T, gpg = (P(x) for x in sm.params[:4])
    site = fn_site(eng, sm)
    ty = SubC(U, "signed", "type")
    rets = [p for p in sm.paths if p.kind == "return"]

    # ---- R1: handlers that skip the comparison must not depend on the unsigned part
    seen = {}
    n_caught = 0
    for p in rets:
        compared = any(f[0] in ("eq", "ne") and mentions(f, name) and mentions(f, ty) for f in p.facts)
        for ev in flat(p):
            if ev[0] != "caught":
                continue
            n_caught += 1
            hsite, exc, _names, rsite, conds, chain = ev[1], ev[2], ev[3], ev[4], ev[5], ev[6]
            if compared:
                continue
            tainted = sigmap_elements(conds, U)
            key = (hsite.key(), exc, chain[-1].key() if chain else "")
            cur = seen.setdefault(key, [set(), chain, hsite])
            cur[0] |= tainted
    for (hk, exc, ck), (tainted, chain, hsite) in sorted(seen.items()):
        ctx.count("R1.caught_causes")
        ctx.ob(
            "R1",
            "handler-taint|%s|%s|%s" % (hk, exc, ck),
            hsite.loc(),
            "handler lets verification continue without the type comparison after %s raised at %s; this %s"
            % (exc, loc(chain[-1]) if chain else "?", "depends only on the signed part / envelope shape" if not tainted else "depends on the UNSIGNED signature map (an attacker can switch the type check off): " + ", ".join(sorted(tainted))[:300]),
            not tainted,
            {"raise site": chain[-1].text if chain else ""},
        )

    # ---- R2: comparison evaluated whenever the signed part is delegating metadata: every accepting
    # path either established delegation_name == untrusted['signed']['type'], or carries the evidence
    # that the signed part is NOT well-formed delegating metadata (the checker, applied to a value
    # built from untrusted['signed'], failed and was caught)
    checked_paths = 0
    bad = None
    unexcused = None
    for p in rets:
        st = State(facts=p.facts)
        evs = flat(p)
        FAM = checker_family(eng)
        disc_ok = [ev for ev in evs if ev[0] == "call" and ev[2] in FAM and ev[5][0] == "ok" and ev[3] and ev[3][0] != T and mentions(ev[3][0], SubC(U, "signed"))]
        disc_failed = [ev for ev in evs if ev[0] == "call" and ev[2] in FAM and ev[5][0] == "raise" and ev[3] and ev[3][0] != T and (mentions(ev[3][0], SubC(U, "signed")) or ev[3][0] == U)]
        if not disc_ok and not disc_failed:
            # the same evidence through a predicate built on the checker: its summary carries
            # ok(checker(x)) on the True side and notok(checker(x)) on the False side
            for f in st.closure():
                if f[0] in ("ok", "notok") and is_call(f[1], FAM) and f[1][2] and f[1][2][0] != T and (mentions(f[1][2][0], SubC(U, "signed")) or (f[0] == "notok" and f[1][2][0] == U)):
                    (disc_ok if f[0] == "ok" else disc_failed).append(f)
        if not disc_ok and not disc_failed:
            # a predicate asked about the signed part said no, and its every "no" refutes the checker
            for f in st.closure():
                if f[0] == "ret" and f[2] is False and is_call(f[1]) and f[1][1].startswith("repo:") and f[1][2] and (f[1][2][0] == SubC(U, "signed") or mentions(f[1][2][0], SubC(U, "signed"))) and _no_means_not_delegating(eng, f[1]):
                    disc_failed.append(f)
        if not disc_ok and not disc_failed:
            # tests written out in place that refute the schema: the signed part is not a dict, or
            # the type it declares is none of the supported delegating types
            Us = SubC(U, "signed")
            sup = G("const:common.SUPPORTED_DELEGATING_METADATA_TYPES")
            for f in st.closure():
                if f[0] == "nottype" and f[1] == Us and "dict" in f[2]:
                    disc_failed.append(f)
                elif f[0] == "nothas" and f[1] == Us and f[2] in [C(k) for k in REQUIRED_ENTRIES]:
                    disc_failed.append(f)
                elif f[0] == "notin" and f[2] == sup and (f[1] == Sub(Us, C("type")) or (is_call(f[1], "method:get") and f[1][2][:2] == (Us, C("type")))):
                    disc_failed.append(f)
        compared = st.holds(("eq", name, ty)) or st.holds(("eq", ty, name))
        if disc_ok:
            checked_paths += 1
            if not compared:
                bad = p
        elif not compared and not disc_failed:
            unexcused = p
    if unexcused is not None:
        ctx.ob("R2", "accept-without-discriminator", site.loc(), "an accepting path neither compared delegation_name with untrusted['signed']['type'] nor found the signed part not to be delegating metadata: mistyped delegating metadata can be accepted for this role", False, {"decisions on the path": [show_fact(f) for f in unexcused.facts if mentions(f, name)][:8]})
    ctx.count("R2.paths_with_wellformed_signed_part", checked_paths)
    ctx.ob(
        "R2",
        "type-compared",
        site.loc(),
        "on every accepting path where the signed part passed the delegating-metadata checker (%d paths) delegation_name == untrusted['signed']['type'] %s" % (checked_paths, "was established" if bad is None else "was NOT established"),
        bad is None and checked_paths > 0,
        None if bad is None else {"facts about the type on the offending path": [show_fact(f) for f in bad.facts if mentions(f, ty)][:8]},
    )
    n = 0
    for p in sm.paths:
        if p.kind == "raise" and p.value.origin == "explicit" and all(own_site(eng, st_, "authentication.verify_delegation") for st_ in p.value.chain) and (("ne", name, ty) in p.facts or ("ne", ty, name) in p.facts):
            n += 1
            s = p.value.chain[0]
            ctx.ob("R2", "mismatch-error|%s" % s.key(), s.loc(), "a type-for-role mismatch is rejected with %s" % p.value.exc, eng.prog.exc_is_sub(p.value.exc, "MetadataVerificationError"))
            break
    if n == 0:
        ctx.ob("R2", "mismatch-error|missing", site.loc(), "no rejection of a type-for-role mismatch (delegation_name != untrusted['signed']['type']) was found", False)

    # ---- "well-formed delegating metadata" must mean the schema, no more: a checker that rejects
    # more would switch the type comparison off for schema-valid metadata (C14's rule set)
    from . import c14

    c14.run(ctx.sub("DEP-C14"), deps=False)

    entries_independent(ctx, "R3")
    # "the signed portion and valid signatures alone": an entry of the unsigned signature map that is
    # not a valid signature by an authorized key counts for nothing (C01's rule set)
    from . import c01

    c01.run(ctx.sub("DEP-C01"))
    # at the command line the role a file is presented for is its own declared type and nothing
    # else: success is reported only after verify_root (declared type root) or
    # verify_delegation(declared type, ...) accepted (C17's rule set, re-evaluated here)
    from . import c17

    c17.run(ctx.sub("DEP-C17"))
    mode_not_from_unsigned_part(ctx, "R4")


def mode_not_from_unsigned_part(ctx, rule):
    """"an accepted envelope remains accepted when reduced to its valid authorized signatures":
    nothing in the unsigned signature map may choose how the envelope is judged - in every call of
    a verifier anywhere in the repository the signature-mode argument is a constant, a parameter,
    or computed from something other than the envelope's 'signatures' part"""
    from sa.callgraph import CallGraph
    from sa.effects import all_events

    eng, prog = ctx.eng, ctx.prog
    verifiers = {"authentication.verify_delegation": 3, "authentication.verify_signable": 3}
    cg = CallGraph(prog)
    callers = sorted(q for q, sites in cg.sites.items() if any(kind == "repo" and tgt in verifiers for _n, kind, tgt in sites))
    n = 0
    seen = set()
    for q in callers:
        fi = prog.funcs[q]
        if fi.parent is not None:
            continue
        sm = eng.walk(q)
        for p in sm.paths:
            for ev in all_events(p.events):
                if ev[0] != "call" or not isinstance(ev[2], str) or ev[2].split("[")[0].split("<")[0][5:] not in verifiers or (ev[1], "mode") in seen:
                    continue
                callee = ev[2].split("[")[0].split("<")[0][5:]
                hit = eng.callee_index.get(ev[2])
                order = list(hit[2]) if hit else []
                if "gpg" not in order or order.index("gpg") >= len(ev[3]):
                    continue
                seen.add((ev[1], "mode"))
                n += 1
                mode = eng.expand(ev[3][order.index("gpg")])
                env_arg = ev[3][1] if callee.endswith("verify_delegation") else ev[3][0]
                tainted = mentions(mode, SubC(eng.expand(env_arg), "signatures")) or mentions(mode, SubC(env_arg, "signatures"))
                ctx.ob(rule, "mode-source|%s|%s" % (q, ev[1].key()), ev[1].loc(), "%s calls %s with a signature mode that %s" % (q, callee.split(".")[-1], "does not depend on the envelope's unsigned signature map" if not tainted else "is computed from the envelope's unsigned 'signatures' part (%s): adding or removing an entry that counts for nothing changes how all the others are judged" % show(mode)[:100]), not tainted)
    ctx.count(rule + ".verifier_calls", n)
    ctx.floor(rule + ".verifier_calls", 2)


def entries_independent(ctx, rule):
    """every signature entry is counted or skipped on its own merits (C02's decision table): no
    entry's fate depends on other entries or on the order of the map, no entry aborts the loop"""
    eng = ctx.eng
    from .c02 import ATOMS, cube_of, justified_skip, spec
    from .vs import VSModel

    m = VSModel(eng)
    if m.loop_base != m.sigmap:
        ctx.note("%s not evaluated: verify_signable does not iterate the signature map (C02's decision table is undefined for this shape)" % rule)
        return
    from .vs import le_facts

    unjust = 0
    why = []
    lenG = CallT("builtin:len", [m.G]) if m.G is not None else None
    acc = frozenset({(lenG, -1), (m.threshold, 1)}) if lenG is not None else None
    for bp in m.body:
        if bp.kind == "raise":
            # (a body path of a loop that sits in an inlined helper is listed as the helper sees it;
            # whether it exists for this caller is decided where the verifier's own paths are built)
            if not any(esc.value.exc == bp.payload.exc and esc.value.chain and bp.payload.chain and esc.value.chain[-1] == bp.payload.chain[-1] for esc in m.loop_escapes):
                continue
            unjust += 1
            why.append("an exception leaves the loop (%s)" % bp.payload.exc)
            continue
        early_accept = acc is not None and any(co == acc and c <= 0 for _f, (co, c) in le_facts(bp.facts))
        if bp.kind in ("break", "return") and not bp.stores and not early_accept:
            unjust += 1
            why.append("the loop is left by '%s' on a condition other than the accept condition" % bp.kind)
            continue
        # what decides this entry's fate may mention the entry, the call's arguments and values
        # computed from them - not what earlier iterations left behind (variables carried round
        # the loop, the set of entries counted so far) and not module-level state
        carried = [f for f in bp.facts if f[0] in ("eq", "ne", "cmp", "notcmp", "truthy", "falsy", "ret", "is", "isnot", "in", "notin") and _loop_carried(f, m.G) and not _accept_gate_test(f, lenG, m.threshold)]
        if carried:
            unjust += 1
            why.append("the decision depends on what earlier entries left behind: %s" % show_fact(carried[0])[:120])
    ctx.ob(rule, "entries-independent", fn_site(eng, m.sm).loc(), "each signature entry is counted or skipped on its own merits (%d loop-body paths, %d unjustified skips/aborts%s): removing non-counting entries cannot change the counted set" % (len(m.body), unjust, ": " + "; ".join(sorted(set(why)))[:300] if why else ""), unjust == 0)


def _accept_gate_test(f, lenG, threshold):
    """a comparison of the number of entries counted so far with the threshold (the test of an
    early exit once enough have been counted): it decides whether to go on at all, not what
    happens to an entry"""
    from sa.terms import linear_cmp

    if lenG is None or f[0] != "cmp":
        return False
    lf = linear_cmp(f[1], f[2], f[3])
    return lf is not None and {k for k, _v in lf[1]} <= {lenG, threshold}


def _loop_carried(f, G):
    """does the fact mention a variable carried round the loop (a value an earlier iteration may
    have set), the accumulator, or a mutable module-level object"""

    def go(t):
        if isinstance(t, tuple):
            if len(t) == 3 and t[0] == "fresh" and isinstance(t[1], str) and t[1].startswith(("loopvar_", "while_")):
                return True
            if G is not None and t == G:
                return True
            return any(go(y) for y in t)
        if isinstance(t, frozenset):
            return any(go(y) for y in t)
        return False

    return go(f)


REQUIRED_ENTRIES = ("type", "metadata_spec_version", "delegations", "expiration")


def _no_means_not_delegating(eng, callterm):
    """every False-returning path of the predicate holds evidence that its argument is not
    (the signed part of) well-formed delegating metadata: the checker failed on an envelope built
    from it, it is not a dict, or a required entry is missing"""
    from sa.compare import _as_set_literal
    from sa.terms import lit_const_values

    hit = eng.callee_index.get(callterm[1])
    if hit is None:
        return False
    fi, clsbind, order = hit
    inline = frozenset(q for q, f in eng.prog.funcs.items() if f.mod.short == fi.mod.short and q.split(".")[-1].startswith("_"))
    sm = eng.summary(fi, clsbind, inline)
    x = P(sm.params[0])
    falses = [p for p in sm.paths if p.kind == "return" and p.value == C(False)]
    if not falses or any(p.kind == "return" and p.value not in (C(True), C(False)) for p in sm.paths):
        return False

    class _W:
        def const_literal(self, g, _s=None):
            return eng.const_literal(g[1][6:]) if g[0] == "global" and g[1].startswith("const:") else None

    for p in falses:
        ok = False
        for f in p.facts:
            if f[0] == "notok" and is_call(f[1], checker_family(eng)) and f[1][2] and (f[1][2][0] == x or mentions(f[1][2][0], x)):
                ok = True
            elif f[0] == "nottype" and f[1] == x and "dict" in f[2]:
                ok = True
            elif f[0] == "nothas" and f[1] == x and f[2] in [C(k) for k in REQUIRED_ENTRIES]:
                ok = True
            elif f[0] == "notcmp" and f[1] == "<=" and is_call(f[3], "builtin:set") and f[3][2] == (x,):
                lit = _as_set_literal(_W(), f[2], None)
                vals = lit_const_values(lit) if is_lit(lit, "set") else None
                if vals is not None and vals and set(vals) <= set(REQUIRED_ENTRIES):
                    ok = True  # not (REQUIRED' <= set(x)): some required entry is missing
        if not ok:
            return False
    return True
