"""C02 - threshold completeness: enough valid authorized signers always suffice."""
from __future__ import annotations

import itertools

from sa.terms import C, CallT, P, Sub, is_call, show, show_fact, subst
from sa.walker import State, flatten_events

from . import VERIFIERS, loc, validators
from .vs import VSModel, envelope, hexconj, keylist, le_facts, posint

EXPLANATION = (
    "R1: the escape set of one iteration of the per-entry loop of the envelope verifier is empty for an unconstrained "
    "key/value (nothing a junk entry contains can abort verification); R2: the per-entry decision function extracted "
    "from the loop-body paths equals the specification count <=> H & A & ((G & Pg & Vg) | (~G & Ps & Vr)) on all 128 "
    "valuations of the seven atoms (exhaustive table; a skip that the specification does not justify is an extra "
    "condition); R3: after the loop the only rejection is len(counted) < threshold (exactly, not stronger) and every "
    "rejection before the loop is the negation of an argument gate or the payload failing to serialize; R4: signer and "
    "verifier agree on serializer, entry field, hex codec and key filing; R5: text printed by verifiers/validators is "
    "ASCII-safe on every path (no UnicodeEncodeError whatever the stdout encoding); R6: every dotted module chain used "
    "by the verifiers lies in the static import closure of its module."
)
RULE_TEXT = "obligations: loop escapes, 128 truth-table rows, unjustified skips, post-/pre-loop rejections, agreement items, print sinks, module chains; non-trivial = decided from path facts / events rather than syntactically"

ATOMS = ["H", "A", "G", "Pg", "Ps", "Vg", "Vr"]


def spec(v):
    return v["H"] and v["A"] and ((v["G"] and v["Pg"] and v["Vg"]) or (not v["G"] and v["Ps"] and v["Vr"]))


def role_of_call(eng, callterm, m):
    """which specification atom a predicate/raiser call on the key or the entry decides"""
    if not (is_call(callterm) and callterm[1].startswith("repo:") and callterm[1] in eng.callee_index and len(callterm[2]) == 1):
        return None
    fi, clsbind, order = eng.callee_index[callterm[1]]
    sm = eng.summary(fi, clsbind)
    facts = None
    for rk, g in sm.groups.items():
        if rk is True or rk not in (True, False):
            fs = frozenset(subst(f, {P(order[0]): callterm[2][0]}) for f in g["facts"])
            facts = fs if facts is None else facts & fs
    if facts is None:
        return None
    st = State(facts=facts)
    arg = callterm[2][0]
    if arg == m.key and hexconj(st, m.key, 64):
        return "H"
    if arg == m.entry:
        sig = Sub(m.entry, C("signature"))
        if st.holds(("type", m.entry, frozenset(["dict"]))) and st.holds(("has", m.entry, C("signature"))) and hexconj(st, sig, 128):
            if st.holds(("has", m.entry, C("other_headers"))) and hexconj(st, Sub(m.entry, C("other_headers"))):
                return "Pg"
            return "Ps"
    return None


def _is_raiser(eng, callee):
    """a checker that answers by raising (checkformat_*): it has no path returning a bool constant"""
    hit = eng.callee_index.get(callee)
    if hit is None:
        return False
    sm = eng.summary(hit[0], hit[1])
    return not any(rk in (True, False) for rk in sm.groups)


class Exc_note:
    """an exception record with an explanation appended to its `why` (for the report text)"""

    def __init__(self, x, note):
        self.exc, self.chain, self.conds, self.origin = x.exc, x.chain, x.conds, x.origin
        self.why = "%s - %s" % (x.why, note)


def _validator_stricter_than_keys_gate(eng, m, p):
    """the failing call on this pre-loop path is a validator of the repository applied to the
    authorized-keys argument, and that validator has a rejecting path that refutes neither
    "is a list" nor "every element is a 64-hex key" -> description, else None"""
    from .kinds import _nottype
    from .c15 import _elems, hex_refuted

    x = p.value
    for ev, _d in flatten_events(p.events):
        if ev[0] == "call" and ev[5][0] == "raise" and isinstance(ev[2], str) and ev[2].startswith("repo:common.") and ev[3] and ev[3][0] == m.authorized:
            q = ev[2][5:].split("[")[0].split("<")[0]
            fi = eng.prog.funcs.get(q)
            if fi is None:
                continue
            inline = frozenset(n for n, f in eng.prog.funcs.items() if f.mod.short == "common") - {q}
            sm = eng.summary(fi, None, inline)
            a = P(sm.params[0])
            for rp in sm.paths:
                if rp.kind != "raise":
                    continue
                facts = set(rp.facts) | set(rp.value.conds)
                refuted = _nottype(facts, a, ["list"]) or any(hex_refuted(facts, t, 64) for f in facts for t in _elems(f, a)) or any(f[0] == "falsy" and is_call(f[1], "builtin:all") for f in facts)
                if not refuted:
                    return "%s also rejects for another reason (%s at %s)" % (q, rp.value.exc, rp.value.chain[-1].loc())
    return None


def cube_of(eng, m, bp):
    """atom valuation literals established on one loop-body path + unexplained decision literals"""
    cube, extra = {}, []
    for f in bp.facts:
        k = f[0]
        if k == "ret":
            r = role_of_call(eng, f[1], m)
            if r:
                cube[r] = f[2] if r not in cube else cube[r]
            elif _mentions_entry(f[1], m):
                extra.append(f)
        elif k in ("has", "nothas") and f[1] == m.authorized and f[2] == m.key:
            cube["A"] = k == "has"
        elif k in ("truthy", "falsy") and f[1] == m.gpg:
            cube["G"] = k == "truthy"
        elif k in ("eq", "ne") and f[1] == m.gpg and f[2] in (C(True), C(False)):
            cube["G"] = (k == "eq") == f[2][2]
    # raisers used as filters (notok of a grammar checker caught by a handler)
    for f in bp.facts:
        if f[0] in ("notok", "ok") and is_call(f[1]) and f[1][1].startswith("repo:") and _is_raiser(eng, f[1][1]):
            r = role_of_call(eng, f[1], m)
            if r and r not in cube:
                cube[r] = f[0] == "ok"
    # tests written out in the loop itself (isinstance / key presence / hex tests on the entry): what
    # they establish on this path may refute the entry grammars
    from .kinds import gpg_refuted, rawgpg_refuted

    fs = set(bp.facts)
    from .c15 import predicate_exact

    for f in bp.facts:
        # `not is_hex_signature(entry["signature"])`: a predicate that decides exactly the 128-hex
        # grammar said no - neither entry grammar can hold
        if f[0] == "ret" and f[2] is False and is_call(f[1]) and f[1][1].startswith("repo:") and f[1][2] == (Sub(m.entry, C("signature")),):
            if predicate_exact(eng, f[1][1][5:].split("[")[0].split("<")[0], "hex", 128)[0]:
                cube.setdefault("Ps", False)
                cube.setdefault("Pg", False)
    if "Ps" not in cube and rawgpg_refuted(fs, m.entry):
        cube["Ps"] = False
    if "Pg" not in cube and gpg_refuted(fs, m.entry):
        cube["Pg"] = False
    for gpg, atom in ((True, "Vg"), (False, "Vr")):
        hits, near = m._verify_events(bp, gpg=gpg)
        failed = [ev for ev in bp.events if ev[0] == "call" and ev[2] == "method:verify" and ev[5] == ("raise", "InvalidSignature")]
        mode_ok = cube.get("G") is gpg
        if hits and mode_ok:
            cube[atom] = True
        elif failed and mode_ok:
            cube[atom] = False
    return cube, extra


def _mentions_entry(t, m):
    def go(x):
        if x == m.key or x == m.entry:
            return True
        return isinstance(x, tuple) and any(go(y) for y in x)

    return go(t)


def justified_skip(cube):
    """no completion of the cube makes the specification say 'count'"""
    for vals in itertools.product([False, True], repeat=len(ATOMS)):
        v = dict(zip(ATOMS, vals))
        if all(v[a] == b for a, b in cube.items()) and spec(v):
            return False
    return True


def loop_total(ctx, m, fn_site, rule="R1"):
    """nothing leaves an iteration of the per-entry loop by an exception (also used by C13: a junk
    entry must end in 'insufficient signatures', not in an internal error of another class)"""
    seen = set()
    for p in m.loop_escapes:
        x = p.value
        k = (x.exc, x.chain[-1].key())
        if k in seen:
            continue
        seen.add(k)
        ctx.ob(
            rule,
            "loop-escape|%s|%s" % k,
            loc(x.chain[-1]),
            "%s (%s) can escape the per-entry loop: one malformed entry aborts verification of an otherwise sufficient envelope" % (x.exc, x.why),
            False,
            {"call chain": " <- ".join(loc(s) for s in x.chain), "construct": x.chain[-1].text},
        )
    if not m.loop_escapes:
        ctx.ob(rule, "loop-body-total", fn_site.loc(), "loop body walked with an unconstrained key/value: %d paths, none leaves the loop by an exception" % len(m.body), True)
    ctx.count(rule + ".body_paths", len(m.body))
    ctx.floor(rule + ".body_paths", 6)



def run(ctx, deps=True):
    eng = ctx.eng
    ctx.assume("A1", "A2", "A3", "A5", "A6", "A8")
    m = VSModel(eng)
    fn_site = eng.prog.site(m.sm.fi.mod, m.sm.fi.node, m.sm.fi.qualname)
    if m.loop_base != m.sigmap:
        # the per-entry loop runs over something made from the signature map by position
        # (dropwhile / takewhile / islice): which entries are looked at at all depends on where they
        # stand in the (unsigned, freely ordered) map, not on what they are
        from . import mentions

        cut = {}
        for p in m.sm.paths:
            for ev, _d in flatten_events(p.events):
                if ev[0] == "call" and ev[2] in ("ext:itertools.dropwhile", "ext:itertools.takewhile", "ext:itertools.islice") and mentions(ev[3], m.sigmap):
                    cut.setdefault(ev[1].key(), ev)
        for k, ev in sorted(cut.items()):
            ctx.ob("R2", "entries-selected-by-position|%s" % k, ev[1].loc(), "verify_signable runs its per-entry checks over %s of the signature map: whether an entry is looked at (or screened) depends on its position among the others, so sufficient signers can be missed and entries can bypass a per-entry test" % ev[2][4:], False)
        lb = m.loop_base
        if not cut and isinstance(lb, tuple) and len(lb) == 3 and lb[0] == "sub" and isinstance(lb[2], tuple) and lb[2][:2] == ("lit", "slice") and mentions(lb[1], m.sigmap):
            ctx.ob("R2", "entries-selected-by-position|slice", fn_site.loc(), "verify_signable runs its per-entry checks over a slice of the signature map (%s): entries outside it are never looked at, wherever the sufficient signers stand" % show(lb)[:80], False)
            cut = {"slice": None}
        if cut:
            return  # (the decision table below is defined for a loop over the map itself)
    m.require_sigmap_loop()

    # ---- R1: nothing leaves a loop iteration
    loop_total(ctx, m, fn_site, "R1")

    # ---- R2: decision function
    cubes = []
    for bp in m.body:
        if bp.kind == "raise":
            continue
        if bp.kind == "break" and not bp.stores and m.G is not None:
            # `if len(counted) >= threshold: break`: an early exit once the accept condition holds -
            # the entries not looked at can only add to a count that already suffices
            lenG = CallT("builtin:len", [m.G])
            acc = frozenset({(lenG, -1), (m.threshold, 1)})
            if any(co == acc and c <= 0 for _f, (co, c) in le_facts(bp.facts)):
                ctx.count("R2.early_accept_exits")
                continue
        cube, extra = cube_of(eng, m, bp)
        cubes.append((bp, cube))
        out = bp.outcome
        if out == "skip" and not justified_skip(cube):
            evs = [ev for ev in bp.events if ev[0] in ("call",)]
            s = evs[-1][1] if evs else fn_site
            ctx.ob(
                "R2",
                "unjustified-skip|%s" % "&".join("%s=%s" % (a, int(b)) for a, b in sorted(cube.items())),
                s.loc(),
                "a loop-body path skips the entry although the specification can still require it to count (extra skip condition)",
                False,
                {"atoms on the path": {a: b for a, b in sorted(cube.items())}, "other decisions on the path": [show_fact(f) for f in extra][:5]},
            )
        elif out not in ("skip", "count", "count+return", "return"):
            s = fn_site
            ctx.ob("R2", "loop-exit|%s" % out, s.loc(), "a loop-body path leaves the loop by '%s': entries after this one are never examined" % out, False)
    # the predicates that decide H / Pg / Ps must decide exactly those grammars: a stricter one
    # would skip well-formed entries (a looser one is C01's concern)
    from .c15 import predicate_exact

    role_kind = {"H": ("hex", 64), "Pg": ("gpg", None), "Ps": ("raw|gpg", None)}
    preds = {}
    for bp in m.body:
        for f in bp.facts:
            if f[0] == "ret":
                r = role_of_call(eng, f[1], m)
                if r in role_kind:
                    preds[f[1][1][5:].split("[")[0]] = r
    for q, r in sorted(preds.items()):
        okp, why = predicate_exact(eng, q, *role_kind[r])
        ctx.count("R2.role_predicates")
        ctx.ob("R2", "predicate-exact|%s" % q, fn_site.loc(), "%s, which decides atom %s in the per-entry loop, %s" % (q, r, "is True exactly on the %s grammar" % role_kind[r][0] if okp else "does not decide exactly the %s grammar: %s" % (role_kind[r][0], why)), okp)
    rows = bad_rows = 0
    for vals in itertools.product([False, True], repeat=len(ATOMS)):
        v = dict(zip(ATOMS, vals))
        want = "count" if spec(v) else "skip"
        matching = [(bp, c) for bp, c in cubes if all(v[a] == b for a, b in c.items())]
        outs = {"count" if bp.outcome == "count+return" else bp.outcome for bp, _c in matching}
        rows += 1
        # completeness is this property's concern: where the specification says "count" the entry must
        # count; where it says "skip" the entry may be skipped or counted (counting more than the
        # specification is soundness - C01's rule set, re-evaluated through C03/C05), but the loop goes on
        ok = outs == {want} if want == "count" else (bool(outs) and outs <= {"skip", "count"})
        if not ok:
            bad_rows += 1
            if bad_rows <= 4:
                ctx.ob("R2", "table-row|%s" % "".join(str(int(x)) for x in vals), fn_site.loc(), "for H,A,G,Pg,Ps,Vg,Vr = %s the loop body's outcome is %s but the specification says %s" % (vals, sorted(outs) or "none", want), False)
    ctx.ob("R2", "decision-table", fn_site.loc(), "per-entry decision function compared with the specification on all %d valuations of %s: %d disagreement(s)" % (rows, ",".join(ATOMS), bad_rows), bad_rows == 0, {"cubes": [{"outcome": bp.outcome, **{a: int(b) for a, b in sorted(c.items())}} for bp, c in cubes]})
    ctx.info["exhaustive"] = True
    ctx.info["truth_table_rows"] = rows
    ctx.count("R2.count_paths", len([1 for bp, _c in cubes if bp.outcome == "count"]))
    ctx.count("R2.skip_paths", len([1 for bp, _c in cubes if bp.outcome == "skip"]))
    ctx.floor("R2.count_paths", 2)
    ctx.floor("R2.skip_paths", 5)

    # ---- R3: accept gate exact; rejections justified
    if m.G is not None:
        lenG = CallT("builtin:len", [m.G])
        acc = frozenset({(lenG, -1), (m.threshold, 1)})
        rej = frozenset({(lenG, 1), (m.threshold, -1)})
        for i, p in enumerate(m.returns):
            consts = [c for _f, (co, c) in le_facts(p.facts) if co == acc]
            exact = bool(consts) and max(consts) == 0
            ctx.ob("R3", "accept-exact" if exact else "accept-exact|path%d" % i, fn_site.loc(), "accepting exit requires %s" % ("exactly len(counted) >= threshold" if exact else "more than len(counted) >= threshold (sufficient signers could be rejected)" if consts else "no recognisable threshold comparison"), exact or not consts)
        for p in m.post_raises:
            x = p.value
            consts = [c for _f, (co, c) in le_facts(p.facts) if co == rej and c >= 1]
            ok = bool(consts) and x.origin == "explicit"
            ctx.count("R3.post_loop_rejections")
            ctx.ob("R3", "post-loop-reject|%s" % x.chain[-1].key(), loc(x.chain[-1]), "rejection after the loop %s" % ("happens only under len(counted) < threshold" if ok else "is not the threshold rejection: %s (%s)" % (x.exc, x.why)), ok)
    for p in m.pre_raises:
        x = p.value
        st = State(facts=p.facts)
        gates_hold = not envelope(st, m.signable) and not keylist(st, m.authorized) and not posint(st, m.threshold)
        is_payload = len(x.chain) >= 2 and any("canonserialize" in (s.text or "") for s in x.chain[:1]) or _from_serializer(x)
        ok = (not gates_hold) or is_payload
        if ok and not is_payload:
            # the rejection comes out of a validator applied to the list of authorized keys: that
            # validator may reject only what the gate rejects (a non-list, a non-key element) - one
            # that also refuses, say, a repeated key turns valid calls away
            stricter = _validator_stricter_than_keys_gate(eng, m, p)
            if stricter:
                ok = False
                x = Exc_note(x, stricter)
        if not ok:
            from . import refuted_at_defaults

            # a rejection of an ill-typed value of an optional parameter the property does not speak
            # about (with the documented four arguments it cannot happen)
            ok = refuted_at_defaults(eng, "authentication.verify_signable", tuple(m.sm.params[:4]), set(p.facts) | set(x.conds))
        ctx.count("R3.pre_loop_rejections")
        ctx.ob("R3", "pre-loop-reject|%s|%s" % (x.exc, x.chain[-1].key()), loc(x.chain[-1]), "rejection before the loop (%s: %s) %s" % (x.exc, x.why, "is the negation of an argument gate or an unserializable payload" if ok else "happens although all three argument gates hold: an extra rejection condition"), ok)

    # ---- R5: stdout taint in every validator/verifier
    _print_sinks(ctx)

    # ---- R6: import closure
    n = 0
    for q in VERIFIERS:
        sm = eng.walk(q)
        for p in sm.paths:
            for ev, _d in flatten_events(p.events):
                if ev[0] == "attrchain":
                    n += 1
                    if ev[4] is not None:
                        ctx.ob("R6", "unimported-chain|%s" % ev[1].key(), ev[1].loc(), "module chain %s: submodule %s is not imported and not in the static import closure" % (".".join(ev[2]), ev[4]), False)
    ctx.ob("R6", "chains", "authentication.py", "%d evaluations of dotted module chains on verifier paths: all inside the static import closure" % n, not ctx.failed("R6"))

    # ---- R4: writer/reader agreement (shared with C09)
    from .signer import agreement

    agreement(ctx, "R4")
    # "the shipped fixtures and what earlier releases signed still verify": both sides use the one
    # serializer in its published configuration (C07-R1)
    from .c07 import serializer_config

    serializer_config(ctx.sub("DEP-C07"), published=True)

    # ---- "... and everything built on it": the callers must hand the verifier exactly the keys and
    # threshold of the rule they implement, else sufficient signers are turned away one level up
    if deps:
        from . import c03, c05

        c03.run(ctx.sub("DEP-C03"), deps=False)
        c05.run(ctx.sub("DEP-C05"), deps=False)


def _from_serializer(x):
    return "json.dumps" in x.why


def _print_sinks(ctx, anchors=None, rule="R5"):
    eng = ctx.eng
    if anchors is None:
        anchors = validators(eng.prog) + VERIFIERS
    seen = {}
    for q in anchors:
        sm = eng.walk(q)
        for p in sm.paths:
            for ev, _d in flatten_events(p.events):
                _collect_prints(ev, seen, p.facts, eng)
    for key, (site, unsafe) in sorted(seen.items()):
        ctx.count(rule + ".print_sinks")
        ctx.ob(
            rule,
            "print-sink|%s" % key,
            site.loc(),
            "print in %s %s" % (site.fn, "emits only ASCII-safe text" if not unsafe else "emits untrusted text that may not be encodable on stdout: " + ", ".join(sorted(unsafe))),
            not unsafe,
        )


class _PrintCtx:
    """what tables.ascii_safe_leaf needs: the facts in force and constant resolution"""

    def __init__(self, eng, facts):
        from .hexlang import _W

        self.s = State(facts=set(facts))
        self.w = _W(eng)


def _collect_prints(ev, seen, facts, eng):
    if ev[0] == "print":
        from sa.tables import ascii_safe_leaf

        k = ev[1].key()
        cur = seen.setdefault(k, (ev[1], set()))
        # pieces judged unsafe where the print stands (possibly inside a helper that prints its
        # arguments) are judged again with what this path of the analysed function knows
        pc = _PrintCtx(eng, facts)
        from sa.terms import string_leaves

        for lf0 in ev[3]:
            # (a helper that prints its argument: after substitution the leaf is the caller's whole
            # string-building expression - judged piece by piece)
            for lf in string_leaves(lf0):
                if not ascii_safe_leaf(pc, lf):
                    cur[1].add(show(lf))
    elif ev[0] == "loop":
        for bp in ev[4]:
            for ev2, _d in flatten_events(bp[2]):
                _collect_prints(ev2, seen, set(facts) | set(bp[4]), eng)
