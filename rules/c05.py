"""C05 - delegation check uses exactly the named role's keys and threshold."""
from __future__ import annotations

from sa.terms import C, CallT, P, Sub, SubC, show, show_fact
from sa.walker import State

from . import own_site, CHECKER, VSIG, checked_ok, call_events, flat, fn_site, loc, mentions

EXPLANATION = (
    "Walk of verify_delegation (all paths). On every accepting path: R1 the trusted side passed the delegating-metadata "
    "checker; R2 the membership guard has(trusted.signed.delegations, <delegation_name parameter>) holds and its negation "
    "raises UnknownRoleError; R3 there is a successful verify_signable(<untrusted parameter>, K, t, gpg=<gpg parameter>) with "
    "K / t = trusted.signed.delegations[<delegation_name parameter>].pubkeys / .threshold - index is the parameter, root is "
    "the trusted parameter (access paths, not names); R4 delegation_name is a str and gpg a boolean. R5: every rejecting path "
    "is caused by an argument gate, the trusted checker, the envelope check, the type-for-role comparison, the unknown role "
    "or verify_signable itself - nothing else rejects properly signed metadata."
)
RULE_TEXT = "obligations per clause over all accepting paths and per distinct rejection cause; non-trivial: decided from path facts / call events with parameter-rooted access paths"


def run(ctx, deps=True):
    eng = ctx.eng
    ctx.assume("A1", "A3", "A8")
    sm = eng.walk("authentication.verify_delegation")
    if len(sm.params) < 4:
        from sa import AnalysisError

        raise AnalysisError("verify_delegation no longer takes (delegation_name, untrusted, trusted, gpg)")
    name, U, T, gpg = (P(x) for x in sm.params[:4])
    site = fn_site(eng, sm)
    D = SubC(T, "signed", "delegations")
    K, th = Sub(Sub(D, name), C("pubkeys")), Sub(Sub(D, name), C("threshold"))
    rets = [p for p in sm.paths if p.kind == "return"]
    ctx.count("accepting_paths", len(rets))
    agg = {}

    def note(key, ok, good, bad, detail=None):
        cur = agg.setdefault(key, [True, good, None])
        if not ok and cur[0]:
            cur[0], cur[1], cur[2] = False, bad, detail

    for p in rets:
        st = State(facts=p.facts)
        note("R1|trusted-checked", checked_ok(st, CHECKER, T), "every accepting path validated the trusted metadata with the delegating-metadata checker", "an accepting path did not validate the trusted metadata")
        note("R2|role-present", st.holds(("has", D, name)), "every accepting path established delegation_name in trusted.signed.delegations", "an accepting path did not establish that the named role is delegated (unknown role could fall through)")
        calls = call_events(p, VSIG)
        hit = [ev for ev in calls if len(ev[3]) >= 4 and ev[3][0] == U and ev[3][1] == K and ev[3][2] == th and ev[3][3] == gpg]
        note(
            "R3|verify-with-role-rules",
            bool(hit),
            "every accepting path contains a successful verify_signable(untrusted, trusted.signed.delegations[delegation_name].pubkeys, ...threshold, gpg=gpg)",
            "an accepting path lacks a successful verify_signable with the named role's keys and threshold from the trusted side",
            {"verify_signable calls on the path": ["verify_signable(%s)" % ", ".join(show(a) for a in ev[3]) for ev in calls]},
        )
        note("R4|name-is-str", st.holds(("type", name, frozenset(["str"]))), "delegation_name is a str on every accepting path", "delegation_name is not checked to be a str")
        gpg_ok = st.holds(("type", gpg, frozenset(["bool"]))) or any(f[0] == "in" and f[1] == gpg for f in p.facts)
        note("R4|gpg-is-bool", gpg_ok, "gpg is restricted to True/False on every accepting path", "gpg is not restricted to a boolean")
    if not rets:
        ctx.ob("R3", "never-accepts", site.loc(), "verify_delegation has no accepting path", False)
    for key, (ok, text, detail) in sorted(agg.items()):
        rule, rest = key.split("|", 1)
        ctx.count(rule + ".instances")
        ctx.ob(rule, rest, site.loc(), text + " (%d accepting paths)" % len(rets), ok, detail)

    # unknown role raises the unknown-role error
    n = 0
    for p in sm.paths:
        if p.kind == "raise" and p.value.origin == "explicit" and all(own_site(eng, st_, "authentication.verify_delegation") for st_ in p.value.chain) and ("nothas", D, name) in p.facts:
            n += 1
            s = p.value.chain[0]
            ctx.ob("R2", "unknown-role-error|%s" % s.key(), s.loc(), "an undelegated role is rejected with %s" % p.value.exc, eng.prog.exc_is_sub(p.value.exc, "UnknownRoleError"))
            break
    if n == 0:
        ctx.ob("R2", "unknown-role-error|missing", site.loc(), "no explicit rejection of an undelegated role was found", False)

    # ---- R5: rejection causes
    seen = set()
    for p in sm.paths:
        if p.kind != "raise":
            continue
        x = p.value
        cause = _cause(eng, p, x, name, U, T, gpg, D, K, th)
        k = (cause or "other", x.exc, x.chain[0].key())
        if k in seen:
            continue
        seen.add(k)
        ctx.count("R5.rejection_causes")
        ctx.ob("R5", "reject|%s|%s|%s" % k, loc(x.chain[0]), "rejection %s at %s %s" % (x.exc, x.chain[0].text[:60], "is caused by: " + cause if cause else "is not caused by any clause of the delegation rule: " + x.why), cause is not None)
    ctx.floor("R3.instances", 1)

    # ---- "met by valid signatures" is C01's rule set, re-evaluated here
    if deps:
        from . import c01, c02

        c01.run(ctx.sub("DEP-C01"))
        # "properly signed metadata is accepted" also needs the verifier's completeness (C02)
        c02.run(ctx.sub("DEP-C02"), deps=False)
        # "well-formed trusted metadata" is what the delegating-metadata checker accepts: it must
        # accept exactly the schema, or properly signed metadata is turned away with it (C14's
        # rule set, re-evaluated here)
        from . import c14

        c14.run(ctx.sub("DEP-C14"), deps=False)


def _cause(eng, p, x, name, U, T, gpg, D, K, th):
    from . import refuted_at_defaults

    if refuted_at_defaults(eng, "authentication.verify_delegation", (name[1], U[1], T[1], gpg[1]), set(p.facts) | set(x.conds)):
        return "an optional parameter outside the documented signature has a non-default value"
    from .vs import envelope

    top = x.chain[0]
    facts = p.facts
    st = State(facts=facts)
    if x.origin == "explicit" and all(own_site(eng, st_, "authentication.verify_delegation") for st_ in x.chain):
        # a deliberate rejection needs the negation of a clause on its path
        if ("nothas", D, name) in facts:
            return "role is delegated by the trusted metadata"
        ty = SubC(U, "signed", "type")
        if ("ne", name, ty) in facts or ("ne", ty, name) in facts:
            # only delegating metadata is subject to the type-for-role comparison: the path must
            # hold the evidence that the signed part passed the delegating-metadata checker
            from . import mentions

            from . import checker_family

            FAM = checker_family(eng)
            disc_ok = [ev for ev in flat(p) if ev[0] == "call" and ev[2] in FAM and ev[5][0] == "ok" and ev[3] and ev[3][0] != T and mentions(ev[3][0], SubC(U, "signed"))]
            if not disc_ok:
                # ... or the same evidence through a predicate built on the checker
                # (is_delegating_metadata(x) is True carries ok(checker(x)) from the predicate's summary)
                from sa.terms import is_call

                disc_ok = [f for f in st.closure() if f[0] == "ok" and is_call(f[1], FAM) and f[1][2] and f[1][2][0] != T and mentions(f[1][2][0], SubC(U, "signed"))]
            if disc_ok:
                return "declared type equals the role (C06)"
            return None
        if any(f[0] == "nottype" and f[1] == name for f in facts):
            return "delegation_name is a str"
        if any(f[0] in ("notin", "nottype") and f[1] == gpg for f in facts):
            return "gpg is a boolean"
        # spelled-out type preconditions that the validators / the envelope verifier enforce anyway,
        # with the same class: an argument that is not a dictionary, a key list that is not a list,
        # a threshold that is not an integer
        if eng.prog.exc_is_sub(x.exc, "TypeError"):
            for X, what in ((T, "trusted metadata"), (U, "untrusted metadata")):
                if any(f[0] == "nottype" and f[1] in (X, SubC(X, "signed"), SubC(X, "signatures")) and "dict" in f[2] for f in facts):
                    return "well-formedness of the %s (not a dictionary)" % what
            if any(f[0] == "nottype" and f[1] == K and "list" in f[2] for f in facts):
                return "the role's key list is a list (what the envelope verifier demands)"
            if any(f[0] == "nottype" and f[1] == th and ("int" in f[2]) for f in facts):
                return "the role's threshold is an integer (what the envelope verifier demands)"
        return None
    for ev in flat(p):
        if ev[0] == "call" and ev[5][0] == "raise" and (ev[1] == top or ev[1] in x.chain):
            if ev[2] == CHECKER and ev[3] and ev[3][0] == T:
                return "well-formedness of the trusted metadata"
            if ev[2] == "repo:common.checkformat_signable" and ev[3] and ev[3][0] == U:
                return "untrusted metadata is a signed envelope"
            if ev[2] == VSIG and len(ev[3]) >= 4 and ev[3][0] == U and ev[3][1] == K and ev[3][2] == th:
                return "signatures meet the named role's keys/threshold"
    # an implicit error: explained iff some clause is not (yet) established on this path and the
    # error is about that clause's subject (when the raise conditions say what it is about)
    from . import cond_roots

    about = cond_roots(x)

    def on(*subjects):
        return not about or bool(about & set(subjects))

    if not st.holds(("type", name, frozenset(["str"]))) and on(name):
        return "delegation_name is a str (implicit error on an invalid argument)"
    if not (st.holds(("type", gpg, frozenset(["bool"]))) or any(f[0] == "in" and f[1] == gpg for f in facts)) and on(gpg):
        return "gpg is a boolean (implicit error on an invalid argument)"
    if not checked_ok(st, CHECKER, T) and on(T):
        return "well-formedness of the trusted metadata (implicit error)"
    if envelope(st, U) and on(U):
        return "untrusted metadata is a signed envelope (implicit error)"
    if not st.holds(("has", D, name)) and (("nothas", D, name) in facts or ("nothas", D, name) in x.conds or (about and about <= {T, name})):
        return "role is delegated by the trusted metadata (implicit error)"
    return None
