"""Value grammars ("kinds") shared by C14/C15/C16: each kind has
  missing(st, x)  -> list of conjuncts not established for term x in fact state st
  refuted(facts, x) -> True if the fact set carries the negation of one conjunct
and function_decides(eng, q, kind) checks a validator function against a kind on all its
paths (accepting paths establish every conjunct, rejecting paths refute one)."""
from __future__ import annotations

from sa.terms import C, CallT, Elem, P, Sub, is_call, is_const, show
from sa.walker import NUM, State

from .c15 import _elems, gpg_missing, gpg_refuted, hex_missing, hex_refuted, raw_missing, raw_refuted
from .vs import forall_bodies, le_facts

UTC_FMT = "%Y-%m-%dT%H:%M:%SZ"


def strptime_term(x):
    return CallT("ext:datetime.datetime.strptime", [x, C(UTC_FMT)])


def _nottype(facts, x, names=None):
    for f in facts:
        if f[0] == "nottype" and f[1] == x and (names is None or f[2] & frozenset(names) or True):
            return True
        if f[0] == "type" and f[1] == x and names is not None and not (f[2] & frozenset(names)):
            return True
    return False


# ---- str
def str_missing(st, x):
    return [] if st.holds(("type", x, frozenset(["str"]))) else ["is a str"]


def str_refuted(facts, x):
    return _nottype(facts, x, ["str"])


# ---- utc timestamp
def utc_missing(st, x):
    out = []
    if not st.holds(("ok", strptime_term(x))):
        out.append("strptime(x, '%s') succeeded" % UTC_FMT)
    return out


def utc_refuted(facts, x):
    return ("notok", strptime_term(x)) in facts or _nottype(facts, x, ["str"])


# ---- natural int
def natural_missing(st, x):
    out = []
    if not st.holds(("type", x, NUM)):
        out.append("is a number")
    if not st.holds(("integral", x)) and not st.holds(("type", x, frozenset(["int", "bool"]))):
        # (a value whose type is int or bool is integral as it stands)
        out.append("int(x) == x")
    want = frozenset({(x, -1)})
    if not any(co == want and c >= 1 for _f, (co, c) in le_facts(st.closure())):
        out.append("x >= 1")
    return out


INTLIKE = frozenset(["int", "bool"])


def natural_refuted(facts, x):
    ix = CallT("builtin:int", [x])
    for f in facts:
        if f[0] == "notok" and f[1] == ix:
            return True
        if f[0] == "ne" and {f[1], f[2]} == {ix, x}:
            return True
        # turned away on a type test.  "Not an int" / "is a bool" alone does not put a value
        # outside the grammar (2.0 and True are in it); other type tests are taken as the
        # rejection of a non-number, as the checkers of this package write them
        if f[0] == "nottype" and f[1] == x and not f[2] <= INTLIKE:
            return True
        if f[0] == "type" and f[1] == x and not f[2] <= INTLIKE:
            return True
    # not a finite number
    for f in facts:
        if f[0] == "truthy" and is_call(f[1], ("ext:math.isnan", "ext:math.isinf")) and f[1][2] == (x,):
            return True
        if f[0] == "falsy" and is_call(f[1], "ext:math.isfinite") and f[1][2] == (x,):
            return True
    want = frozenset({(x, 1)})  # x + c <= 0 with c >= 0  <=>  x <= -c  => x < 1
    return any(co == want and c >= 0 for _f, (co, c) in le_facts(facts))


# ---- list of distinct hex keys
def _copies_of(facts, x):
    """x itself and comprehensions [e for e in x] (identity element, no filter): same elements"""
    out = [x]
    for f in facts:
        for t in _subterms(f):
            if isinstance(t, tuple) and len(t) == 5 and t[0] == "comp" and t[1] in ("list", "set", "gen") and t[2] == x and isinstance(t[3], tuple) and t[3][:2] == ("elem", x) and t not in out:
                out.append(t)
    return out


def _subterms(t):
    if isinstance(t, tuple):
        yield t
        for y in t:
            yield from _subterms(y)
    elif isinstance(t, frozenset):
        for y in t:
            yield from _subterms(y)


def _distinct_lits(facts, x):
    """(holds, refuted) for 'x has no duplicates' stated as len(set(X)) ==/>= len(X) with X ~ x"""
    holds = refuted = False
    xs = _copies_of(facts, x)
    pairs = [(CallT("builtin:len", [CallT("builtin:set", [X])]), CallT("builtin:len", [Y])) for X in xs for Y in xs]
    # {e for e in x} is set(x)
    pairs += [(CallT("builtin:len", [X]), CallT("builtin:len", [Y])) for X in xs if len(X) == 5 and X[0] == "comp" and X[1] == "set" for Y in xs if not (len(Y) == 5 and Y[0] == "comp" and Y[1] == "set")]
    for ls, ll in pairs:
        if True:
            for f in facts:
                if f[0] == "eq" and {f[1], f[2]} == {ls, ll}:
                    holds = True
                if f[0] == "ne" and {f[1], f[2]} == {ls, ll}:
                    refuted = True
                if f[0] == "cmp":
                    # len(set(x)) <= len(x) always: ">=" means equal, "<" means a duplicate exists
                    if (f[1], f[2], f[3]) in ((">=", ls, ll), ("<=", ll, ls)):
                        holds = True
                    if (f[1], f[2], f[3]) in (("<", ls, ll), (">", ll, ls)):
                        refuted = True
    # Counter(X).values() all <= 1  /  some value > 1
    for X in xs:
        cnt = CallT("ext:collections.Counter", [X])
        for f in facts:
            if f[0] == "forall" and f[1] == cnt:
                v = Sub(cnt, ("elem", cnt, f[2]))
                if any(g[0] == "cmp" and ((g[1], g[2], g[3]) in (("<=", v, C(1)), ("<", v, C(2)), (">=", C(1), v), (">", C(2), v))) for g in f[3]):
                    holds = True
            if f[0] == "exists" and f[1] == cnt:
                v = Sub(cnt, ("elem", cnt, f[2]))
                if f[3] and all(any(g[0] == "cmp" and ((g[1], g[2], g[3]) in ((">", v, C(1)), (">=", v, C(2)), ("<", C(1), v), ("<=", C(2), v))) for g in alt) for alt in f[3]):
                    refuted = True
    return holds, refuted


def keylist_missing(st, x):
    out = []
    if not st.holds(("type", x, frozenset(["list"]))):
        out.append("is a list")
    if not any(not hex_missing(State(facts=set(body) | st.facts), el, 64) for el, body in forall_bodies(st, x)):
        out.append("every element is a 64-hex key")
    if not _distinct_lits(st.closure(), x)[0]:
        out.append("no duplicate keys")
    return out


def keylist_refuted(facts, x):
    if _nottype(facts, x, ["list"]):
        return True
    if _distinct_lits(facts, x)[1]:
        return True
    for f in facts:
        for t in _elems(f, x):
            if hex_refuted(facts, t, 64):
                return True
        if f[0] == "falsy" and is_call(f[1], "builtin:all"):
            return True  # all(is_hex_key(k) for k in x) is False: some element is not a key
    return False


# ---- one delegation
def delegation_missing(st, x):
    out = []
    if not st.holds(("type", x, frozenset(["dict"]))):
        out.append("is a dict")
    if not st.holds(("keys", x, frozenset(["pubkeys", "threshold"]))):
        out.append("has exactly the fields pubkeys, threshold")
    out += ["pubkeys: " + m for m in keylist_missing(st, Sub(x, C("pubkeys")))]
    out += ["threshold: " + m for m in natural_missing(st, Sub(x, C("threshold")))]
    return out


def delegation_refuted(facts, x):
    if _nottype(facts, x, ["dict"]) or any(f[0] == "notkeys" and f[1] == x for f in facts):
        return True
    if keylist_refuted(facts, Sub(x, C("pubkeys"))) or natural_refuted(facts, Sub(x, C("threshold"))):
        return True
    return False


# ---- delegations map
def delegations_missing(st, x):
    from sa.terms import is_lit

    if is_lit(x, "dict") and not x[2]:
        return []  # the empty display: vacuously well formed
    out = []
    if not st.holds(("type", x, frozenset(["dict"]))):
        out.append("is a dict")
    good = False
    for el, body in forall_bodies(st, x):
        st2 = State(facts=set(body) | st.facts)
        if st2.holds(("type", el, frozenset(["str"]))) and not delegation_missing(st2, Sub(x, el)):
            good = True
    if not good:
        out.append("every role name is a str and every value a well-formed delegation")
    return out


def delegations_refuted(facts, x):
    if _nottype(facts, x, ["dict"]):
        return True
    for f in facts:
        for el in _elems(f, x):
            if str_refuted(facts, el) or delegation_refuted(facts, Sub(x, el)):
                return True
    return False


def rawgpg_missing(st, x):
    a, b = raw_missing(st, x), gpg_missing(st, x)
    return [] if (not a or not b) else ["neither raw nor OpenPGP entry shape"]


def rawgpg_refuted(facts, x):
    return raw_refuted(facts, x) and gpg_refuted(facts, x)


KINDS = {
    "str": (str_missing, str_refuted),
    "utc": (utc_missing, utc_refuted),
    "natural": (natural_missing, natural_refuted),
    "keylist": (keylist_missing, keylist_refuted),
    "delegation": (delegation_missing, delegation_refuted),
    "delegations": (delegations_missing, delegations_refuted),
    "entry": (rawgpg_missing, rawgpg_refuted),
}

def function_decides(eng, q, kind):
    """(ok, detail): does validator q accept exactly the values of `kind` (path-wise check)"""
    _cache = eng.__dict__.setdefault("_kind_cache", {})
    key = (q, kind)
    if key in _cache:
        return _cache[key]
    prog = eng.prog
    fi = prog.funcs.get(q)
    if fi is None:
        return (False, "function %s not found" % q)
    inline = frozenset(x for x, f in prog.funcs.items() if f.mod.short == "common") - {q}
    sm = eng.summary(fi, None, inline)
    x = P(sm.params[0])
    missing, refuted = KINDS[kind]
    acc_bad, rej_bad, n_acc, n_rej = [], [], 0, 0
    for p in sm.paths:
        facts = set(p.facts)
        if p.kind == "raise":
            facts |= set(p.value.conds)
        if p.kind == "return":
            n_acc += 1
            ms = missing(State(facts=facts), x)
            if ms:
                acc_bad.append(ms)
        else:
            n_rej += 1
            if not refuted(facts, x):
                from . import refuted_at_defaults

                if refuted_at_defaults(eng, q, (sm.params[0],), facts):
                    continue  # (only reachable with a non-default value of an added optional parameter)
                rej_bad.append("%s at %s (%s)" % (p.value.exc, p.value.chain[-1].loc(), p.value.why[:50]))
    ok = not acc_bad and not rej_bad and n_acc > 0
    detail = {"accepting_paths": n_acc, "rejecting_paths": n_rej}
    if acc_bad:
        detail["accepting path does not establish"] = sorted({m for ms in acc_bad for m in ms})[:6]
    if rej_bad:
        detail["rejects outside the grammar"] = rej_bad[:4]
    _cache[key] = (ok, detail)
    return _cache[key]
