"""C07 - canonical serialization (structural part)."""
from __future__ import annotations

import ast
import json

from sa.effects import Effects, all_events
from sa.extract import effective_kwargs
from sa.terms import C, P, is_call, is_const, is_lit, lit_const_values, norm_codec, root_of, show

from sa.walker import State, flatten_events

from . import fn_site
from .signer import canon_bytes

EXPLANATION = (
    "R1 (configuration): canonserialize returns, on every normal path, json.dumps(<its argument>, cfg).encode(utf-8/ascii) "
    "and nothing else transforms the text; the effective cfg (explicit keywords merged over the defaults read from "
    "inspect.signature(json.dumps)) equals the published format: sort_keys=True, indent=2, ensure_ascii=True, "
    "separators None (=(',', ': ') with indent), allow_nan=True, skipkeys=False, cls=None, default=None. "
    "R2: the serializer's call cone reads no ambient state and writes nothing (a function of the value alone). "
    "R3 (single serializer): every message that reaches a signing or verifying primitive (key.sign, key.verify directly or "
    "as first chunk of the OpenPGP digest, the GnuPG signer) is, after propagation through message-forwarding parameters "
    "to the call sites in the library, a canonserialize(...) term; no other json.dumps/encode result reaches them."
)
RULE_TEXT = "obligations: serializer return term, each effective keyword, ambient/write cone, every message sink and every forwarding call site; non-trivial = term-level decisions on walked paths"

WANT = {"sort_keys": True, "indent": 2, "ensure_ascii": True, "allow_nan": True, "skipkeys": False, "cls": None, "default": None, "check_circular": True}
LIBMODS = ("authentication", "signing", "root_signing", "common", "metadata_construction", "cli")


def run(ctx):
    eng, prog = ctx.eng, ctx.prog
    ctx.assume("A1", "A8", "determinism, injectivity, parse/serialize fixpoint and float/surrogate rendering are properties of CPython's json module given this configuration (not decided here)")
    sm, site = serializer_config(ctx)

    # ---- R2 pure function of the value
    fx = Effects(eng)
    amb = fx.ambient(sm.fi)
    pw = fx.param_writes(sm.fi)
    ctx.ob("R2", "no-ambient-no-write", site.loc(), "canonserialize %s" % ("reads no ambient state and writes nothing" if not amb and not pw else "is not a function of its argument alone: " + ", ".join([a[0] for a in amb] + ["writes " + w[0] for w in pw])), not amb and not pw)

    # ---- R3 single serializer: message sinks
    _sinks(ctx)

    # ---- "parsing the bytes gives the value back": the repository's one parser of metadata files
    # reads the bytes as they are (binary, default hooks) - C08-R2
    from .c08 import loader_model

    loader_model(ctx.sub("DEP-C08"), "R2")

    # ---- R4 total on what json.dumps takes: canonserialize fails only where json.dumps (or the
    # encoding of its ASCII result) fails - a pre-check of the value turns payloads that have
    # canonical bytes into payloads that have none
    from . import own_site

    extra = {}
    for p in sm.paths:
        if p.kind != "raise":
            continue
        x = p.value
        if x.origin == "resource" or "json.dumps" in x.why or any("dumps" in st_.text for st_ in x.chain[-1:]):
            continue
        evs_p = [ev for ev, _d in flatten_events(p.events)]
        if x.origin == "explicit" and any(ev[0] == "caught" and len(ev) > 6 and any("dumps" in st_.text for st_ in ev[6]) and (ev[2] == x.exc or eng.prog.exc_is_sub(x.exc, ev[2])) for ev in evs_p):
            continue  # json.dumps' own failure, caught and raised again (same class) with another text
        obj_t = P(sm.params[0])
        ts_x = State(facts=set(p.facts) | set(x.conds)).types(obj_t)
        if x.origin == "explicit" and x.exc == "TypeError" and ts_x is not None and not (ts_x & JSON_TYPES_ALL):
            continue  # spelled-out refusal of a value json.dumps refuses with the same class
        extra.setdefault((x.exc, x.chain[-1].key()), x)
    for (exc, k), x in sorted(extra.items()):
        ctx.ob("R4", "serializer-refuses|%s|%s" % (exc, k), x.chain[-1].loc(), "canonserialize can fail with %s (%s) before/after json.dumps has its say: values that have a canonical form are turned away" % (exc, x.why[:80]), False)
    ctx.ob("R4", "serializer-total", site.loc(), "canonserialize fails only where json.dumps does" if not extra else "canonserialize has %d way(s) of failing of its own" % len(extra), not extra)

    # ---- R5 the rendering of numbers and text by json.dumps depends on interpreter-wide settings
    # (integer digit limit, ...): nothing in the package changes such settings or patches a
    # library module
    from . import interpreter_reconfigurations

    rec = interpreter_reconfigurations(eng)
    for text, where, what in rec:
        ctx.ob("R5", "reconfigures|%s|%s" % (what, text), where, "%s: %s - process-wide state that json.dumps and the other library calls read implicitly; the canonical bytes are no longer a function of the value alone" % (text, what), False)
    ctx.count("R5.modules_scanned", len(eng.prog.modules))
    ctx.floor("R5.modules_scanned", 5)
    ctx.ob("R5", "interpreter-untouched", site.loc(), "no module of the package calls an interpreter-wide setter or assigns into an imported library module (%d modules scanned)" % len(eng.prog.modules) if not rec else "%d place(s) reconfigure the interpreter or a library module" % len(rec), not rec)


# options on which "a function of the JSON value alone, different values never share it" rests; the
# others (indent, ensure_ascii, separators) only fix the published byte format
JSON_TYPES_ALL = frozenset(["dict", "list", "tuple", "str", "int", "float", "bool", "NoneType"])
INJECTIVITY = ("sort_keys", "skipkeys", "cls", "default")


def serializer_config(ctx, published=True):
    """R1: the one serializer is json.dumps(obj, <published configuration>).encode('utf-8');
    published=False: only what determinism and injectivity need (for the properties that do not
    speak about the byte format itself)"""
    eng = ctx.eng
    sm = eng.walk("common.canonserialize")
    site = fn_site(eng, sm)
    obj = P(sm.params[0])
    rets = [p for p in sm.paths if p.kind == "return"]
    vals = {p.value for p in rets}
    shape_ok = False
    dumps_call = None
    if len(vals) == 1:
        v = next(iter(vals))
        if is_call(v, "method:encode") and v[2] and is_call(v[2][0], "ext:json.dumps"):
            enc = v[2][1] if len(v[2]) > 1 else dict(v[3]).get("encoding", C("utf-8"))
            errs = v[2][2] if len(v[2]) > 2 else dict(v[3]).get("errors")
            dumps_call = v[2][0]
            shape_ok = is_const(enc) and str(enc[2]).lower().replace("-", "").replace("_", "") in ("utf8", "ascii", "usascii") and errs is None and dumps_call[2] and dumps_call[2][0] == obj
    ctx.ob("R1", "serializer-shape", site.loc(), "canonserialize %s" % ("returns json.dumps(obj, ...).encode('utf-8') of its own argument on every normal path" if shape_ok else "does not return json.dumps(obj, ...).encode('utf-8') unchanged: " + "; ".join(show(v)[:100] for v in vals)), shape_ok)
    if dumps_call is not None:
        eff = effective_kwargs(json.dumps, ["obj"], dumps_call[2], dumps_call[3])
        for k, want in sorted(WANT.items(), key=str):
            if not published and k not in INJECTIVITY:
                continue
            got = eff.get(k, ("default", None))
            val = got[1] if isinstance(got, tuple) and got[0] == "default" else (got[2] if is_const(got) else ("?", show(got)))
            ok = val == want and type(val) is type(want)
            ctx.count("R1.keywords")
            ctx.ob("R1", "dumps-config|%s" % k, site.loc(), "effective json.dumps(%s=%r) %s" % (k, val, "matches the published format" if ok else "differs from the published format (%r): bytes signed by earlier releases stop verifying" % (want,)), ok)
        sep = eff.get("separators", ("default", None))
        if isinstance(sep, tuple) and sep[0] == "default":
            sep_ok, sep_v = sep[1] is None, sep[1]
        elif is_const(sep):
            sep_ok, sep_v = sep[2] is None, sep[2]
        else:
            sv = lit_const_values(sep) if is_lit(sep) else None
            sep_ok, sep_v = sv == [",", ": "], sv
        if published:
            ctx.ob("R1", "dumps-config|separators", site.loc(), "effective separators %r %s" % (sep_v, "= (',', ': ') with indentation" if sep_ok else "differ from (',', ': ')"), sep_ok)
        else:
            # any separators keep the rendering unambiguous as long as neither is empty
            amb = sep_v is not None and (not isinstance(sep_v, (list, tuple)) or len(sep_v) != 2 or not all(isinstance(x, str) and x.strip() for x in sep_v))
            ctx.ob("R1", "dumps-config|separators", site.loc(), "effective separators %r %s" % (sep_v, "keep items and keys apart" if not amb else "may run items or keys together"), not amb)
        extra = [n for n, _v in dumps_call[3] if n not in WANT and n != "separators"]
        ctx.ob("R1", "dumps-config|no-other-keywords", site.loc(), "no other json.dumps keyword is given" if not extra else "unexpected json.dumps keywords: %s" % extra, not extra)
        ctx.floor("R1.keywords", 8 if published else 4)
    # "a function of the value alone": no function the serializer runs is memoised.  functools
    # caches look entries up by == and hash, under which 1, 1.0 and True (and tuples of them) are
    # one key: the bytes returned for a value would depend on which equal value was seen first
    from sa.callgraph import CallGraph
    from sa.effects import DECORATOR_WHITELIST, decorators, repo_decorator_is_stateless

    cone = set(CallGraph(eng.prog).cone(["common.canonserialize"]))
    memo = []
    for obj, txt, dotted in decorators(eng.prog, tuple(sorted({eng.prog.funcs[q].mod.short for q in cone if q in eng.prog.funcs}))):
        if getattr(obj, "qualname", None) not in cone or txt in DECORATOR_WHITELIST or (dotted or "") in DECORATOR_WHITELIST:
            continue
        stateless = False
        for dnode in obj.node.decorator_list:
            tnode = dnode.func if isinstance(dnode, ast.Call) else dnode
            if ast.unparse(tnode) == txt:
                res = repo_decorator_is_stateless(eng.prog, obj.mod, dnode)
                stateless = res is not None and res[0]
        if not stateless:
            memo.append((obj, txt))
    for obj, txt in memo:
        ctx.ob("R1", "serializer-memoised|%s|%s" % (obj.qualname, txt), eng.prog.site(obj.mod, obj.node, obj.qualname).loc(), "%s, which canonserialize runs, is wrapped by @%s: a cache keyed by ==/hash serves 1, 1.0 and True (and tuples of them) from one entry, so the canonical bytes of a value depend on the calls made before and distinct values share bytes" % (obj.qualname, txt), False)
    ctx.ob("R1", "serializer-not-memoised", site.loc(), "%d function(s) reachable from canonserialize, %s" % (len(cone), "none of them behind a caching decorator" if not memo else "%d behind a caching decorator" % len(memo)), not memo)
    return sm, site


def _through_digest(msg, evs, what):
    """a message that is H.finalize(): the bytes that matter are the first chunk fed to H"""
    from sa.terms import concat_parts

    if is_call(msg, ("method:finalize", "method:digest")) and msg[2]:
        h = msg[2][0]
        chunks = [e[3] for e in evs if e[0] == "hash-update" and e[2] == h]
        if is_call(h) and h[2] and not h[1].endswith("hashes.Hash"):
            chunks = [h[2][0]] + chunks
        if chunks:
            return concat_parts(chunks[0])[0], "first chunk of the digest given to " + what
    return msg, what


def _is_canon(eng, t):
    """t (expanded) == canonserialize(X) for some X"""
    if is_call(t, "method:encode") and t[2] and is_call(t[2][0], "ext:json.dumps") and t[2][0][2]:
        X = t[2][0][2][0]
        return eng.expand(t) == canon_bytes(eng, X)
    return False


def _sinks(ctx):
    eng, prog = ctx.eng, ctx.prog
    fx = Effects(eng)
    funcs = []
    for q, fi in sorted(prog.funcs.items()):
        if fi.mod.short in ("authentication", "signing", "root_signing", "common", "metadata_construction") and fi.parent is None and fi.cls != "BytesLike":
            if fi.qualname in eng.private_helpers(fi.mod.short):
                continue  # analysed in place, as part of every function that uses it
            for b in fx.bindings(fi):
                funcs.append((fi, b))
    forwarders = {}  # callee string -> param index whose value reaches a sink
    pending = []
    summaries = {}
    for fi, b in funcs:
        sm = eng.summary(fi, b)
        summaries[(fi.qualname, b)] = sm
        for p in sm.paths:
            evs = list(all_events(p.events))
            for ev in evs:
                msg = None
                if ev[0] == "call" and ev[2] == "method:sign" and len(ev[3]) >= 2:
                    msg, what = ev[3][1], "key.sign"
                elif ev[0] == "call" and ev[2] == "method:verify" and len(ev[3]) >= 3:
                    msg, what = _through_digest(ev[3][2], evs, "key.verify")
                elif ev[0] == "call" and ev[2].endswith("gpg.functions.create_signature") and ev[3]:
                    msg, what = ev[3][0], "GnuPG signer"
                if msg is not None:
                    pending.append((fi, b, ev[1], msg, what))
    seen = set()
    depth = 0
    while pending and depth < 6:
        depth += 1
        nxt = []
        for fi, b, site, msg, what in pending:
            key = (site.key(), show(msg)[:80])
            if key in seen:
                continue
            seen.add(key)
            m = eng.expand(msg)
            if _is_canon(eng, m):
                ctx.count("R3.sinks")
                ctx.ob("R3", "sink|%s" % site.key(), site.loc(), "message reaching %s in %s is canonserialize(%s)" % (what, fi.qualname, show(m[2][0][2][0])[:60]), True)
                continue
            if m[0] == "param" and m[1] in fi.params():
                # forwarded parameter: look at every call site of this function in the library
                callee = "repo:" + fi.qualname + ("[" + b.split(".")[-1] + "]" if b else "")
                names = [n for n in fi.params()]
                if fi.cls and fi.is_classmethod:
                    names = names[1:]
                idx = names.index(m[1]) if m[1] in names else None
                found = False
                for (q2, b2), sm2 in list(summaries.items()):
                    for p2 in sm2.paths:
                        for ev2 in all_events(p2.events):
                            if ev2[0] == "call" and ev2[2] == callee and idx is not None and idx < len(ev2[3]):
                                found = True
                                m2, w2 = _through_digest(ev2[3][idx], list(all_events(p2.events)), what.split(" (")[0])
                                nxt.append((prog.funcs[q2], b2, ev2[1], m2, "%s (forwarded through %s)" % (w2, fi.qualname)))
                ctx.count("R3.forwarders")
                ctx.ob("R3", "forwarder|%s|%s" % (fi.qualname, m[1]), site.loc(), "%s forwards its parameter '%s' to %s; %s" % (fi.qualname, m[1], what, "its library call sites are examined" if found else "it is a public primitive with no call site in the library"), True, nontrivial=False)
                continue
            ctx.count("R3.sinks")
            ctx.ob("R3", "sink|%s" % site.key(), site.loc(), "message reaching %s in %s is %s, which is not produced by the one canonical serializer" % (what, fi.qualname, show(m)[:120]), False)
        pending = nxt
    ctx.floor("R3.sinks", 2)
