"""C08 - persisting metadata never changes its trust status (structural part)."""
from __future__ import annotations

from sa.effects import Effects, all_events
from sa.terms import C, CallT, P, SubC, access_path, is_call, is_const, is_lit, root_of, show
from sa.walker import flatten_events

from . import cond_roots, fn_site, mentions, refuted_at_defaults
from .signer import canon_bytes

EXPLANATION = (
    "Structural half of the persistence property. R1: on every normally returning path write_metadata_to_file performs "
    "exactly one write, of exactly canonserialize(<metadata parameter>) (term equality after expansion to json.dumps(...)"
    ".encode), to a handle opened on the <filename parameter> in binary write mode, the serializer call preceding the open. "
    "R2: load_metadata_from_file returns json.load(handle) unmodified, with every decoding hook at its default and the "
    "handle opened 'rb' on its parameter. R3: the in-place signers (sign_all_in_repodata, sign_root_metadata_via_gpg, "
    "sign_root_metadata_dict_via_gpg, sign_signable) write into the loaded/passed document only under its 'signatures' "
    "field, write back the very value they loaded, to the very path they loaded it from."
)
RULE_TEXT = "obligations: write/open/serialize events per accepting path, loader return term and hooks, store targets of the signers; non-trivial = decided by term equality on walked paths"

LOAD_HOOKS = ("cls", "object_hook", "parse_float", "parse_int", "parse_constant", "object_pairs_hook")


def writer_model(ctx, rule="R1"):
    eng = ctx.eng
    sm = eng.walk("common.write_metadata_to_file")
    md, fname = P(sm.params[0]), P(sm.params[1])
    site = fn_site(eng, sm)
    want = canon_bytes(eng, md)
    rets = [p for p in sm.paths if p.kind == "return"]
    ok_all, why = bool(rets), "no normally returning path"
    for p in rets:
        evs = [ev for ev, _d in flatten_events(p.events)]
        writes = [ev for ev in evs if ev[0] == "write"]
        opens = [(i, ev) for i, ev in enumerate(evs) if ev[0] == "call" and ev[2] == "builtin:open" and ev[5][0] == "ok"]
        ser = [i for i, ev in enumerate(evs) if ev[0] == "call" and ev[2] in ("repo:common.canonserialize", "ext:json.dumps") and ev[5][0] == "ok"]
        if not writes and _already_there(eng, p, fname, want):
            continue  # the file was read (binary) and found to hold exactly these bytes: nothing to do
        if len(writes) != 1:
            ok_all, why = False, "%d writes on a returning path (expected exactly one)" % len(writes)
            break
        w = writes[0]
        if eng.expand(w[3]) != want:
            ok_all, why = False, "the bytes written are %s, not canonserialize(metadata)" % show(w[3])[:120]
            break
        h = w[2]
        staged = False
        if not (is_call(h, "builtin:open") and h[2] and _names_file(h[2][0], fname, writing=True)):
            bad = _staged_then_moved(evs, w, h, fname)
            if bad is not None:
                ok_all, why = False, "the write does not go to a handle opened on the filename parameter (%s)%s" % (show(h)[:100], bad)
                break
            staged = True
        mode = h[2][1] if len(h[2]) > 1 else dict(h[3]).get("mode")
        if mode is None and is_call(h, "ext:tempfile.NamedTemporaryFile"):
            mode = C("w+b")
        if staged and mode is not None and is_const(mode) and isinstance(mode[2], str) and "a" not in mode[2] and "b" in mode[2] and ("w" in mode[2] or "x" in mode[2]):
            continue  # (a staging file may be opened w+b; the order serializer/open does not matter: the target is replaced whole)
        if not (mode is not None and is_const(mode) and isinstance(mode[2], str) and "b" in mode[2] and ("w" in mode[2] or "x" in mode[2]) and "+" not in mode[2] and "a" not in mode[2]):
            ok_all, why = False, "the file is not opened in binary write mode (mode %s): newline translation / text encoding would alter the canonical bytes" % (show(mode) if mode else "default 'r'")
            break
        if not ser or not opens or min(ser) > opens[0][0]:
            ok_all, why = False, "serialization does not precede the open (truncating) call"
            break
    # the writer persists whatever the serializer can serialize: it fails through the serializer
    # (the value has no canonical form) or through the file system, and in no other way
    refusals = {}
    for p in sm.paths:
        if p.kind != "raise":
            continue
        x = p.value
        if x.origin in ("resource", "io-write") or "json.dumps" in x.why:
            continue
        if any("canonserialize(" in st_.text or st_.fn == "common.canonserialize" for st_ in x.chain[:-1]) or x.chain[-1].fn == "common.canonserialize":
            continue  # the serializer turned the value away (what it may turn away is C07's rule)
        if x.origin == "implicit" and eng.prog.exc_is_sub(x.exc, "OSError"):
            continue
        roots = cond_roots(x)
        if x.origin == "implicit" and roots and roots <= {P(sm.params[1])}:
            continue  # (a file name that is not a path)
        if x.origin == "implicit" and any(ev[0] == "call" and ev[1] == x.chain[-1] and ev[5][0] == "raise" and isinstance(ev[2], str) and ev[2].startswith(("builtin:open", "ext:os.", "ext:tempfile.", "ext:shutil.", "ext:pathlib.", "method:write", "method:close", "method:flush", "method:fileno")) for ev in all_events(p.events)):
            continue  # (the file-system call itself turning its arguments away)
        refusals.setdefault((x.exc, x.chain[-1].key()), x)
    for (exc, k), x in sorted(refusals.items()):
        ctx.ob(rule, "writer-refuses|%s|%s" % (exc, k), x.chain[-1].loc(), "write_metadata_to_file can fail with %s (%s) although the value serializes and the file system works: metadata that verifies in memory cannot be persisted" % (exc, x.why[:80]), False)
    ctx.count(rule + ".writer_paths", len(rets))
    ctx.ob(rule, "writer", site.loc(), "write_metadata_to_file " + ("writes exactly canonserialize(metadata), once, to the named file in binary mode, serialized before the file is opened" if ok_all else "deviates: " + why), ok_all)


def loader_model(ctx, rule="R2"):
    eng = ctx.eng
    sm = eng.walk("common.load_metadata_from_file")
    fname = P(sm.params[0])
    site = fn_site(eng, sm)
    rets = [p for p in sm.paths if p.kind == "return"]
    ok_all, why = bool(rets), "no normally returning path"
    for p in rets:
        v = p.value
        if not (is_call(v, ("ext:json.load", "ext:json.loads")) and v[2]):
            ok_all, why = False, "returns %s, not the result of json.load unmodified" % show(v)[:100]
            break
        touched = [ev for ev in all_events(p.events) if ev[0] in ("store", "del", "mutcall") and isinstance(ev[2], tuple) and (ev[2] == v or mentions(ev[2], v))]
        if touched:
            ok_all, why = False, "the loaded value is changed before it is returned (%s %s at %s): what is returned is not the file's JSON value" % (touched[0][0], show(touched[0][2])[:60], touched[0][1].loc())
            break
        hooks = [(n, val) for n, val in v[3] if not (is_const(val) and val[2] is None)]
        if hooks or len(v[2]) > 1:
            ok_all, why = False, "json.load is given non-default decoding hooks (%s): the loaded value would differ from the JSON value" % ", ".join(n for n, _v in hooks)
            break
        h = v[2][0]
        if is_call(h, "method:read") and h[2]:
            h = h[2][0]
        if not (is_call(h, "builtin:open") and h[2] and _names_file(h[2][0], fname, writing=False)):
            ok_all, why = False, "the handle parsed is not opened on the filename parameter (%s)" % show(h)[:100]
            break
        mode = h[2][1] if len(h[2]) > 1 else dict(h[3]).get("mode", C("r"))
        enc = dict(h[3]).get("encoding")
        if not (is_const(mode) and "r" in str(mode[2]) and "+" not in str(mode[2]) and ("b" in str(mode[2]) or (enc is not None and is_const(enc) and str(enc[2]).lower().replace("-", "") == "utf8"))):
            ok_all, why = False, "the file is not opened for binary (or explicit UTF-8) reading (mode %s): decoding would depend on the locale" % show(mode)
            break
    ctx.count(rule + ".loader_paths", len(rets))
    ctx.ob(rule, "loader", site.loc(), "load_metadata_from_file " + ("returns json.load(open(fname, 'rb')) with default hooks, unmodified" if ok_all else "deviates: " + why), ok_all)


def _same_path(t, x):
    return t == x or (is_call(t, ("ext:os.fspath", "builtin:str")) and t[2] == (x,))


def _staged_then_moved(evs, w, h, fname):
    """write-to-a-staging-file-then-rename: the bytes go to a handle on some other path T, and after
    the write os.replace(T, filename) / os.rename(T, filename) puts the complete file under the
    name (atomically; a failure before it leaves the named file untouched), and nothing else
    writes the named file.  -> None when the path has this shape, else the reason it has not ('' = no staging file at all)"""
    staging = None
    if is_call(h, "builtin:open") and h[2]:
        x = h[2][0]
        staging = x
        if is_call(x, "ext:os.open") and x[2]:
            staging = x[2][0]
        elif isinstance(x, tuple) and len(x) == 3 and x[0] == "sub" and is_call(x[1], "ext:tempfile.mkstemp") and x[2] == C(0):
            staging = ("sub", x[1], C(1))
    elif is_call(h, "ext:tempfile.NamedTemporaryFile"):
        staging = ("attr", h, "name")
    if staging is None or _same_path(staging, fname):
        return ""  # not a handle of a staging file: the plain report stands
    wi = next((i for i, ev in enumerate(evs) if ev is w), None)
    moves = [i for i, ev in enumerate(evs) if ev[0] == "fs-mutation" and ev[2] in ("ext:os.replace", "ext:os.rename") and len(ev[3]) >= 2 and _same_path(ev[3][0], staging) and _same_path(ev[3][1], fname)]
    if wi is None or not moves:
        return " and the file written (%s) is never moved to the named file" % show(staging)[:60]
    if len(moves) > 1 or moves[0] < wi:
        return " and the staging file is moved into place before it is completely written"
    closed = any(ev[0] == "with-exit" or (ev[0] == "call" and ev[2] == "method:close" and ev[3] and ev[3][0] == h) for ev in evs[wi + 1 : moves[0]])
    if not closed:
        return " and the staging file is moved into place before its handle is closed (buffered bytes may be missing)"
    for i, ev in enumerate(evs):
        if i == moves[0]:
            continue
        if ev[0] == "fs-mutation" and any(_same_path(a, fname) for a in ev[3]):
            return " and the named file is also changed by %s" % ev[2]
        if ev[0] == "call" and ev[2] == "builtin:open" and ev[3] and _names_file(ev[3][0], fname, writing=True):
            m = ev[3][1] if len(ev[3]) > 1 else dict(ev[4]).get("mode")
            if m is None or not is_const(m) or any(ch in str(m[2]) for ch in "wax+"):
                return " and the named file is also opened for writing"
    return None


def _already_there(eng, p, fname, want):
    """the path compared the file's current content, read in binary mode, with the canonical
    bytes and found them equal"""
    for f in p.facts:
        if f[0] != "eq":
            continue
        for a, b in ((f[1], f[2]), (f[2], f[1])):
            if eng.expand(b) == want and is_call(a, "method:read") and len(a[2]) == 1 and is_call(a[2][0], "builtin:open") and a[2][0][2] and _names_file(a[2][0][2][0], fname, writing=False):
                h = a[2][0]
                mode = h[2][1] if len(h[2]) > 1 else dict(h[3]).get("mode", C("r"))
                if is_const(mode) and "b" in str(mode[2]) and "r" in str(mode[2]) and "+" not in str(mode[2]):
                    return True
    return False


def _names_file(t, fname, writing):
    """the first argument of open() denotes the file named by the parameter: the parameter itself,
    os.fspath(parameter), or a descriptor from os.open(parameter, flags) whose flags are those of
    the mode (writing: O_WRONLY | O_CREAT | O_TRUNC, nothing else that changes what is written)"""
    if t == fname:
        return True
    if is_call(t, ("ext:os.fspath", "builtin:str")) and t[2] == (fname,):
        return True
    if is_call(t, "ext:os.open") and len(t[2]) >= 2 and t[2][0] == fname:
        flags = set()

        def go(x):
            if isinstance(x, tuple) and x and x[0] == "binop" and x[1] == "|":
                return go(x[2]) and go(x[3])
            if isinstance(x, tuple) and len(x) == 2 and x[0] == "global" and x[1].startswith("ext:os.O_"):
                flags.add(x[1][7:])
                return True
            return False

        if not go(t[2][1]):
            return False
        if writing:
            return {"O_WRONLY", "O_CREAT", "O_TRUNC"} <= flags and not (flags & {"O_APPEND", "O_RDWR", "O_EXCL"} - {"O_EXCL"})
        return flags <= {"O_RDONLY", "O_CLOEXEC", "O_BINARY"} and "O_RDONLY" in flags
    return False


def steps_text(steps):
    return "".join("[%s]" % show(s[1]) if s[0] == "sub" else "." + str(s[1]) for s in steps)


def run(ctx):
    eng = ctx.eng
    ctx.assume("A1", "A8")
    writer_model(ctx, "R1")
    loader_model(ctx, "R2")
    _inplace_signers(ctx)
    # "canonical form" is what the one serializer produces (C07-R1, re-evaluated here)
    from .c07 import serializer_config

    serializer_config(ctx.sub("DEP-C07"), published=False)
    # "every verdict is the same before and after": writing sorts the signature map, so the verdict
    # must not depend on the order (or neighbours) of its entries (C06-R3, re-evaluated here)
    from .c06 import entries_independent

    entries_independent(ctx.sub("DEP-C06"), "R3")
    # "adding a signature to a stored file never invalidates or alters the signatures already
    # present": the signer writes its own entry only (C09-R2, re-evaluated here)
    from .c09 import sign_signable_rules

    sign_signable_rules(ctx.sub("DEP-C09"), "R2")
    _signer_callers(ctx)
    _session_saves_what_it_signs(ctx)


def _session_saves_what_it_signs(ctx, rule="R8"):
    """an interactive load - edit/sign - save session built from nested functions over one working
    copy (cli.interactive_modify_metadata): the function that saves hands the writer the very
    variable that the functions adding signatures hand the signer"""
    import ast

    from sa.model import dotted_chain

    eng, prog = ctx.eng, ctx.prog
    n = 0
    for q, fi in sorted(prog.funcs.items()):
        if fi.parent is not None:
            continue
        nested = [x for x in ast.walk(fi.node) if isinstance(x, ast.FunctionDef) and x is not fi.node]
        signed_vars, saved = set(), []
        for nf in nested:
            for c in ast.walk(nf):
                if not (isinstance(c, ast.Call) and c.args and isinstance(c.args[0], ast.Name)):
                    continue
                chain = dotted_chain(c.func)
                r = prog.resolve_dotted(fi.mod, chain)[0] if chain else ("?",)
                if r[0] != "func":
                    continue
                if r[1] in SIGNERS_IN_MEMORY:
                    signed_vars.add(c.args[0].id)
                elif r[1] == "common.write_metadata_to_file":
                    saved.append((nf.name, c.args[0].id, prog.site(fi.mod, c, q + "." + nf.name)))
        if not signed_vars or not saved:
            continue
        n += 1
        for fname, var, st_ in saved:
            ok = var in signed_vars
            ctx.ob(rule, "session-saves-working-copy|%s.%s" % (q, fname), st_.loc(), "%s.%s writes %s, %s" % (q, fname, var, "the envelope the session's signing steps sign (%s)" % ", ".join(sorted(signed_vars)) if ok else "but the session's signing steps sign %s: what is stored is not the envelope that was signed (added signatures and edits are lost)" % ", ".join(sorted(signed_vars))), ok)
    ctx.count(rule + ".sessions", n)


SIGNERS_IN_MEMORY = ("signing.sign_signable", "root_signing.sign_root_metadata_dict_via_gpg")


def _signer_callers(ctx, rule="R7"):
    """every function of the repository that adds a signature to an envelope E through one of the
    in-memory signers (load - add signature - save tools): on a path on which the signer runs,
    the function itself never replaces, clears or shrinks E['signatures'] - the signatures
    already present stay"""
    from sa.callgraph import CallGraph
    from sa.walker import flatten_events

    eng, prog = ctx.eng, ctx.prog
    cg = CallGraph(prog)
    callers = sorted(q for q, sites in cg.sites.items() if q not in SIGNERS_IN_MEMORY and any(kind == "repo" and tgt in SIGNERS_IN_MEMORY for _n, kind, tgt in sites))
    for q in callers:
        sm = eng.walk(q)
        site = fn_site(eng, sm)
        bad = []
        n_paths = 0
        for p in sm.paths:
            top = [ev for ev, d in flatten_events(p.events) if d == 0]
            signed = [ev[3][0] for ev in top if ev[0] == "call" and isinstance(ev[2], str) and ev[2].split("[")[0].split("<")[0] in tuple("repo:" + s for s in SIGNERS_IN_MEMORY) and ev[3]]
            if not signed:
                continue
            n_paths += 1
            for E in signed:
                sig = SubC(E, "signatures")
                for ev, d in flatten_events(p.events):
                    if d != 0:
                        continue
                    signed = SubC(E, "signed")
                    stale = any(f[0] == "ne" and signed in (f[1], f[2]) for f in p.facts) or any(f[0] == "ret" and f[2] is True and is_call(f[1]) and f[1][1].startswith("repo:") and "modified" in f[1][1] and "signed" in f[1][1] for f in p.facts)
                    if ev[0] == "store" and ev[2] == sig and stale and is_lit(ev[3], "dict") and not ev[3][2]:
                        # the signed part was found to differ from the contents the present signatures
                        # were made over: they are void already, dropping them alters no valid signature
                        continue
                    if ev[0] == "store" and ev[2] == sig and not _mentions(ev[3], sig):
                        # (a new map built from the old one - dict(old), {**old} - keeps the entries)
                        bad.append("replaces %s at %s" % (show(sig)[:50], ev[1].loc()))
                    elif ev[0] == "del" and (ev[2] == sig or (isinstance(ev[2], tuple) and ev[2][0] == "sub" and ev[2][1] == sig)):
                        bad.append("deletes from %s at %s" % (show(sig)[:50], ev[1].loc()))
                    elif ev[0] == "mutcall" and ev[2] == sig and ev[3] in ("clear", "pop", "popitem"):
                        bad.append("%s() on %s at %s" % (ev[3], show(sig)[:50], ev[1].loc()))
        ctx.count(rule + ".callers")
        ctx.count(rule + ".paths", n_paths)
        ctx.ob(rule, "keeps-existing-signatures|%s" % q, site.loc(), "%s adds a signature through an in-memory signer %s" % (q, "and does not itself replace, clear or shrink the envelope's signature map on those paths (%d paths)" % n_paths if not bad else "but also: " + "; ".join(sorted(set(bad)))[:300] + " - signatures already present are lost"), not bad)
    ctx.floor(rule + ".callers", 2)


def _inplace_signers(ctx, rule="R3"):
    eng, prog = ctx.eng, ctx.prog
    fx = Effects(eng)
    # (function, index of the path/document parameter or None, "file" | "object")
    targets = [("signing.sign_all_in_repodata", "file"), ("root_signing.sign_root_metadata_via_gpg", "file"), ("root_signing.sign_root_metadata_dict_via_gpg", "object"), ("signing.sign_signable", "object")]
    for q, kind in targets:
        sm = eng.walk(q)
        site = fn_site(eng, sm)
        p0 = P(sm.params[0])
        if kind == "object":
            pw = fx.param_writes(sm.fi)
            bad = [(pn, st, k, s) for pn, st, k, s, _via in pw if not (pn == sm.params[0] and st and st[0] == ("sub", C("signatures")))]
            good = [x for x in pw if x[0] == sm.params[0]]
            ctx.count(rule + ".signers")
            ctx.ob(rule, "writes-only-signatures|%s" % q, site.loc(), "%s %s" % (q, "modifies its document only under ['signatures'] (%d store sites)" % len(good) if not bad else "modifies more than the signatures part: " + "; ".join("%s%s at %s" % (pn, steps_text(st), s.loc()) for pn, st, k, s in bad)[:300]), not bad and bool(good))
            continue
        # file based: loaded value L = load_metadata_from_file(<path param>)
        L = eng.expand(eng.repo_call("common.load_metadata_from_file", p0))
        stores, written = [], []
        documented = tuple(sm.params[:2])
        for p in sm.paths:
            if p.kind != "return":
                continue
            if refuted_at_defaults(eng, q, documented, set(p.facts)):
                continue  # (only with a non-default value of an optional parameter added later, e.g. out=)
            for ev in all_events(p.events):
                if ev[0] in ("store", "del", "mutcall") and root_of(ev[2]) == L:
                    stores.append(ev)
                elif ev[0] == "call" and ev[2].startswith("repo:") and ev[5][0] == "ok":
                    callee = eng.callee_index.get(ev[2])
                    if callee:
                        cfi, cb, order = callee
                        for pn, st, k, s, _via in fx.param_writes(cfi, cb):
                            if pn in order and order.index(pn) < len(ev[3]) and root_of(ev[3][order.index(pn)]) == L:
                                stores.append(("store", s, ("sub",) if False else _apply(ev[3][order.index(pn)], st), None))
                    if ev[2] == "repo:common.write_metadata_to_file":
                        written.append(ev)
        bad = []
        for ev in stores:
            _r, steps = access_path(ev[2])
            if not (steps and steps[0] == ("sub", C("signatures"))):
                bad.append("%s at %s" % (show(ev[2])[:80], ev[1].loc()))
        rebuilt = bool(written) and all(_rebuilt_from(eng.expand(ev[3][0]), L) for ev in written)
        ctx.count(rule + ".signers")
        ctx.ob(rule, "writes-only-signatures|%s" % q, site.loc(), "%s %s" % (q, ("writes {**loaded document, 'signatures': ...}: everything but the signatures part is carried over" if rebuilt and not stores else "modifies the loaded document only under ['signatures'] (%d store events)" % len(stores)) if not bad else "modifies more than the signatures part of the loaded document: " + "; ".join(sorted(set(bad)))[:300]), not bad and (bool(stores) or rebuilt))
        same = bool(written) and all((eng.expand(ev[3][0]) == L or _rebuilt_from(eng.expand(ev[3][0]), L)) and ev[3][1] == p0 for ev in written)
        ctx.ob(rule, "writes-back-what-it-loaded|%s" % q, site.loc(), "%s %s" % (q, "writes the loaded document back to the path it was loaded from" if same else "does not write the loaded value back to the same path: " + "; ".join("write_metadata_to_file(%s)" % ", ".join(show(a)[:60] for a in ev[3]) for ev in written)[:300]), same)
    ctx.floor(rule + ".signers", 4)


def _mentions(t, x):
    if t == x:
        return True
    if isinstance(t, (tuple, frozenset)):
        return any(_mentions(y, x) for y in t)
    return False


def _rebuilt_from(v, L):
    """v == {**L, "signatures": X}: a new document that carries every other field of L over"""
    from sa.terms import is_lit

    if not is_lit(v, "dict") or not v[2]:
        return False
    items = list(v[2])
    return items[0] == (("unpack",), L) and all(k == C("signatures") for k, _x in items[1:]) and len(items) >= 2


def _apply(term, steps):
    for k, v in steps:
        term = (k, term, v)
    return term
