#!/usr/bin/env python3
"""Seeded changes kept under /verif/seeded/<id>/ (patch.diff, demo.py, notes.md, meta.json).

  seeds.py run [id ...]   confirm + run every check against each seed (scratch worktrees under
                          /tmp, removed afterwards), update meta.json and seeded/RESULTS.md
  seeds.py table          rewrite seeded/RESULTS.md from the meta.json files
"""
import json
import os
import subprocess
import sys
from concurrent.futures import ThreadPoolExecutor

VERIF = os.path.dirname(os.path.dirname(os.path.abspath(__file__)))
SEEDED = os.path.join(VERIF, "seeded")


def run_one(sid):
    d = os.path.join(SEEDED, sid)
    meta = json.load(open(os.path.join(d, "meta.json")))
    p = subprocess.run([sys.executable, os.path.join(VERIF, "tools", "seed_eval.py"), d, meta["property"]], capture_output=True, text=True)
    try:
        r = json.loads(p.stdout[p.stdout.index("{") :])
    except Exception:
        r = {"error": (p.stdout + p.stderr)[-500:]}
    meta["confirmation"] = {
        "commands": [
            "git -C /repo worktree add --detach <scratch> HEAD",
            "cd <scratch> && PYTHONPATH=<scratch> /venv/bin/python <seed>/demo.py   # clean tree",
            "git -C <scratch> apply <seed>/patch.diff",
            "cd <scratch> && PYTHONPATH=<scratch> /venv/bin/python -m pytest -q -p no:cacheprovider tests",
            "cd <scratch> && PYTHONPATH=<scratch> /venv/bin/python <seed>/demo.py   # with the change",
            "./check <ID> --tier quick --no-write --root <scratch>   # for all 19 properties",
        ],
        "demo_exit_clean_tree": r.get("demo_clean_rc"),
        "demo_exit_with_change": r.get("demo_patched_rc"),
        "tests_with_change": r.get("tests"),
        "tests_failed_with_change": r.get("tests_failed"),
        "confirmed": r.get("confirmed"),
    }
    meta["detected_by"] = r.get("detected_by", {})
    meta["no_verdict"] = r.get("analysis_errors", {})
    meta["own_property_detects"] = r.get("own_property_detects")
    if "error" in r:
        meta["error"] = r["error"]
    json.dump(meta, open(os.path.join(d, "meta.json"), "w"), indent=1)
    return sid, meta


def table():
    """RESULTS.md from the meta.json files as they are (each records its seed's last run)"""
    lines = ["# Seeded changes: which checks report them", "", "(per seed: the result of its last `tools/seeds.py run`; the thorough tier of every check replays the seeds of its own property on every run)", "", "| seed | breaks | confirmed | own check | reported by | no verdict (exit 2) |", "|---|---|---|---|---|---|"]
    for sid in sorted(x for x in os.listdir(SEEDED) if os.path.isdir(os.path.join(SEEDED, x))):
        m = json.load(open(os.path.join(SEEDED, sid, "meta.json")))
        if "confirmation" not in m:
            continue
        lines.append("| %s | %s | %s | %s | %s | %s |" % (sid, m["property"], "yes" if m["confirmation"]["confirmed"] else "NO", "yes" if m.get("own_property_detects") else "no", ", ".join(sorted(m.get("detected_by", {}))) or "-", ", ".join(sorted(m.get("no_verdict", {}))) or "-"))
    open(os.path.join(SEEDED, "RESULTS.md"), "w").write("\n".join(lines) + "\n")
    print(len(lines) - 6, "rows")


def main():
    if sys.argv[1:2] == ["table"]:
        return table()
    ids = sys.argv[2:] or sorted(x for x in os.listdir(SEEDED) if os.path.isdir(os.path.join(SEEDED, x)))
    with ThreadPoolExecutor(max_workers=5) as ex:
        results = list(ex.map(run_one, ids))
    if not sys.argv[2:]:
        lines = ["# Seeded changes: which checks report them", "", "| seed | breaks | confirmed | own check | reported by | no verdict (exit 2) |", "|---|---|---|---|---|---|"]
        for sid, m in results:
            lines.append("| %s | %s | %s | %s | %s | %s |" % (sid, m["property"], "yes" if m["confirmation"]["confirmed"] else "NO", "yes" if m.get("own_property_detects") else "no", ", ".join(sorted(m["detected_by"])) or "-", ", ".join(sorted(m["no_verdict"])) or "-"))
        open(os.path.join(SEEDED, "RESULTS.md"), "w").write("\n".join(lines) + "\n")
    for sid, m in results:
        print(sid, "confirmed" if m["confirmation"]["confirmed"] else "NOT-CONFIRMED", "own" if m.get("own_property_detects") else "OWN-MISS", sorted(m["detected_by"]), ("no-verdict:" + ",".join(sorted(m["no_verdict"]))) if m["no_verdict"] else "")


if __name__ == "__main__":
    main()
