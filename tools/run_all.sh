#!/bin/bash
# usage: tools/run_all.sh [quick|thorough]
cd "$(dirname "$0")/.."
tier=${1:-quick}
rc=0
for p in $(python3 -c "import json;print(' '.join(c['property_id'] for c in json.load(open('MANIFEST.json'))['checks']))"); do
  out=$(./check $p --tier $tier 2>&1 | grep -v "WARNING conda")
  code=${PIPESTATUS[0]}
  echo "$out" | grep -E "VIOLATION|ANALYSIS-ERROR|SELFTEST-FAILURE|KNOWN-FINDING" 
  echo "$out" | tail -1
  if echo "$out" | grep -qE "VIOLATION|ANALYSIS-ERROR"; then rc=1; fi
done
exit $rc
