#!/usr/bin/env python3
"""Regenerates /verif/MANIFEST.json from the table below; a property is listed under
`checks` iff its rule module exists, otherwise under `not_applicable`."""
import json
import os

HERE = os.path.dirname(os.path.dirname(os.path.abspath(__file__)))
props = [json.loads(l) for l in open(os.path.join(HERE, "properties.jsonl"))]

TRUSTED = "Trusted base: CPython 3.12 ast + the may-raise/effect table sa/tables.py (A1), the engine sa/*.py; assumptions A1-A8 of DESIGN.md 3.11. "

META = {
    "C01": dict(
        technique="path-sensitive dominance/dataflow over the envelope verifier (ast walker, access-path terms, event matching against primitive-level oracle); custom rules",
        text="Decides the structural soundness argument of threshold verification for every input at once: every insertion into the counted-signer set (found by dataflow from the accept comparison) is dominated by key grammar, entry grammar for the mode (exactly the raw or the OpenPGP field set), membership in the caller's authorized list and a successful ed25519 verify event over this key, this entry and canonserialize(envelope['signed']); every accepting exit is dominated by len(set) >= the caller's threshold; the two primitives cannot return without verify() and do not swallow InvalidSignature; the message compared is the canonical form under an injective, history-free serializer configuration (C07-R1 re-run: shape, keywords, no caching decorator in the serializer's cone).",
        note="Decides the dominance/dataflow conditions, not the cryptography: that Ed25519 verification itself is sound is assumed (A2). Counter-based accumulators are not recognised (reported as no verdict).",
        ref="5 C01",
    ),
    "C02": dict(
        technique="escape analysis of the per-entry loop, exhaustive 128-row decision table extracted from loop-body paths, sibling writer/reader agreement, stdout taint, static import closure; custom rules",
        text="Shows that nothing a junk entry contains can abort or veto verification: the per-entry loop has an empty escape set for an unconstrained key/value, its decision function counts every entry the specification counts and skips or counts the others without leaving the loop (all 128 atom valuations), the only post-loop rejection is len(counted) < threshold exactly, the pre-loop argument checks demand no more of the authorized-key list than 'a list of hex keys', signer and verifier agree on serializer/field/codec/filing in its published configuration (C07-R1 re-run), printed text is ASCII-safe, and every module chain is in the static import closure.",
        note="Not decided: that an arbitrary conforming signer's bytes verify and that the shipped fixtures verify (crypto library, needs execution). An extra pre-loop rejection that can never coincide with sufficient signatures would still be reported.",
        ref="5 C02",
    ),
    "C03": dict(
        technique="path enumeration of verify_root with parameter-rooted access paths, linear normal form of the version gate, must-call event matching; custom rules",
        text="Decides the root-update rule structurally for all pairs of roots: every accepting path validated both arguments, established type root twice and new.version - trusted.version - 1 == 0, and contains successful verify_signable(new, K, t, gpg=True) calls with (K, t) read from the trusted root and from the new root; every rejection is the negation of one of these clauses. Access paths are rooted at parameters, so 'threshold read from the new root', a dropped self-check, a relaxed comparison or a swallowed error are each reported.",
        note="Value-level equalities between the two key sets (e.g. skipping one call when both rule sets are equal) are not recognised and would be reported.",
        ref="5 C03",
    ),
    "C05": dict(
        technique="path enumeration of verify_delegation, dominance of the membership guard, access-path matching of the verify_signable call; custom rules",
        text="Every accepting path of verify_delegation validated the trusted side, established delegation_name in trusted.signed.delegations (else UnknownRoleError) and called verify_signable on the untrusted parameter with pubkeys/threshold read from trusted.signed.delegations[<delegation_name parameter>] and the caller's gpg flag; explicit rejections are negations of these clauses; the schema checker that defines 'well-formed trusted metadata' is the documented schema and nothing stricter (C14's rules re-run).",
        note="Relies on C01/C02 for what verify_signable itself guarantees.",
        ref="5 C05",
    ),
    "C06": dict(
        technique="information-flow (taint) of raise conditions into the discriminating exception handler; must-evaluate rule for the type comparison; re-use of the C02 decision table",
        text="Shows that whether the type-vs-role comparison runs cannot depend on anything under untrusted['signatures']: the raise conditions of every exception the discriminating handler catches are propagated through callee summaries into the caller's access paths and must not mention an element of the signature map (this is exactly defect D2); on every accepting path where the signed part is well-formed delegating metadata the comparison was evaluated against the signed type; at every call of a verifier the signature mode is not computed from the envelope's unsigned signature map.",
        note="Monotonicity under removal of non-counting entries additionally relies on the C02 decision table, and 'valid signatures alone' on the soundness rules of C01; both rule sets are re-evaluated here.",
        ref="5 C06",
    ),
    "C04": dict(
        technique="reduction to statically decided facts (C03 step rule + effect/statelessness analysis + writer/loader pairing) with a paper induction over histories",
        text="The history property is reduced to four facts, each decided on the current tree by static analysis: the per-step rule of C03; statelessness of the library (no module/class/function state written, no caches, no mutable defaults, no ambient reads reachable from verifiers); verifiers never write their arguments (the trusted root in particular); files are written as canonserialize(x) and read back by plain json.load; any loop of the repository around verify_root pairs each offer with the root accepted just before it; the verify-metadata command's status is the library's verdict on the files it was given (C17's rules re-run). The induction over offer sequences on top of these facts is a written argument in DESIGN.md, not executed.",
        note="The induction is a paper argument; equality of the reloaded JSON value is a json-library fact (assumed).",
        ref="5 C04",
    ),
    "C08": dict(
        technique="event/term matching on walked paths of writer, loader and in-place signers (effective open modes, json.load hooks, store targets); custom rules",
        text="Structural half of persistence: the writer writes exactly canonserialize(metadata) once, in binary mode, to the named file, serializing before opening; the loader returns json.load(open(fname,'rb')) with default hooks, unmodified (also not changed in place); a writer that stages the bytes in another file and moves it onto the name with os.replace is accepted; the writer fails through the serializer or the file system only; every in-place signer stores only under ['signatures'] of the document and writes back the value it loaded to the path it loaded it from; callers of the in-memory signers do not drop the signatures already present; the interactive session saves the envelope it signed.",
        note="Partial: json.load(canonserialize(x)) == x and the resulting invariance of verdicts are properties of CPython's json module given these facts; not decided here.",
        ref="5 C08",
    ),
    "C12": dict(
        technique="interprocedural effect analysis (parameter write sets, module-state writes, caching constructs, ambient reads) over walker events + static import closure + stdout taint; fixture-backed zero-count rules",
        text="For all 29 validators/verifiers, the serializer, serialize_and_sign, wrap_as_signable and the key helpers the interprocedural write set on parameters is empty; no library function writes module/class/function state or mutates a module constant; no caching decorator, mutable default or class-level mutable attribute changed in place; no clock/environment/randomness/filesystem/warnings-filter/hash-seed-order read is reachable from a verifier; module chains are inside the static import closure; printed text is ASCII-safe; wrapping deep-copies. Thread-safety and order-independence follow from the absence of shared mutable state.",
        note="Aliasing through objects with adversarial dunder methods is excluded (A3). Each zero-count detector is shown to fire on /verif/fixtures/purity on every run.",
        ref="5 C12",
    ),
    "C17": dict(
        technique="path enumeration of the CLI handlers with call-event/fact matching, argparse registry extraction, entry-point statement dataflow (value of cli() must reach sys.exit), call-graph cone for signing handlers",
        text="Every path of the verify-metadata handler that can yield exit status 0 follows a successful verify_root / verify_delegation call chosen by the untrusted file's declared type, with the files bound as the parser declares them; all other returns are non-zero constants; cli() passes the handler's value through; each of the three entry points feeds it to sys.exit; signing handlers return a zero status only after the signer returned, the signers return only after write_metadata_to_file returned, and a returning writer has put the canonical bytes under the name (C08-R1 re-run: a writer that swallows its own failure is reported); no exception escapes a handler after the library has accepted; module-level names the handlers read are bound before the __main__ block of cli.py runs.",
        note="The installer-generated console-script wrapper is assumed to be sys.exit(cli()) (A7; cross-checked against /venv/bin in the thorough tier). What is printed is not checked, only the status.",
        ref="5 C17",
    ),
    "C18": dict(
        technique="typestate/ordering analysis over event sequences of all paths (failing ones included) of the in-place signers with I/O callees inlined",
        text="On every path of sign_all_in_repodata and sign_root_metadata_via_gpg the first write-mode open (or other mutation) of the target file comes after every operation that can raise; inside the write phase only writes of previously computed bytes occur; no write inside a loop; no second write phase; the serializer precedes the open; the CLI's key gate dominates the signer call. A failure at any earlier point therefore leaves the file untouched.",
        note="Failures of the final write() itself (disk full) are outside the property's scope (A6).",
        ref="5 C18",
    ),
    "C07": dict(
        technique="effective-configuration extraction of the one json.dumps call (explicit keywords merged over inspect.signature defaults), purity of the serializer's cone, message-sink dataflow through forwarding parameters; custom rules",
        text="Decides the part of the wire-format property that is in this source: canonserialize is json.dumps(obj, sort_keys=True, indent=2, ensure_ascii=True, default separators, allow_nan=True, ...).encode(utf-8) and nothing else; it reads no ambient state and no function it runs sits behind a caching decorator (functools caches key by ==/hash: 1, 1.0 and True would share bytes); every message reaching key.sign, key.verify (directly or as first digest chunk) or the GnuPG signer is a canonserialize(...) term at every library call site, so there is exactly one serializer on both sides and the one loader reads files in binary mode with default hooks (C08-R2 re-run); canonserialize fails only where json.dumps does (no pre-check of its own turns serializable values away), and no module of the package calls an interpreter-wide setter (sys.set_int_max_str_digits, locale, ...) or patches a library module.",
        note="Partial: determinism across hash seeds/locales, injectivity, parse-serialize fixpoint and float/surrogate rendering are properties of CPython's json module given this configuration; they are not decided (static reach ends at the configuration).",
        ref="5 C07",
    ),
    "C09": dict(
        technique="term-level matching of the wrap return value, the single store of sign_signable (target, value, ordering after the grammar check), interprocedural write set, sibling writer/reader agreement, exact accept gate",
        text="wrap_as_signable returns a fresh two-field dict with a deep copy under a JSON-type gate and refuses nothing but values that are not of a JSON type; sign_signable performs exactly one store, under hex(raw public key of the given private key), of {'signature': hex(sign(canonserialize(signable['signed'])))}, after the entry passed the grammar, and writes nothing else (so other signers' entries are untouched and order cannot matter); it fails only through validation of its arguments or a step of the signing pipeline; signer and verifier agree on serializer/field/codec/filing; the accept gate is exactly len(counted) >= threshold, the verifier's argument checks reject nothing the signer can produce (C02's rules re-run) and nothing but valid signatures by authorized keys counts (C01's rules re-run).",
        note="Partial: determinism/idempotence of Ed25519 and 'a changed payload stops verifying' are crypto-library facts (A2).",
        ref="5 C09",
    ),
    "C11": dict(
        technique="symbolic walk of sign_all_in_repodata over the loaded document term: event ordering (reset before inserts), per-section loop store matching, sibling-loop agreement, write-set and write-back pairing",
        text="For every repodata document: the signatures section is reset before any insert; both packages and packages.conda are iterated; each iteration stores exactly {hex(pub of signing key): {'signature': hex(sign(canonserialize(that artifact's metadata)))}} under the artifact's name; nothing else in the document is written; the same value is written back canonically (the writer writes exactly canonserialize(document)) to the same path; the entry shape is the one the envelope verifier reads; the functions the signer reaches print ASCII-safe text only (a progress line with an artifact name cannot abort the run).",
        note="Client-side acceptance of each reconstructed envelope additionally relies on C01/C02/C05; value-level idempotence ('signing again changes nothing') follows from determinism of Ed25519 (A2).",
        ref="5 C11",
    ),
    "C10": dict(
        technique="term-sequence normalisation of the bytes fed to the hash object (concatenation flattening, BE32/hex codec normal forms) compared with the RFC 4880 v4 trailer written as a term list; event matching for verify; transcription store/del matching",
        text="On every accepting path of verify_gpg_signature the hash is SHA-256 over exactly data || unhex(other_headers) || 04 ff || be32(len(unhex(other_headers))), and acceptance is from_public_bytes(unhex(key_value)).verify(unhex(signature['signature']), digest) behind the entry/key/data format gates, with InvalidSignature propagating - and raised by the ed25519 verification only; the verifier writes none of its arguments and reads no ambient state; module chains are in the import closure; the GPG signing path returns the signer's dict minus keyid (optionally see_also := keyid), signs canonserialize(signed) and files the entry under the raw key value q of the same fingerprint, changing nothing else in the envelope.",
        note="Partial: what real GnuPG / securesystemslib emit cannot be examined (neither is installed); transcription is checked assuming the signer returns {keyid, other_headers, signature}. Crypto soundness assumed (A2); lengths < 2**32 (A5).",
        ref="5 C10",
    ),
    "C14": dict(
        technique="obligation-table agreement: schema rows at primitive level vs facts on every accepting path (soundness) and classification of every rejecting path as the negation of a row (completeness); per-sub-validator grammar checks on inlined paths",
        text="The delegating-metadata checker is compared in both directions with the schema written from the property: every accepting path establishes all 17 rows (envelope, entry grammar for every signature value, required fields, supported type list = ['root','key_mgr'], spec-version str, delegations grammar, UTC expiration, timestamp-or-version, root=>version, optional fields well formed) and every rejecting path negates a row; each sub-validator used for a row decides exactly that row's grammar.",
        note="Leaf value grammars beyond the conjunct structure (int(x)==x, strptime's accepted digits) are assumed from CPython's documentation (A1); see C15.",
        ref="5 C14",
    ),
    "C15": dict(
        technique="path-wise comparison of each leaf validator (callees inlined to primitive facts) with its grammar written as a conjunction; predicate/raiser sibling agreement",
        text="Every leaf validator accepts only on paths that establish all conjuncts of its grammar ({fromhex ok, isalnum, lower()==s} + exact length 64/128/40; raw and OpenPGP entry shapes; duplicate-free key list) and rejects only on paths carrying the negation of a conjunct; each is_X predicate is True exactly when checkformat_X returns and False exactly when it raises, with a handler covering the raiser's whole escape set; every other is_* predicate that has a raising form answers for every value.",
        note="The lemma 'the three hex conjuncts <=> ([0-9a-f]{2})+' is a paper argument from CPython's documented bytes.fromhex / str.isalnum / str.lower (A1). A regex-based rewrite of a validator is not recognised (it would be reported).",
        ref="5 C15",
    ),
    "C16": dict(
        technique="return-term shape and provenance matching, per-field grammar facts on the returning path, must-call argument matching for the root wrapper, constant folding of default distances, term shape of the timestamp helper",
        text="build_delegating_metadata returns exactly the six fields with the arguments (or defaults) verbatim and the spec-version constant, each placed value having been validated against the same field->grammar table the checker is verified against (C14); build_root_metadata passes 'root' and a display with root and key_mgr delegations built from its arguments and returns the result unmodified; default expiry = now + 365 days, default timestamp = now + 0, produced as (utcnow().replace(microsecond=0)+delta).isoformat()+'Z'; for unconstrained arguments the builders' escape set is within {TypeError, ValueError}.",
        note="'Strictly after its timestamp' for two separate clock reads is a wall-clock relation and is not decided. Acceptance by the verifier after signing relies on C01-C03.",
        ref="5 C16",
    ),
    "C19": dict(
        technique="expanded-term equality for the key helper class methods under each concrete class binding (hex/unhex and Raw/Raw <-> from_*_bytes pairing), key-file write/read stream pairing, equivalence clause facts",
        text="Decides the codec pairing that losslessness rests on: to_hex = hex(to_bytes), from_hex = from_bytes(unhex(x)) behind the 64-hex gate, to_bytes = Raw/Raw serialization paired with from_public_bytes / from_private_bytes, bytes-like gate; key files are written and read with matching suffixes, roles and binary mode, and the reader turns a file away for its length only, never for the bytes it holds; is_equivalent_to is the symmetric byte comparison between same-type keys; checkformat_key is the isinstance gate; the signer files its entry under the public key derived from the key that signs.",
        note="Partial: equality with RFC 8032 vectors and value-level round trips are properties of the cryptography library (A2) - no static argument in reach.",
        ref="5 C19",
    ),
    "C13": dict(
        technique="exception-escape analysis (path-sensitive fact propagation + conditional summaries) over an ast-resolved program; call-graph acyclicity; custom rules",
        text="Static exception-escape analysis of all 24 public validators and 5 verifiers on every control-flow path: the escape set of each is within the documented families, named rejections carry the named classes, no while/recursion/mutated-iterable loops; a junk signature entry cannot end verify_signable with an error of its own (C02-R1 re-run) and every version mismatch is refused by verify_root (C03's rules re-run). Holds for every input because values are abstracted to guard facts; a new unguarded subscript, narrowed handler, assert-as-validation or foreign raise is reported with its call chain.",
        note="Not decided: recursion-depth and size limits (A4, A5); behaviour under adversarial dunder methods (A3).",
        ref="5 C13, 3.3-3.5",
    ),
}
NOT_BUILT = "check not built yet (build in progress, see DESIGN.md section 5)"

checks, na = [], []
for p in props:
    pid = p["id"]
    if os.path.exists(os.path.join(HERE, "rules", pid.lower() + ".py")) and pid in META:
        m = META[pid]
        checks.append(
            {
                "property_id": pid,
                "quick_cmd": "./check %s --tier quick" % pid,
                "thorough_cmd": "./check %s --tier thorough" % pid,
                "evidence_file": "/verif/evidence/%s.json" % pid,
                "replay_cmd_template": "./check --replay {path}",
                "engine": "sa",
                "level_claimed": {"category": "other", "text": m["text"], "design_ref": "DESIGN.md " + m["ref"]},
                "level_note": TRUSTED + m["note"],
                "technique": m["technique"],
            }
        )
    else:
        na.append({"property_id": pid, "reason": META.get(pid, {}).get("na_reason", NOT_BUILT)})

manifest = {
    "version": 1,
    "setup_cmd": "true",
    "hooks": {
        "guard": "CONDA_CONTENT_TRUST_VERIF",
        "enable": "none needed: the checks parse /repo's source; no hook is compiled into the repository",
        "baseline_off_cmd": "cd /repo && /venv/bin/python -m pytest -ra -q -p no:cacheprovider --timeout=900 --continue-on-collection-errors",
        "source_commits": [],
        "add_only": True,
    },
    "engines": [
        {
            "name": "sa",
            "path": "/verif/sa",
            "serves_properties": [c["property_id"] for c in checks],
            "kind_free_text": "repository-specific static analyser (pure ast): resolved program model, access-path terms, path-sensitive fact walker with conditional function summaries, may-raise/effect tables, static import closure, call graph; rules per property in /verif/rules; checker self-validation by AST-level mutation in /verif/selftest (thorough tier)",
        }
    ],
    "checks": checks,
    "notes": "Static analysis only (no repo code is executed). Exit 2 + ANALYSIS-ERROR = no verdict (unsupported construct, vanished anchor, failed self-validation). Known findings: /verif/KNOWN_FINDINGS.txt.",
    "not_applicable": na,
}
json.dump(manifest, open(os.path.join(HERE, "MANIFEST.json"), "w"), indent=1)
print("checks:", [c["property_id"] for c in checks], "not_applicable:", len(na))
