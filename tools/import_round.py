#!/usr/bin/env python3
"""import_round.py <out dir with CNN/{A,B}> <round> <letterA> <letterB>: copy seeds into seeded/"""
import json, os, shutil, sys
base, rnd, la, lb = sys.argv[1], int(sys.argv[2]), sys.argv[3], sys.argv[4]
props = {json.loads(l)["id"]: json.loads(l) for l in open("/verif/properties.jsonl")}
for pid in sorted(props):
    for src, dst in (("A", la), ("B", lb)):
        d = os.path.join(base, pid, src)
        out = "/verif/seeded/%s-%s" % (pid, dst)
        if not os.path.exists(d + "/patch.diff") or os.path.exists(out + "/meta.json"):
            continue
        os.makedirs(out, exist_ok=True)
        for f in ("patch.diff", "demo.py", "notes.md"):
            shutil.copy(os.path.join(d, f), out)
        lines = [l.strip() for l in open(d + "/notes.md").read().splitlines() if l.strip()]
        meta = {"id": "%s-%s" % (pid, dst), "round": rnd, "property": pid, "property_title": props[pid]["title"], "change": lines[0].lstrip("# ").strip()[:300], "needs_to_manifest": "see notes.md", "origin": "independent sub-agent (round %d: told to avoid all earlier ideas) given only the property text and a scratch worktree (no access to /verif)" % rnd}
        json.dump(meta, open(out + "/meta.json", "w"), indent=1)
        print("imported", out)
