#!/usr/bin/env python3
"""Run every check against a behaviour-preserving refactoring (patch.diff): any VIOLATION is a
false alarm, exit 2 means "no verdict".  usage: refactor_eval.py <patch.diff> [...]"""
import json
import os
import re
import shutil
import subprocess
import sys
import tempfile
from concurrent.futures import ThreadPoolExecutor

VERIF = os.path.dirname(os.path.dirname(os.path.abspath(__file__)))


def evaluate(patch):
    patch = os.path.abspath(patch)
    tmp = tempfile.mkdtemp(prefix="cct_ref_")
    try:
        shutil.copytree("/repo/conda_content_trust", os.path.join(tmp, "conda_content_trust"), ignore=shutil.ignore_patterns("__pycache__"))
        shutil.copy("/repo/pyproject.toml", tmp)
        r = subprocess.run(["git", "apply", "-p1", "--whitespace=nowarn", patch], cwd=tmp, capture_output=True, text=True)
        if r.returncode:
            return {"patch": patch, "error": r.stderr[-300:]}
        checks = [c["property_id"] for c in json.load(open(os.path.join(VERIF, "MANIFEST.json")))["checks"]]

        def run(p):
            q = subprocess.run(["./check", p, "--tier", "quick", "--no-write", "--root", tmp], cwd=VERIF, capture_output=True, text=True)
            out = q.stdout + q.stderr
            return p, q.returncode, re.findall(r"rule (\S+) at (\S+): (.*)", out), re.findall(r"ANALYSIS-ERROR (.*)", out)

        with ThreadPoolExecutor(max_workers=8) as ex:
            res = list(ex.map(run, checks))
        return {
            "patch": patch,
            "false_alarms": {p: ["%s @%s %s" % (a, b, c[:200]) for a, b, c in vio][:5] for p, rc, vio, err in res if rc == 1},
            "no_verdict": {p: err[0][:260] if err else "?" for p, rc, vio, err in res if rc == 2},
        }
    finally:
        shutil.rmtree(tmp, ignore_errors=True)


if __name__ == "__main__":
    for patch in sys.argv[1:]:
        r = evaluate(patch)
        name = "/".join(patch.split("/")[-3:-1])
        if "error" in r:
            print(name, "PATCH-ERROR", r["error"])
            continue
        print(name, "FALSE-ALARMS:" if r["false_alarms"] else "silent", sorted(r["false_alarms"]), ("NO-VERDICT:" + ",".join(sorted(r["no_verdict"]))) if r["no_verdict"] else "")
        for p, v in r["false_alarms"].items():
            for line in v[:3]:
                print("      ", p, line)
        seen = set()
        for p, v in r["no_verdict"].items():
            if v not in seen:
                seen.add(v)
                print("      ", p, "no verdict:", v)
