#!/usr/bin/env python3
"""Confirm a seeded change and run the checks against it.

usage: seed_eval.py <dir with patch.diff and demo.py> <property id> [--keep-worktree]

1. confirm (scratch worktree outside /repo and /verif): the demo passes on the clean tree,
   the patch applies, the pinned test suite still passes (67 passed / the 3 securesystemslib
   failures), the demo fails with the patch;
2. detect: every registered check (quick tier, --no-write) is run with --root <scratch
   worktree>; violations / analysis errors are collected.
Prints a JSON summary; the scratch worktree is removed afterwards.
"""
import json
import os
import re
import shutil
import subprocess
import sys
import tempfile
from concurrent.futures import ThreadPoolExecutor

VERIF = os.path.dirname(os.path.dirname(os.path.abspath(__file__)))


def sh(cmd, cwd=None, env=None, timeout=900):
    p = subprocess.run(cmd, shell=True, cwd=cwd, env=env, capture_output=True, text=True, timeout=timeout)
    out = "\n".join(l for l in (p.stdout + p.stderr).splitlines() if "WARNING conda" not in l)
    return p.returncode, out


def main():
    d, pid = sys.argv[1], sys.argv[2]
    patch = os.path.join(d, "patch.diff")
    demo = os.path.join(d, "demo.py")
    wt = tempfile.mkdtemp(prefix="wtc_", dir="/tmp")
    os.rmdir(wt)
    res = {"dir": d, "property": pid}
    try:
        rc, out = sh("git -C /repo worktree add -q --detach %s HEAD" % wt)
        if rc:
            res["error"] = "worktree: " + out
            return res
        env = dict(os.environ, PYTHONPATH=wt)
        rc, out = sh("/venv/bin/python %s" % demo, cwd=wt, env=env)
        res["demo_clean_rc"] = rc
        rc, out = sh("git -C %s apply --whitespace=nowarn %s" % (wt, patch))
        res["apply_rc"] = rc
        if rc:
            res["error"] = "apply: " + out[-500:]
            return res
        rc, out = sh("/venv/bin/python -m pytest -q -p no:cacheprovider tests -q", cwd=wt, env=env)
        m = re.search(r"(\d+) failed.*?(\d+) passed", out) or re.search(r"(\d+) passed", out)
        res["tests"] = m.group(0) if m else out[-300:]
        failed = sorted(set(re.findall(r"FAILED (\S+)", re.sub(r"\x1b\[[0-9;]*m", "", out))))
        res["tests_failed"] = failed
        res["tests_ok"] = all("test_root" in f for f in failed) and len(failed) <= 3 and "passed" in res["tests"]
        rc, out = sh("/venv/bin/python %s" % demo, cwd=wt, env=env)
        res["demo_patched_rc"] = rc
        res["demo_patched_tail"] = out[-400:]
        res["confirmed"] = res["demo_clean_rc"] == 0 and res["demo_patched_rc"] != 0 and res["tests_ok"]
        # detection
        checks = [c["property_id"] for c in json.load(open(os.path.join(VERIF, "MANIFEST.json")))["checks"]]

        def run(p):
            rc, out = sh("./check %s --tier quick --no-write --root %s" % (p, wt), cwd=VERIF)
            vio = re.findall(r"rule (\S+) at (\S+): (.*)", out)
            err = re.findall(r"ANALYSIS-ERROR (.*)", out)
            return p, rc, vio, err

        with ThreadPoolExecutor(max_workers=8) as ex:
            results = list(ex.map(run, checks))
        res["detected_by"] = {p: ["%s @%s %s" % (a, b, c[:140]) for a, b, c in vio][:4] for p, rc, vio, err in results if rc == 1}
        res["analysis_errors"] = {p: err for p, rc, vio, err in results if rc == 2}
        res["own_property_detects"] = pid in res["detected_by"]
        return res
    finally:
        sh("git -C /repo worktree remove --force %s" % wt)
        shutil.rmtree(wt, ignore_errors=True)
        for junk in ("test-report.xml", "coverage.xml"):
            pass


if __name__ == "__main__":
    r = main()
    print(json.dumps(r, indent=1))
