#!/usr/bin/env python3
"""Detection under refactored code: every seeded change applied on top of every behaviour-preserving
patch of the keep-corpus (where both apply), evaluated with the seed's own property's rule set.
usage: cross_eval.py [out.jsonl]   (scratch copies under /tmp, removed as it goes)"""
import importlib
import json
import os
import shutil
import subprocess
import sys
import tempfile
from concurrent.futures import ProcessPoolExecutor

VERIF = os.path.dirname(os.path.dirname(os.path.abspath(__file__)))
sys.path.insert(0, VERIF)
PKG = "conda_content_trust"


def combo(args):
    ref, seed, pid = args
    tmp = tempfile.mkdtemp(prefix="cct_x_", dir="/tmp")
    try:
        shutil.copytree(os.path.join("/repo", PKG), os.path.join(tmp, PKG), ignore=shutil.ignore_patterns("__pycache__"))
        for patch in (ref, seed):
            r = subprocess.run(["git", "apply", "-p1", "--whitespace=nowarn", patch], cwd=tmp, capture_output=True, text=True)
            if r.returncode:
                return (ref, seed, pid, "no-apply", "")
        overlay = {}
        for f in os.listdir(os.path.join(tmp, PKG)):
            if f.endswith(".py"):
                new = open(os.path.join(tmp, PKG, f), encoding="utf-8").read()
                op = os.path.join("/repo", PKG, f)
                old = open(op, encoding="utf-8").read() if os.path.exists(op) else None
                if new != old:
                    overlay["%s/%s" % (PKG, f)] = new
    finally:
        shutil.rmtree(tmp, ignore_errors=True)
    from sa import AnalysisError
    from sa.engine import Engine
    from sa.report import RuleContext, settle_unknown_calls

    try:
        eng = Engine("/repo", overlay)
        ctx = RuleContext(pid, eng, "quick")
        try:
            importlib.import_module("rules." + pid.lower()).run(ctx)
            settle_unknown_calls(ctx)
        except AnalysisError as e:
            if not ctx.violations:
                return (ref, seed, pid, "no-verdict", str(e)[:200])
        return (ref, seed, pid, "detected" if ctx.violations else "MISSED", "")
    except Exception as e:
        return (ref, seed, pid, "error", repr(e)[:200])


def main():
    out = sys.argv[1] if len(sys.argv) > 1 else "/tmp/xp/cross.jsonl"
    refs = sorted(os.path.join(VERIF, "refactorings", d, "patch.diff") for d in os.listdir(os.path.join(VERIF, "refactorings")) if os.path.exists(os.path.join(VERIF, "refactorings", d, "patch.diff")))
    seeds = []
    for d in sorted(os.listdir(os.path.join(VERIF, "seeded"))):
        mp = os.path.join(VERIF, "seeded", d, "meta.json")
        if os.path.exists(mp):
            seeds.append((os.path.join(VERIF, "seeded", d, "patch.diff"), json.load(open(mp))["property"]))
    work = [(r, s, pid) for r in refs for s, pid in seeds]
    n = {"detected": 0, "MISSED": 0, "no-verdict": 0, "no-apply": 0, "error": 0}
    with open(out, "w") as f, ProcessPoolExecutor(max_workers=16) as ex:
        for res in ex.map(combo, work, chunksize=8):
            n[res[3]] += 1
            if res[3] != "no-apply":
                f.write(json.dumps({"ref": res[0].split("/")[-2], "seed": res[1].split("/")[-2], "property": res[2], "verdict": res[3], "note": res[4]}) + "\n")
    print(n)


if __name__ == "__main__":
    main()
