from .runner import Case
from .snippets import *  # noqa: F401,F403

CLI = "cli"
VM_ROOT = "            conda_content_trust.authentication.verify_root(trusted_metadata, untrusted_metadata)\n"
VM_DEL = "            conda_content_trust.authentication.verify_delegation(delegation_name=metadata_type, untrusted_delegated_metadata=untrusted_metadata, trusted_delegating_metadata=trusted_metadata)\n"
VM_LOAD_U = "    untrusted_metadata = load_metadata_from_file(args.untrusted_metadata_filename)\n"
VM_LOAD_T = "    trusted_metadata = load_metadata_from_file(args.trusted_metadata_filename)\n"

CASES = [
    Case("revert-D5-package-main-drops-status", "break", REVERT_D5, "package-main"),
    Case("revert-D6-abort-returns-none", "break", REVERT_D6, "signed-before-success|cli.cli_sign_artifacts"),
    Case("failure-status-zero", "break", [(CLI, "            errorcode = 20\n", "            errorcode = 0\n")], "R1|"),
    Case("files-swapped", "break", [(CLI, VM_LOAD_U + VM_LOAD_T, "    untrusted_metadata = load_metadata_from_file(args.trusted_metadata_filename)\n    trusted_metadata = load_metadata_from_file(args.untrusted_metadata_filename)\n")], "R1|success-status"),
    Case("positional-order-swapped-in-parser", "break", [(CLI, "p_verifymd.add_argument('trusted_metadata_filename'", "p_verifymd.add_argument('zzz'"), (CLI, "p_verifymd.add_argument('untrusted_metadata_filename'", "p_verifymd.add_argument('trusted_metadata_filename'"), (CLI, "p_verifymd.add_argument('zzz'", "p_verifymd.add_argument('untrusted_metadata_filename'")], "R1|success-status"),
    Case("broad-except-pass", "break", [(CLI, VM_ROOT, "            try:\n    " + VM_ROOT + "            except Exception:\n                pass\n")], "R1|success-status"),
    Case("dispatch-on-trusted-type", "break", [(CLI, "    metadata_type = untrusted_metadata['signed']['type']\n", "    metadata_type = trusted_metadata['signed']['type']\n")], "R1|success-status"),
    Case("root-update-through-delegation-check", "break", [(CLI, "    if metadata_type == 'root':\n", "    if metadata_type == 'root' and False:\n")], "R1|success-status"),
    Case("cli-drops-handler-result", "break", [(CLI, "    return args.func(args)\n", "    args.func(args)\n    return 0\n")], "R2|cli-returns-handler-result"),
    Case("main-block-drops-status", "break", [(CLI, "    exit_status = cli(sys.argv[1:])\n    sys.exit(exit_status)", "    exit_status = cli(sys.argv[1:])")], "main-block|cli"),
    Case("delegation-name-hardcoded", "break", [(CLI, "verify_delegation(delegation_name=metadata_type,", "verify_delegation(delegation_name='key_mgr',")], "R1|success-status"),
    Case("success-before-verification", "break", [(CLI, VM_DEL + "            print('Metadata verification successful.')\n            return 0\n", "            print('Metadata verification successful.')\n            return 0\n")], "R1|success-status"),
    Case("gpg-sign-swallows-errors", "break", [(CLI, "    conda_content_trust.root_signing.sign_root_metadata_via_gpg(args.filename, gpg_key_fingerprint)\n", "    try:\n        conda_content_trust.root_signing.sign_root_metadata_via_gpg(args.filename, gpg_key_fingerprint)\n    except Exception as e:\n        print('signing failed')\n")], "signed-before-success|cli.cli_gpg_sign"),
    Case("handler-not-registered", "break", [(CLI, "    p_verifymd.set_defaults(func=cli_verify_metadata)\n", "")], "R"),
    Case("failure-returns-none", "break", [(CLI, "    return errorcode\n", "    return None\n")], "R1|"),
    # ---- preserving
    Case("raise-systemexit-form", "keep", [("__main__", "sys.exit(cli.cli())", "raise SystemExit(cli.cli())")]),
    Case("main-block-direct-exit", "keep", [(CLI, "    exit_status = cli(sys.argv[1:])\n    sys.exit(exit_status)", "    sys.exit(cli(sys.argv[1:]))")]),
    Case("constant-failure-codes", "keep", [(CLI, "    return errorcode\n", "    return errorcode if errorcode else 1\n")]),
    Case("positional-verifier-arguments", "keep", [(CLI, VM_DEL, "            conda_content_trust.authentication.verify_delegation(metadata_type, untrusted_metadata, trusted_metadata)\n")]),
    Case("rename-locals", "keep", [(CLI, lambda t: t.replace("untrusted_metadata =", "um =").replace("(trusted_metadata, untrusted_metadata)", "(trusted_metadata, um)").replace("untrusted_metadata['signed']", "um['signed']").replace("untrusted_delegated_metadata=untrusted_metadata", "untrusted_delegated_metadata=um") if "untrusted_metadata =" in t else None, None)]),
    Case("abort-with-other-nonzero-status", "keep", [(CLI, "does not.')\n        return 1\n", "does not.')\n        return 2\n")]),
]
MIN_APPLIED = 18
