from .runner import Case
from .snippets import *  # noqa: F401,F403
from .snippets import A, C_, S

SS_STORE = "    signable['signatures'][public_key_as_hexstr] = signature_dict"
SS_PUB = "    public_key_as_hexstr = PublicKey.to_hex(private_key.public_key())\n"
SS_SIG = "    signature_as_hexstr = serialize_and_sign(signable['signed'], private_key)\n"
SS_CHECK = "    checkformat_signature(signature_dict)\n"

CASES = [
    Case("shallow-copy-on-wrap", "break", [(S, "'signed': deepcopy(obj)}", "'signed': obj}")], "wrap-fresh-envelope"),
    Case("wrap-type-gate-dropped", "break", [(S, "    if type(obj) not in SUPPORTED_SERIALIZABLE_TYPES:\n", "    if False:\n")], "wrap-type-gate"),
    Case("files-under-caller-supplied-key", "break", [(S, "def sign_signable(signable, private_key):", "def sign_signable(signable, private_key, key_id=None):"), (S, SS_STORE, "    signable['signatures'][key_id or public_key_as_hexstr] = signature_dict")], "sign-signable|target"),
    Case("files-under-truncated-key", "break", [(S, SS_PUB, "    public_key_as_hexstr = PublicKey.to_hex(private_key.public_key())[:32]\n")], "sign-signable|target"),
    Case("files-under-private-key", "break", [(S, SS_PUB, "    public_key_as_hexstr = PrivateKey.to_hex(private_key)\n")], "sign-signable|target"),
    Case("signs-whole-envelope", "break", [(S, SS_SIG, "    signature_as_hexstr = serialize_and_sign(signable, private_key)\n")], "sign-signable|value"),
    Case("clears-other-signers", "break", [(S, SS_STORE, "    signable['signatures'] = {public_key_as_hexstr: signature_dict}")], "sign-signable|"),
    Case("removes-other-entries", "break", [(S, SS_STORE, "    signable['signatures'].clear()\n" + SS_STORE)], "sign-signable|"),
    Case("format-check-after-store", "break", [(S, SS_CHECK, ""), (S, SS_STORE, SS_STORE + "\n" + SS_CHECK.rstrip("\n"))], "checked-before-store"),
    Case("format-check-dropped", "break", [(S, SS_CHECK, "")], "checked-before-store"),
    Case("upper-case-signature", "break", [(S, "    signature_as_hexstr = signature_as_bytes.hex()\n", "    signature_as_hexstr = signature_as_bytes.hex().upper()\n")], "sign-signable|value"),
    Case("payload-normalised-in-place", "break", [(S, SS_SIG, "    signable['signed'] = deepcopy(signable['signed'])\n" + SS_SIG)], "sign-signable|"),
    Case("gate-made-strict", "break", [(A, VS_GATE, "    if len(good_sigs_from_trusted_keys) <= threshold:\n")], "threshold-boundary"),
    Case("key-argument-not-validated", "break", [(S, "    checkformat_key(private_key)\n", "")], "sign-signable|gates"),
    # ---- preserving
    Case("wrap-with-intermediate-variable", "keep", [(S, "    return {'signatures': {}, 'signed': deepcopy(obj)}", "    payload = deepcopy(obj)\n    return {'signatures': {}, 'signed': payload}")]),
    Case("inline-temporaries", "keep", [(S, SS_STORE, "    signable['signatures'][PublicKey.to_hex(private_key.public_key())] = signature_dict")]),
    Case("rename-locals", "keep", [(S, lambda t: t.replace("signature_as_hexstr", "sighex").replace("public_key_as_hexstr", "pubhex") if "public_key_as_hexstr" in t else None, None)]),
    Case("hexlify-decode-form", "keep", [(S, "    signature_as_hexstr = signature_as_bytes.hex()\n", "    import binascii\n    signature_as_hexstr = binascii.hexlify(signature_as_bytes).decode('utf-8')\n")]),
    Case("public-bytes-raw-form", "keep", [(C_, "        return key.public_bytes(serialization.Encoding.Raw, serialization.PublicFormat.Raw)", "        return key.public_bytes_raw()")]),
]
MIN_APPLIED = 16
