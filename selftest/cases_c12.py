from .runner import Case
from .snippets import *  # noqa: F401,F403
from .snippets import A, C_, S

IMPORT_A = "from struct import pack\n"
CASES = [
    Case("pops-junk-from-argument", "break", [(A, VS_HEXKEY_FILTER, VS_HEXKEY_FILTER.replace("            continue\n", "            signable['signatures'].pop(pubkey_hex, None)\n            continue\n"))], "param-write|authentication.verify_signable"),
    Case("sorts-authorized-keys-in-place", "break", [(A, VS_PAYLOAD, "    authorized_pub_keys.sort()\n" + VS_PAYLOAD)], "param-write|authentication.verify_signable|authorized_pub_keys"),
    Case("normalises-trusted-root", "break", [(A, VR_CHECK_T, VR_CHECK_T + "    trusted_current_root_metadata['signed']['version'] = int(trusted_current_root_metadata['signed']['version'])\n")], "param-write|authentication.verify_root|trusted_current_root_metadata"),
    Case("validator-sorts-keys-of-its-argument", "break", [(C_, "    checkformat_list_of_hex_keys(delegation['pubkeys'])\n", "    checkformat_list_of_hex_keys(delegation['pubkeys'])\n    delegation['pubkeys'].sort()\n")], "param-write|authentication.verify_root"),
    Case("checker-deletes-junk-entries", "break", [(C_, "    for k in metadata['signatures']:\n        checkformat_any_signature(metadata['signatures'][k])\n", "    for k in list(metadata['signatures']):\n        if not is_signature(metadata['signatures'][k]):\n            del metadata['signatures'][k]\n")], "param-write|common.checkformat_delegating_metadata"),
    Case("module-level-signature-cache", "break", [(A, IMPORT_A, IMPORT_A + "_VERIFIED = {}\n"), (A, "    public_key.verify(signature_bytes, data)\n", "    if signature in _VERIFIED:\n        return\n    public_key.verify(signature_bytes, data)\n    _VERIFIED[signature] = True\n")], "global-write|authentication.verify_signature"),
    Case("module-level-cache-flagged-as-mutated-constant", "break", [(A, IMPORT_A, IMPORT_A + "_VERIFIED = {}\n"), (A, "    public_key.verify(signature_bytes, data)\n", "    public_key.verify(signature_bytes, data)\n    _VERIFIED[signature] = True\n")], "mutable-constant|authentication._VERIFIED"),
    Case("functools-cache-on-predicate", "break", [(C_, "def is_hex_key(hex_key: Any) -> bool:", "@functools.cache\ndef is_hex_key(hex_key: Any) -> bool:"), (C_, "from binascii import hexlify, unhexlify\n", "import functools\nfrom binascii import hexlify, unhexlify\n")], "decorator|common.is_hex_key"),
    Case("lru-cache-on-key-constructor", "break", [(C_, "    @classmethod\n    def from_hex(cls, key_value_in_hex):", "    @classmethod\n    @lru_cache(maxsize=128)\n    def from_hex(cls, key_value_in_hex):"), (C_, "from binascii import hexlify, unhexlify\n", "from functools import lru_cache\nfrom binascii import hexlify, unhexlify\n")], "decorator|common.MixinKey.from_hex"),
    Case("shallow-copy-on-wrap", "break", [(S, "'signed': deepcopy(obj)}", "'signed': obj}")], "wrap-deepcopy"),
    Case("copy-copy-on-wrap", "break", [(S, "from copy import deepcopy\n", "from copy import copy, deepcopy\n"), (S, "'signed': deepcopy(obj)}", "'signed': copy(obj)}")], "wrap-deepcopy"),
    Case("revert-D1", "break", REVERT_D1, "R5|chain"),
    Case("revert-D7", "break", REVERT_D7, "print-sink"),
    Case("environment-switch", "break", [(A, IMPORT_A, "import os\n" + IMPORT_A), (A, VS_PAYLOAD, "    if os.environ.get('CCT_SKIP_VERIFY'):\n        return\n" + VS_PAYLOAD)], "ambient|authentication.verify_signable"),
    Case("clock-dependent-validator", "break", [(C_, "    return date_string\n", "    if datetime.strptime(date_string, '%Y-%m-%dT%H:%M:%SZ') > datetime.utcnow() + timedelta(days=3650):\n        raise ValueError('too far in the future')\n    return date_string\n")], "ambient|"),
    Case("mutable-default-memo", "break", [(C_, "def checkformat_hex_key(hex_key: Any) -> HexKey:\n", "def checkformat_hex_key(hex_key: Any, _memo={}) -> HexKey:\n    if hex_key in _memo:\n        return hex_key\n"), ], "mutable-default|common.checkformat_hex_key"),
    Case("global-call-counter", "break", [(A, IMPORT_A, IMPORT_A + "_CALLS = 0\n"), (A, VS_PAYLOAD, "    global _CALLS\n    _CALLS += 1\n" + VS_PAYLOAD)], "global-write|authentication.verify_signable"),
    Case("function-attribute-state", "break", [(A, VS_PAYLOAD, "    verify_signable.last_seen = signable\n" + VS_PAYLOAD)], "global-write|authentication.verify_signable"),
    Case("mutates-supported-types-constant", "break", [(S, "    if type(obj) not in SUPPORTED_SERIALIZABLE_TYPES:\n", "    SUPPORTED_SERIALIZABLE_TYPES.add(bytes)\n    if type(obj) not in SUPPORTED_SERIALIZABLE_TYPES:\n")], "mutable-constant|common.SUPPORTED_SERIALIZABLE_TYPES"),
    Case("serializer-strips-field-in-place", "break", [(C_, "        json_string = dumps(obj, indent=2, sort_keys=True)\n", "        if isinstance(obj, dict):\n            obj.pop('_comment', None)\n        json_string = dumps(obj, indent=2, sort_keys=True)\n")], "param-write|common.canonserialize"),
    # ---- preserving
    Case("sorts-a-local-copy", "keep", [(A, VS_PAYLOAD, "    keys_sorted = sorted(authorized_pub_keys)\n    keys_copy = list(authorized_pub_keys)\n    keys_copy.sort()\n" + VS_PAYLOAD)]),
    Case("local-accumulators", "keep", [(A, VS_PAYLOAD, "    skipped = []\n    skipped.append('x')\n    stats = {}\n    stats['n'] = 0\n" + VS_PAYLOAD)]),
    Case("staticmethod-decorator", "keep", [(C_, "    @classmethod\n    def to_hex(cls, key):", "    @classmethod\n    def to_hex2(cls, key):\n        return cls.to_hex(key)\n\n    @classmethod\n    def to_hex(cls, key):")]),
    Case("explicit-import-of-chain", "keep", [(A, "hasher = hashes.Hash(hashes.SHA256())", "hasher = cryptography.hazmat.primitives.hashes.Hash(cryptography.hazmat.primitives.hashes.SHA256())"), (A, "import cryptography.exceptions\n", "import cryptography.exceptions\nimport cryptography.hazmat.primitives.hashes\n")]),
    Case("module-constant-tuple", "keep", [(A, IMPORT_A, IMPORT_A + "_MODES = ('raw', 'gpg')\n")]),
    Case("wrap-with-intermediate-variable", "keep", [(S, "    return {'signatures': {}, 'signed': deepcopy(obj)}", "    payload = deepcopy(obj)\n    return {'signatures': {}, 'signed': payload}")]),
]
MIN_APPLIED = 22
