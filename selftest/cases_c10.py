from .runner import Case
from .snippets import *  # noqa: F401,F403
from .snippets import A, C_, S, RS

H_NEW = "    hasher = hashes.Hash(hashes.SHA256())\n"
H_DATA = "    hasher.update(data)\n"
H_HDR = "    hasher.update(additional_header_data)\n"
H_TRAIL = "    hasher.update(b'\\x04\\xff')\n"
H_LEN = "    hasher.update(pack('>I', len(additional_header_data)))\n"

CASES = [
    Case("sha512", "break", [(A, H_NEW, "    hasher = hashes.Hash(hashes.SHA512())\n")], "R1|sha256"),
    Case("little-endian-length", "break", [(A, H_LEN, "    hasher.update(pack('<I', len(additional_header_data)))\n")], "digest-sequence"),
    Case("length-of-hex-text", "break", [(A, H_LEN, "    hasher.update(pack('>I', len(signature['other_headers'])))\n")], "digest-sequence"),
    Case("trailer-04-00", "break", [(A, H_TRAIL, "    hasher.update(b'\\x04\\x00')\n")], "digest-sequence"),
    Case("header-before-data", "break", [(A, H_DATA + H_HDR, H_HDR + H_DATA)], "digest-sequence"),
    Case("hashes-the-signature", "break", [(A, H_HDR, H_HDR + "    hasher.update(bytes.fromhex(signature['signature']))\n")], "digest-sequence"),
    Case("length-dropped", "break", [(A, H_LEN, "")], "digest-sequence"),
    Case("sixteen-bit-length", "break", [(A, H_LEN, "    hasher.update(pack('>H', len(additional_header_data)))\n")], "digest-sequence"),
    Case("verifies-raw-data-not-digest", "break", [(A, "    public_key.verify(signature_bytes, digest)\n", "    public_key.verify(signature_bytes, data)\n")], "digest-sequence"),
    Case("key-from-see-also", "break", [(A, "    public_key = PublicKey.from_hex(key_value)\n    additional_header_data", "    public_key = PublicKey.from_hex(signature.get('key', key_value))\n    additional_header_data")], "verify-event"),
    Case("revert-D1", "break", REVERT_D1, "unimported-chain"),
    Case("entry-gate-dropped", "break", [(A, "    checkformat_gpg_signature(signature)\n    checkformat_hex_key(key_value)\n", "    checkformat_hex_key(key_value)\n")], "R2|gates"),
    Case("transcription-keeps-keyid", "break", [(RS, "    del sig['keyid']\n", "")], "transcribe-entry"),
    Case("transcription-renames-to-gpg-key-fingerprint", "break", [(RS, "        sig['see_also'] = sig['keyid']\n", "        sig['gpg_key_fingerprint'] = sig['keyid']\n")], "transcribe-entry"),
    Case("filed-under-fingerprint", "break", [(RS, "    root_signable['signatures'][raw_pubkey] = sig_dict\n", "    root_signable['signatures'][gpg_key_fingerprint] = sig_dict\n")], "transcribe-filing"),
    Case("signs-whole-envelope-via-gpg", "break", [(RS, "    data_to_sign = canonserialize(root_signable['signed'])\n", "    data_to_sign = canonserialize(root_signable)\n")], "transcribe-filing"),
    Case("wrong-key-parameter", "break", [(RS, "    return key_parameters['keyval']['public']['q']", "    return key_parameters['keyid']")], "transcribe-q"),
    Case("swallows-invalid-signature", "break", [(A, "    public_key.verify(signature_bytes, digest)\n", "    try:\n        public_key.verify(signature_bytes, digest)\n    except cryptography.exceptions.InvalidSignature:\n        print('bad signature')\n")], "R"),
    # ---- preserving
    Case("single-update-of-concatenation", "keep", [(A, H_DATA + H_HDR + H_TRAIL + H_LEN, "    hasher.update(data + additional_header_data + b'\\x04\\xff' + pack('>I', len(additional_header_data)))\n")]),
    Case("to-bytes-big-endian", "keep", [(A, H_LEN, "    hasher.update(len(additional_header_data).to_bytes(4, 'big'))\n")]),
    Case("hashlib-sha256", "keep", [(A, H_NEW + H_DATA, "    import hashlib\n    hasher = hashlib.sha256(data)\n"), (A, "    digest = hasher.finalize()\n", "    digest = hasher.digest()\n")]),
    Case("unhexlify-instead-of-fromhex", "keep", [(A, "    additional_header_data = bytes.fromhex(signature['other_headers'])\n", "    from binascii import unhexlify\n    additional_header_data = unhexlify(signature['other_headers'])\n")]),
    Case("network-byte-order-format", "keep", [(A, H_LEN, "    hasher.update(pack('!I', len(additional_header_data)))\n")]),
    Case("explicit-backend-with-import", "keep", [(A, "import cryptography.exceptions\n", "import cryptography.exceptions\nfrom cryptography.hazmat.backends import default_backend\n"), (A, H_NEW, "    hasher = hashes.Hash(hashes.SHA256(), default_backend())\n")]),
]
MIN_APPLIED = 20
