from .cases_c01 import extract_helper, strip_prints
from .runner import Case
from .snippets import *  # noqa: F401,F403
from .snippets import A, C_, S


def to_logging(t):
    if "print('Ignoring" not in t:
        return None
    return "import logging\n" + t.replace("print('Ignoring", "logging.getLogger(__name__).warning('Ignoring")


CASES = [
    Case("revert-D7-print-untrusted-text", "break", REVERT_D7, "loop-escape|UnicodeEncodeError"),
    Case("revert-D7-print-sink", "break", REVERT_D7, "print-sink"),
    Case("revert-D1-unimported-submodule", "break", REVERT_D1, "unimported-chain"),
    Case("raise-on-malformed-key", "break", [(A, VS_HEXKEY_FILTER, "        if not is_hex_key(pubkey_hex):\n            raise ValueError('malformed key in signatures')\n")], "loop-escape|ValueError"),
    Case("grammar-checker-raises-in-loop", "break", [(A, VS_HEXKEY_FILTER, "        checkformat_hex_key(pubkey_hex)\n")], "loop-escape"),
    Case("break-after-bad-signature", "break", [(A, VS_RAW_TRY, VS_RAW_TRY.replace("                continue\n", "                break\n"))], "loop-exit|break"),
    Case("stop-after-three-good", "break", [(A, VS_LOOP_HEAD, VS_LOOP_HEAD + "        if len(good_sigs_from_trusted_keys) >= 3:\n            continue\n")], "unjustified-skip"),
    Case("requires-see-also", "break", [(A, VS_AUTH_FILTER, VS_AUTH_FILTER + "        if gpg and 'see_also' not in signature:\n            continue\n")], "unjustified-skip"),
    Case("raw-mode-demands-gpg-shape", "break", [(A, "            if not is_signature(signature):\n", "            if not is_gpg_signature(signature):\n")], "unjustified-skip"),
    Case("signer-uses-other-json-options", "break", [(S, "    serialized = canonserialize(obj)\n", "    import json\n    serialized = json.dumps(obj, sort_keys=True).encode('utf-8')\n")], "agree-entry"),
    Case("signer-upper-case-hex", "break", [(S, "    signature_as_hexstr = signature_as_bytes.hex()\n", "    signature_as_hexstr = signature_as_bytes.hex().upper()\n")], "agree-entry"),
    Case("signer-files-under-truncated-key", "break", [(S, "    public_key_as_hexstr = PublicKey.to_hex(private_key.public_key())\n", "    public_key_as_hexstr = PublicKey.to_hex(private_key.public_key())[:16]\n")], "agree-filing"),
    Case("signer-signs-whole-envelope", "break", [(S, "    signature_as_hexstr = serialize_and_sign(signable['signed'], private_key)\n", "    signature_as_hexstr = serialize_and_sign(signable, private_key)\n")], "agree-entry"),
    Case("gate-made-strict", "break", [(A, VS_GATE, "    if len(good_sigs_from_trusted_keys) <= threshold:\n")], "accept-exact"),
    Case("all-signatures-must-be-good", "break", [(A, VS_GATE, "    if len(good_sigs_from_trusted_keys) < threshold or len(good_sigs_from_trusted_keys) != len(signable['signatures']):\n")], "post-loop-reject"),
    Case("extra-argument-rejection", "break", [(A, VS_PAYLOAD, "    if len(authorized_pub_keys) > 10:\n        raise ValueError('too many keys')\n" + VS_PAYLOAD)], "pre-loop-reject"),
    Case("unauthorized-print-made-unsafe", "break", [(A, "that is not authorized to sign this metadata.')", "that is not authorized to sign this metadata.' + str(signature))")], "print-sink"),
    Case("repr-is-not-ascii-safe", "break", [(A, "does not look like a key value: ' + ascii(pubkey_hex))", "does not look like a key value: ' + repr(pubkey_hex))")], "print-sink"),
    Case("fstring-str-conversion", "break", [(A, "print('Ignoring signature from \"key\" with public key value that does not look like a key value: ' + ascii(pubkey_hex))", "print(f'Ignoring signature from key {pubkey_hex}')")], "print-sink"),
    Case("entry-limit", "break", [(A, VS_LOOP_HEAD, "    for pubkey_hex, signature in list(signable['signatures'].items())[:8]:\n")], ""),
    # ---- preserving
    Case("prints-to-logging", "keep", [(A, to_logging, None)]),
    Case("prints-removed", "keep", [(A, strip_prints, None)]),
    Case("reorder-cheap-filters", "keep", [(A, VS_GPGSHAPE_FILTER + VS_AUTH_FILTER, VS_AUTH_FILTER + VS_GPGSHAPE_FILTER)]),
    Case("extract-entry-helper", "keep", [(A, extract_helper, None)]),
    Case("fstring-ascii-conversion", "keep", [(A, "print('Ignoring signature from \"key\" with public key value that does not look like a key value: ' + ascii(pubkey_hex))", "print(f'Ignoring signature from key {pubkey_hex!a}')")]),
    Case("percent-a-format", "keep", [(A, "print('Ignoring \"signature\" that does not look like a gpg signature value: ' + ascii(signature))", "print('Ignoring signature %s' % ascii(signature))")]),
    Case("early-accept-once-threshold-reached", "keep", [(A, VS_RAW_TRY, VS_RAW_TRY + "                if len(good_sigs_from_trusted_keys) >= threshold:\n                    return\n")]),
    Case("set-instead-of-dict", "keep", [(A, "    good_sigs_from_trusted_keys = {}\n", "    good_sigs_from_trusted_keys = set()\n"), (A, VS_RAW_TRY, VS_RAW_TRY.replace("good_sigs_from_trusted_keys[pubkey_hex] = signature", "good_sigs_from_trusted_keys.add(pubkey_hex)")), (A, VS_GPG_TRY, VS_GPG_TRY.replace("good_sigs_from_trusted_keys[pubkey_hex] = signature", "good_sigs_from_trusted_keys.add(pubkey_hex)"))]),
    Case("signer-hexlify-decode", "keep", [(S, "    signature_as_hexstr = signature_as_bytes.hex()\n", "    import binascii\n    signature_as_hexstr = binascii.hexlify(signature_as_bytes).decode('ascii')\n")]),
    Case("gate-written-the-other-way", "keep", [(A, VS_GATE, "    if threshold > len(good_sigs_from_trusted_keys):\n")]),
]
MIN_APPLIED = 24
