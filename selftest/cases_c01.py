from .runner import Case
from .snippets import *  # noqa: F401,F403
from .snippets import A, C_

HELPER = '''
def _entry_counts(pubkey_hex, signature, authorized_pub_keys, gpg, signed_data):
    if not is_hex_key(pubkey_hex):
        return False
    if gpg and (not is_gpg_signature(signature)):
        return False
    if pubkey_hex not in authorized_pub_keys:
        return False
    if not gpg:
        if not is_signature(signature):
            return False
        public = PublicKey.from_hex(pubkey_hex)
        try:
            verify_signature(signature['signature'], public, signed_data)
        except cryptography.exceptions.InvalidSignature:
            return False
        return True
    try:
        verify_gpg_signature(signature, pubkey_hex, signed_data)
    except cryptography.exceptions.InvalidSignature:
        return False
    return True

def verify_gpg_signature('''


def extract_helper(t):
    i = t.find(VS_LOOP_HEAD)
    j = t.find(VS_GATE)
    if i < 0 or j < 0 or "\ndef verify_gpg_signature(" not in t:
        return None
    body = VS_LOOP_HEAD + "        if _entry_counts(pubkey_hex, signature, authorized_pub_keys, gpg, signed_data):\n            good_sigs_from_trusted_keys[pubkey_hex] = signature\n"
    t = t[:i] + body + t[j:]
    return t.replace("\ndef verify_gpg_signature(", HELPER, 1)


def strip_prints(t):
    import re

    if "print('Ignoring" not in t:
        return None
    return re.sub(r"\n\s+print\('Ignoring[^\n]*", "", t)


CASES = [
    Case("authorization-filter-dropped", "break", [(A, VS_AUTH_FILTER, "")], "insert-authorized"),
    Case("counts-all-entries", "break", [(A, VS_GATE, "    if len(signable['signatures']) < threshold:\n")], "R3|"),
    Case(
        "invalid-signature-swallowed-raw",
        "break",
        [(A, VS_RAW_TRY, "            try:\n                verify_signature(signature['signature'], public, signed_data)\n            except cryptography.exceptions.InvalidSignature:\n                pass\n            good_sigs_from_trusted_keys[pubkey_hex] = signature\n")],
        "insert-crypto|raw",
    ),
    Case(
        "invalid-signature-swallowed-gpg",
        "break",
        [(A, VS_GPG_TRY, "            try:\n                verify_gpg_signature(signature, pubkey_hex, signed_data)\n            except cryptography.exceptions.InvalidSignature:\n                pass\n            good_sigs_from_trusted_keys[pubkey_hex] = signature\n")],
        "insert-crypto|gpg",
    ),
    Case("verifies-over-whole-envelope", "break", [(A, VS_PAYLOAD, "    signed_data = canonserialize(signable)\n")], "insert-crypto"),
    Case("verifies-over-other-serialization", "break", [(A, VS_PAYLOAD, "    signed_data = str(signable['signed']).encode('utf-8')\n")], "insert-crypto"),
    Case("key-normalised-before-grammar", "break", [(A, VS_LOOP_HEAD, VS_LOOP_HEAD + "        pubkey_hex = pubkey_hex.lower()\n")], "insert-key"),
    Case("threshold-clamped", "break", [(A, VS_PAYLOAD, VS_PAYLOAD + "    threshold = min(threshold, len(authorized_pub_keys))\n")], "R3|"),
    Case("threshold-off-by-one", "break", [(A, VS_GATE, "    if len(good_sigs_from_trusted_keys) < threshold - 1:\n")], "threshold-gate"),
    Case("threshold-zero-allowed", "break", [(A, VS_THRESH_GATE, "    if not isinstance(threshold, int):\n        raise TypeError('threshold must be an integer.')\n")], "arg-gate|threshold"),
    Case("early-accept-before-loop", "break", [(A, VS_PAYLOAD, VS_PAYLOAD + "    if not signable['signatures'] and gpg is None:\n        return\n")], "threshold-gate"),
    Case("primitive-argument-swap", "break", [(A, "    public_key.verify(signature_bytes, data)", "    public_key.verify(data, signature_bytes)")], "primitive-accept|authentication.verify_signature"),
    Case("primitive-swallows-invalid", "break", [(A, "    public_key.verify(signature_bytes, data)\n", "    try:\n        public_key.verify(signature_bytes, data)\n    except cryptography.exceptions.InvalidSignature:\n        pass\n")], "primitive-"),
    Case("gpg-primitive-swallows-invalid", "break", [(A, "    public_key.verify(signature_bytes, digest)\n", "    try:\n        public_key.verify(signature_bytes, digest)\n    except Exception:\n        return\n")], "primitive-"),
    Case("counts-entries-in-a-list", "break", [(A, "    good_sigs_from_trusted_keys = {}\n", "    good_sigs_from_trusted_keys = []\n"), (A, VS_RAW_TRY, VS_RAW_TRY.replace("good_sigs_from_trusted_keys[pubkey_hex] = signature", "good_sigs_from_trusted_keys.append(signature)")), (A, VS_GPG_TRY, VS_GPG_TRY.replace("good_sigs_from_trusted_keys[pubkey_hex] = signature", "good_sigs_from_trusted_keys.append(signature)"))], "R"),
    Case("authorization-by-prefix", "break", [(A, "        if pubkey_hex not in authorized_pub_keys:\n", "        if not any([k.startswith(pubkey_hex[:8]) for k in authorized_pub_keys]):\n")], "insert-authorized"),
    Case("key-taken-from-entry", "break", [(A, "            public = PublicKey.from_hex(pubkey_hex)\n", "            public = PublicKey.from_hex(signature.get('key', pubkey_hex))\n")], "insert-crypto|raw"),
    Case("gpg-key-taken-from-entry", "break", [(A, "                verify_gpg_signature(signature, pubkey_hex, signed_data)\n", "                verify_gpg_signature(signature, signature.get('see_also', pubkey_hex) + pubkey_hex[40:], signed_data)\n")], "insert-crypto|gpg"),
    Case("envelope-gate-dropped", "break", [(A, "    if not is_signable(signable):\n        raise TypeError('verify_signable expects a signable dictionary.  Given argument failed the test.')\n", "")], "arg-gate|envelope"),
    Case("gpg-digest-skips-payload", "break", [(A, "    hasher.update(data)\n", "")], "R"),
    Case("filed-under-wrong-key", "break", [(A, VS_RAW_TRY, VS_RAW_TRY.replace("good_sigs_from_trusted_keys[pubkey_hex]", "good_sigs_from_trusted_keys[signature['signature']]"))], "insert-key"),
    Case("stale-payload-cached-in-default-arg", "break", [(A, "def verify_signable(signable, authorized_pub_keys, threshold, gpg=False):", "def verify_signable(signable, authorized_pub_keys, threshold, gpg=False, _cache={}):"), (A, VS_PAYLOAD, "    signed_data = _cache.setdefault(id(signable), canonserialize(signable['signed']))\n")], "insert-crypto"),
    # ---- preserving
    Case("rename-locals", "keep", [(A, lambda t: t.replace("good_sigs_from_trusted_keys", "good").replace("pubkey_hex", "kh") if "good_sigs_from_trusted_keys" in t else None, None)]),
    Case("reorder-cheap-filters", "keep", [(A, VS_GPGSHAPE_FILTER + VS_AUTH_FILTER, VS_AUTH_FILTER + VS_GPGSHAPE_FILTER)]),
    Case("extract-entry-helper", "keep", [(A, extract_helper, None)]),
    Case("prints-removed", "keep", [(A, strip_prints, None)]),
    Case("set-instead-of-dict", "keep", [(A, "    good_sigs_from_trusted_keys = {}\n", "    good_sigs_from_trusted_keys = set()\n"), (A, VS_RAW_TRY, VS_RAW_TRY.replace("good_sigs_from_trusted_keys[pubkey_hex] = signature", "good_sigs_from_trusted_keys.add(pubkey_hex)")), (A, VS_GPG_TRY, VS_GPG_TRY.replace("good_sigs_from_trusted_keys[pubkey_hex] = signature", "good_sigs_from_trusted_keys.add(pubkey_hex)"))]),
    Case("gate-written-the-other-way", "keep", [(A, VS_GATE, "    if threshold > len(good_sigs_from_trusted_keys):\n")]),
    Case("gate-as-not-ge", "keep", [(A, VS_GATE, "    if not len(good_sigs_from_trusted_keys) >= threshold:\n")]),
    Case("early-accept-once-threshold-reached", "keep", [(A, VS_RAW_TRY, VS_RAW_TRY + "                if len(good_sigs_from_trusted_keys) >= threshold:\n                    return\n")]),
    Case("payload-serialized-per-use", "keep", [(A, "verify_signature(signature['signature'], public, signed_data)", "verify_signature(signature['signature'], public, canonserialize(signable['signed']))")]),
    Case("keyword-arguments", "keep", [(A, "verify_gpg_signature(signature, pubkey_hex, signed_data)", "verify_gpg_signature(signature=signature, key_value=pubkey_hex, data=signed_data)")]),
    Case("threshold-gate-ge-1", "keep", [(A, "threshold <= 0:", "threshold < 1:")]),
]
MIN_APPLIED = 25
