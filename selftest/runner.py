"""Checker self-validation (thorough tier, DESIGN 3.10c).

For each property a list of cases is evaluated on in-memory overlays of the *current*
tree (source text only - nothing from an overlay is executed):

  break : an edit that breaks the property while staying syntactically valid -> the
          property's rules must report a violation whose key contains `expect`
  keep  : a behaviour-preserving rewrite -> the rules must stay silent

An edit is a list of (module short name, old text, new text) replacements applied to the
canonical `ast.unparse` form of the module, so cases do not depend on formatting or
comments.  A case whose old text does not occur in the current tree is skipped (counted);
a case that is applied and gives the wrong verdict is a checker failure -> ANALYSIS-ERROR.
"""
from __future__ import annotations

import ast
import importlib
import os
from concurrent.futures import ProcessPoolExecutor

from sa import AnalysisError
from sa.model import PKG


class Case:
    def __init__(self, name, kind, edits, expect=None, why=""):
        self.name, self.kind, self.edits, self.expect, self.why = name, kind, edits, expect, why


def canonical(root, short):
    path = os.path.join(root, PKG, short + ".py")
    with open(path, encoding="utf-8") as f:
        return ast.unparse(ast.parse(f.read()))


def build_overlay(root, edits):
    """-> overlay dict or None if some old text is absent"""
    texts = {}
    for short, old, new in edits:
        if short not in texts:
            try:
                texts[short] = canonical(root, short)
            except (OSError, SyntaxError):
                return None
        if callable(old):
            res = old(texts[short])
            if res is None:
                return None
            texts[short] = res
            continue
        if old not in texts[short]:
            return None
        texts[short] = texts[short].replace(old, new, 1)
    out = {}
    for short, t in texts.items():
        try:
            ast.parse(t)
        except SyntaxError:
            raise AnalysisError("self-test edit produced invalid syntax in %s" % short)
        out["%s/%s.py" % (PKG, short)] = t
    return out


def seed_overlay(root, patch_path):
    """overlay produced by applying a seeded patch.diff to a throw-away copy of the package
    (None if it does not apply to the current tree)"""
    import shutil
    import subprocess
    import tempfile

    tmp = tempfile.mkdtemp(prefix="cct_seed_")
    try:
        shutil.copytree(os.path.join(root, PKG), os.path.join(tmp, PKG), ignore=shutil.ignore_patterns("__pycache__"))
        r = subprocess.run(["git", "apply", "-p1", "--whitespace=nowarn", patch_path], cwd=tmp, capture_output=True, text=True)
        if r.returncode != 0:
            return None
        out = {}
        for f in os.listdir(os.path.join(tmp, PKG)):
            if f.endswith(".py"):
                new = open(os.path.join(tmp, PKG, f), encoding="utf-8").read()
                orig_path = os.path.join(root, PKG, f)
                old = open(orig_path, encoding="utf-8").read() if os.path.exists(orig_path) else None
                if new != old:
                    out["%s/%s" % (PKG, f)] = new
        return out or None
    finally:
        shutil.rmtree(tmp, ignore_errors=True)


def seed_cases(pid):
    """the independently seeded changes written against this property (regression cases)"""
    import json

    base = os.path.join(os.path.dirname(os.path.dirname(os.path.abspath(__file__))), "seeded")
    out = []
    if os.path.isdir(base):
        for d in sorted(os.listdir(base)):
            mp = os.path.join(base, d, "meta.json")
            if os.path.exists(mp) and json.load(open(mp)).get("property") == pid:
                out.append(Case("seed:" + d, "break", [("@seed", os.path.join(base, d, "patch.diff"), None)], ""))
    return out


def refactor_cases():
    """the independently written behaviour-preserving refactorings (must stay silent for every
    property; 'no verdict' is tolerated and counted)"""
    base = os.path.join(os.path.dirname(os.path.dirname(os.path.abspath(__file__))), "refactorings")
    out = []
    if os.path.isdir(base):
        for d in sorted(os.listdir(base)):
            pp = os.path.join(base, d, "patch.diff")
            if os.path.exists(pp):
                out.append(Case("refactor:" + d, "keep", [("@seed", pp, None)], None))
    return out


def _run_case(args):
    pid, root, name, kind, edits, expect = args
    from sa.engine import Engine
    from sa.report import RuleContext

    try:
        if edits and edits[0][0] == "@seed":
            overlay = seed_overlay(root, edits[0][1])
        else:
            overlay = build_overlay(root, edits)
    except AnalysisError as e:
        return (name, kind, "error", str(e), [])
    if overlay is None:
        return (name, kind, "skipped", "pattern not present in the current tree", [])
    try:
        eng = Engine(root, overlay)
        ctx = RuleContext(pid, eng, "quick")
        mod = importlib.import_module("rules." + pid.lower())
        mod.run(ctx)
        from sa.report import settle_unknown_calls

        settle_unknown_calls(ctx)
        vio = [o.key for o in ctx.violations]
        err = None
    except AnalysisError as e:
        vio = [o.key for o in ctx.violations]
        err = None if vio else str(e)
    except Exception as e:  # a crash of the checker on a variant is a checker failure
        return (name, kind, "error", "internal error: %r" % e, [])
    if kind == "break":
        if err is not None:
            # an analysis error on a broken variant is fail-closed (exit 2), accepted but recorded
            return (name, kind, "analysis-error", err, [])
        hit = [k for k in vio if expect is None or expect in k]
        if hit:
            return (name, kind, "detected", "", hit[:3])
        return (name, kind, "MISSED", "violations reported: %s" % vio[:5], vio[:5])
    else:
        if err is not None and name.startswith("refactor:"):
            return (name, kind, "no-verdict", err, [])
        if err is not None:
            return (name, kind, "FALSE-ALARM", "analysis error on a behaviour-preserving rewrite: " + err, [])
        if vio:
            return (name, kind, "FALSE-ALARM", "violations on a behaviour-preserving rewrite", vio[:5])
        return (name, kind, "silent", "", [])


def run_selftests(pid, root, seed=0, jobs=None):
    try:
        mod = importlib.import_module("selftest.cases_" + pid.lower())
    except ModuleNotFoundError:
        return {"selftest": "no self-validation cases registered for this property"}
    cases = list(mod.CASES) + seed_cases(pid) + refactor_cases()
    jobs = jobs or min(16, max(1, os.cpu_count() or 1))
    work = [(pid, root, c.name, c.kind, c.edits, c.expect) for c in cases]
    # edits may contain callables: not picklable -> run those in-process
    par = [w for w in work if not any(callable(e[1]) for e in w[4])]
    seq = [w for w in work if w not in par]
    results = []
    if par:
        with ProcessPoolExecutor(max_workers=jobs) as ex:
            results.extend(ex.map(_run_case, par))
    for w in seq:
        results.append(_run_case(w))
    bad = [r for r in results if r[2] in ("MISSED", "FALSE-ALARM", "error")]
    summary = {
        "selftest_cases": len(results),
        "selftest_breaking_detected": len([r for r in results if r[2] == "detected"]),
        "selftest_breaking_failclosed": len([r for r in results if r[2] == "analysis-error"]),
        "selftest_preserving_silent": len([r for r in results if r[2] == "silent"]),
        "selftest_skipped": len([r for r in results if r[2] == "skipped"]),
        "selftest_refactorings_silent": len([r for r in results if r[0].startswith("refactor:") and r[2] == "silent"]),
        "selftest_refactorings_no_verdict": len([r for r in results if r[0].startswith("refactor:") and r[2] == "no-verdict"]),
        "selftest_seeded_changes_detected": len([r for r in results if r[0].startswith("seed:") and r[2] == "detected"]),
        "selftest_results": [{"case": r[0], "kind": r[1], "verdict": r[2], "keys": r[4], "note": r[3][:200]} for r in results],
    }
    applied = len([r for r in results if not r[0].startswith(("refactor:", "seed:"))]) - len([r for r in results if r[2] == "skipped" and not r[0].startswith(("refactor:", "seed:"))])
    floor = getattr(mod, "MIN_APPLIED", max(1, len(results) // 2))
    if bad:
        for r in bad:
            print("SELFTEST-FAILURE %s case=%s kind=%s verdict=%s %s" % (pid, r[0], r[1], r[2], r[3][:300]))
        raise AnalysisError("%s: checker self-validation failed on %d case(s): %s" % (pid, len(bad), ", ".join(r[0] for r in bad)))
    if applied < floor:
        raise AnalysisError("%s: only %d of %d self-validation cases apply to the current tree (floor %d)" % (pid, applied, len(results), floor))
    print("%s self-validation: %d breaking edits detected, %d fail-closed, %d preserving rewrites silent, %d skipped" % (pid, summary["selftest_breaking_detected"], summary["selftest_breaking_failclosed"], summary["selftest_preserving_silent"], summary["selftest_skipped"]))
    return summary
