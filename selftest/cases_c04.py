from . import cases_c03, cases_c08, cases_c12
from .runner import Case

PICK03 = {"version-relaxed-to-greater", "version-allows-replay", "self-consistency-check-dropped", "threshold-read-from-new-root", "signature-error-swallowed", "swap-the-two-verifications", "version-as-difference", "inline-temporaries"}
PICK12 = {"normalises-trusted-root", "module-level-signature-cache", "lru-cache-on-key-constructor", "global-call-counter", "environment-switch", "clock-dependent-validator", "mutable-default-memo", "sorts-a-local-copy", "module-constant-tuple", "validator-sorts-keys-of-its-argument"}
PICK08 = {"text-mode-write", "parse-float-decimal", "loader-drops-unknown-fields", "writer-local-name", "loader-returns-directly", "pretty-printing-on-write"}
CASES = (
    [c for c in cases_c03.CASES if c.name in PICK03]
    + [c for c in cases_c12.CASES if c.name in PICK12]
    + [c for c in cases_c08.CASES if c.name in PICK08]
)
MIN_APPLIED = 20
