from . import cases_c03, cases_c08, cases_c12
from .runner import Case

PICK03 = {"version-relaxed-to-greater", "version-allows-replay", "self-consistency-check-dropped", "threshold-read-from-new-root", "signature-error-swallowed", "swap-the-two-verifications", "version-as-difference", "inline-temporaries"}
PICK12 = {"normalises-trusted-root", "module-level-signature-cache", "lru-cache-on-key-constructor", "global-call-counter", "environment-switch", "clock-dependent-validator", "mutable-default-memo", "sorts-a-local-copy", "module-constant-tuple", "validator-sorts-keys-of-its-argument"}
PICK08 = {"text-mode-write", "parse-float-decimal", "loader-drops-unknown-fields", "writer-local-name", "loader-returns-directly", "pretty-printing-on-write"}
CASES = (
    [c for c in cases_c03.CASES if c.name in PICK03]
    + [c for c in cases_c12.CASES if c.name in PICK12]
    + [c for c in cases_c08.CASES if c.name in PICK08]
)
import os as _os

_PATCHES = _os.path.join(_os.path.dirname(_os.path.abspath(__file__)), "patches")
CASES += [
    # a chain walker added to the CLI (several offered roots on one command line) that pairs every
    # offer with the file before it: zip(items, items[1:]) - the property holds
    Case("walker-overlapping-pairs", "keep", [("@seed", _os.path.join(_PATCHES, "c04-walker-overlapping-pairs.diff"), None)], None),
]
MIN_APPLIED = 20
