from . import cases_c03, cases_c08, cases_c12
from .runner import Case

PICK03 = {"version-relaxed-to-greater", "version-allows-replay", "self-consistency-check-dropped", "threshold-read-from-new-root", "signature-error-swallowed", "swap-the-two-verifications", "version-as-difference", "inline-temporaries"}
PICK12 = {"normalises-trusted-root", "module-level-signature-cache", "lru-cache-on-key-constructor", "global-call-counter", "environment-switch", "clock-dependent-validator", "mutable-default-memo", "sorts-a-local-copy", "module-constant-tuple", "validator-sorts-keys-of-its-argument"}
PICK08 = {"text-mode-write", "parse-float-decimal", "loader-drops-unknown-fields", "writer-local-name", "loader-returns-directly", "pretty-printing-on-write"}
CASES = (
    [c for c in cases_c03.CASES if c.name in PICK03]
    + [c for c in cases_c12.CASES if c.name in PICK12]
    + [c for c in cases_c08.CASES if c.name in PICK08]
)
import os as _os

_PATCHES = _os.path.join(_os.path.dirname(_os.path.abspath(__file__)), "patches")
_WALKER = "\n\ndef verify_root_chain(trusted_root, offered_roots):\n    roots = [trusted_root] + list(offered_roots)\n    for held, offered in %s:\n        verify_root(held, offered)\n    return roots[-1]\n\ndef verify_delegation("
CASES += [
    # a chain walker in the library that pairs every offer with the root accepted just before it:
    # zip(roots, roots[1:]) - the property holds; zip(it, it) verifies every second link only
    Case("walker-overlapping-pairs", "keep", [("authentication", "\n\ndef verify_delegation(", _WALKER % "zip(roots, roots[1:])")], None),
    Case("walker-cursor", "keep", [("authentication", "\n\ndef verify_delegation(", "\n\ndef verify_root_chain(trusted_root, offered_roots):\n    current = trusted_root\n    for offered in offered_roots:\n        verify_root(current, offered)\n        current = offered\n    return current\n\ndef verify_delegation(")], None),
    Case("walker-cursor-never-advanced", "break", [("authentication", "\n\ndef verify_delegation(", "\n\ndef verify_root_chain(trusted_root, offered_roots):\n    current = trusted_root\n    for offered in offered_roots:\n        verify_root(current, offered)\n        last = offered\n    return last\n\ndef verify_delegation(")], "S5"),
    Case("walker-disjoint-pairs", "break", [("authentication", "\n\ndef verify_delegation(", "\n\ndef _two_at_a_time(items):\n    it = iter(items)\n    return zip(it, it)" + _WALKER % "_two_at_a_time(roots)")], "S5"),
]
MIN_APPLIED = 20
