from .runner import Case
from .snippets import *  # noqa: F401,F403
from .snippets import C_, S, RS

SA_LOOP_STORE = "        repodata['signatures'][artifact_name] = {public_hex: signature_dict}\n"
SA_LOAD = "    repodata = load_metadata_from_file(fname)\n"
GP_SIGN = "    root_signable = sign_root_metadata_dict_via_gpg(root_signable, gpg_key_fingerprint)\n"
CLI_GATE = "    if not is_hex_key(private_key_hex):\n        print('ABORTED.  Expected key file to contain only a hex string representation of an ed25519 key.  It does not.')\n        return 1\n"

CASES = [
    Case("streams-output-while-signing", "break", [(S, SA_LOOP_STORE, SA_LOOP_STORE + "        write_metadata_to_file(repodata, fname)\n")], "no-write-in-loop|signing.sign_all_in_repodata"),
    Case("truncates-first", "break", [(S, SA_LOAD, SA_LOAD + "    out = open(fname, 'wb')\n"), (S, SA_WRITE, "    out.write(canonserialize(repodata))\n    out.close()")], "write-phase|signing.sign_all_in_repodata"),
    Case("placeholder-then-rewrite", "break", [(S, SA_RESET, SA_RESET + "    write_metadata_to_file(repodata, fname)\n")], "write-phase|signing.sign_all_in_repodata"),
    Case("serializes-inside-the-open-file", "break", [(C_, WM_SER + WM_OPEN, "    with open(filename, 'wb') as fobj:\n        fobj.write(canonserialize(metadata))\n")], "write-phase"),
    Case("serializes-after-truncating-r3", "break", [(C_, WM_SER + WM_OPEN, "    with open(filename, 'wb') as fobj:\n        fobj.write(canonserialize(metadata))\n")], "R3"),
    Case("gpg-path-writes-before-signing", "break", [(RS, GP_SIGN, "    write_metadata_to_file(root_signable, root_md_fname)\n" + GP_SIGN)], "write-phase|root_signing.sign_root_metadata_via_gpg"),
    Case("gpg-path-opens-output-early", "break", [(RS, GP_SIGN, "    fobj = open(root_md_fname, 'wb')\n" + GP_SIGN), (RS, "    write_metadata_to_file(root_signable, root_md_fname)", "    fobj.write(canonserialize(root_signable))\n    fobj.close()")], "write-phase|root_signing.sign_root_metadata_via_gpg"),
    Case("cli-key-gate-dropped", "break", [("cli", CLI_GATE, "")], "cli-key-gate"),
    Case("removes-target-before-signing", "break", [(S, SA_LOAD, "    import os\n" + SA_LOAD + "    os.remove(fname)\n")], "write-phase|signing.sign_all_in_repodata"),
    Case("read-write-mode-open-on-load", "break", [(S, SA_LOAD, "    handle = open(fname, 'r+b')\n" + SA_LOAD)], "write-phase|signing.sign_all_in_repodata"),
    Case("per-section-flush", "break", [(S, "    for artifact_name, metadata in repodata.get('packages.conda', {}).items():\n", "    write_metadata_to_file(repodata, fname)\n    for artifact_name, metadata in repodata.get('packages.conda', {}).items():\n")], "write-phase|signing.sign_all_in_repodata"),
    # ---- preserving
    Case("verification-after-the-write", "keep", [(S, SA_WRITE, SA_WRITE + "\n    checkformat_string(fname)")]),
    Case("atomic-replace", "keep", [(S, SA_WRITE, "    import os\n    write_metadata_to_file(repodata, fname + '.tmp')\n    os.replace(fname + '.tmp', fname)")]),
    Case("writer-with-explicit-handle", "keep", [(C_, WM_OPEN, "    fobj = open(filename, 'wb')\n    fobj.write(metadata)\n    fobj.close()\n")]),
    Case("serialize-in-caller", "keep", [(S, SA_WRITE, "    data = canonserialize(repodata)\n    with open(fname, 'wb') as fobj:\n        fobj.write(data)")]),
    Case("extra-validation-before-write", "keep", [(S, SA_WRITE, "    checkformat_string(fname)\n" + SA_WRITE)]),
]
MIN_APPLIED = 13
