from .runner import Case
from .snippets import *  # noqa: F401,F403
from .snippets import A

VD_CMP = "        if delegation_name != untrusted_delegated_metadata['signed']['type']:\n"
CASES = [
    Case("revert-D2-checker-on-whole-envelope", "break", REVERT_D2, "handler-taint"),
    Case("compare-against-trusted-type", "break", [(A, VD_CMP, "        if delegation_name != trusted_delegating_metadata['signed']['type']:\n")], "R2|"),
    Case("mismatch-error-caught", "break", [(A, "    except (ValueError, TypeError):\n        pass\n    else:\n" + VD_CMP, "    except (ValueError, TypeError):\n        pass\n    else:\n        if False:\n")], "R2|"),
    Case("comparison-inverted", "break", [(A, VD_CMP, "        if delegation_name == untrusted_delegated_metadata['signed']['type']:\n")], "R2|type-compared"),
    Case("comparison-against-role-list", "break", [(A, VD_CMP, "        if untrusted_delegated_metadata['signed']['type'] not in ['root', 'key_mgr', delegation_name]:\n")], "R2|"),
    Case("type-check-only-for-root", "break", [(A, VD_CMP, "        if delegation_name == 'root' and delegation_name != untrusted_delegated_metadata['signed']['type']:\n")], "R2|type-compared"),
    Case("signature-count-decides-check", "break", [(A, "    try:\n        checkformat_delegating_metadata({'signatures': {}, 'signed': untrusted_delegated_metadata['signed']})\n", "    try:\n        for k in untrusted_delegated_metadata['signatures']:\n            checkformat_hex_key(k)\n        checkformat_delegating_metadata({'signatures': {}, 'signed': untrusted_delegated_metadata['signed']})\n")], "handler-taint"),
    Case("junk-entry-aborts", "break", [(A, VS_HEXKEY_FILTER, "        checkformat_hex_key(pubkey_hex)\n")], "R3|"),
    Case("mismatch-wrong-error-class", "break", [(A, "            raise MetadataVerificationError('Instructed to verify", "            raise SignatureError('Instructed to verify")], "mismatch-error"),
    # ---- preserving
    Case("discriminator-by-direct-inspection", "keep", [(A, "    try:\n        checkformat_delegating_metadata({'signatures': {}, 'signed': untrusted_delegated_metadata['signed']})\n    except (ValueError, TypeError):\n        pass\n    else:\n", "    signed_only = {'signatures': {}, 'signed': untrusted_delegated_metadata['signed']}\n    try:\n        checkformat_delegating_metadata(signed_only)\n    except (ValueError, TypeError):\n        pass\n    else:\n")]),
    Case("comparison-sides-swapped", "keep", [(A, VD_CMP, "        if untrusted_delegated_metadata['signed']['type'] != delegation_name:\n")]),
    Case("comparison-as-not-eq", "keep", [(A, VD_CMP, "        if not delegation_name == untrusted_delegated_metadata['signed']['type']:\n")]),
    Case("handler-catches-less", "keep", [(A, "    except (ValueError, TypeError):\n        pass\n    else:\n" + VD_CMP, "    except ValueError:\n        pass\n    except TypeError:\n        pass\n    else:\n" + VD_CMP)]),
]
MIN_APPLIED = 11
