from .runner import Case
from .snippets import *  # noqa: F401,F403
from .snippets import A, C_, S, RS

DUMPS = "        json_string = dumps(obj, indent=2, sort_keys=True)\n"
ENC = "    return json_string.encode('utf-8')"

CASES = [
    Case("no-indent", "break", [(C_, DUMPS, "        json_string = dumps(obj, sort_keys=True)\n")], "dumps-config|indent"),
    Case("compact-separators", "break", [(C_, DUMPS, "        json_string = dumps(obj, indent=2, sort_keys=True, separators=(',', ':'))\n")], "dumps-config|separators"),
    Case("ensure-ascii-off", "break", [(C_, DUMPS, "        json_string = dumps(obj, indent=2, sort_keys=True, ensure_ascii=False)\n")], "dumps-config|ensure_ascii"),
    Case("sort-keys-dropped", "break", [(C_, DUMPS, "        json_string = dumps(obj, indent=2)\n")], "dumps-config|sort_keys"),
    Case("default-str", "break", [(C_, DUMPS, "        json_string = dumps(obj, indent=2, sort_keys=True, default=str)\n")], "dumps-config|default"),
    Case("allow-nan-off", "break", [(C_, DUMPS, "        json_string = dumps(obj, indent=2, sort_keys=True, allow_nan=False)\n")], "dumps-config|allow_nan"),
    Case("skipkeys-on", "break", [(C_, DUMPS, "        json_string = dumps(obj, indent=2, sort_keys=True, skipkeys=True)\n")], "dumps-config|skipkeys"),
    Case("indent-four", "break", [(C_, DUMPS, "        json_string = dumps(obj, indent=4, sort_keys=True)\n")], "dumps-config|indent"),
    Case("utf16-encoding", "break", [(C_, ENC, "    return json_string.encode('utf-16')")], "serializer-shape"),
    Case("trailing-newline", "break", [(C_, ENC, "    return (json_string + '\\n').encode('utf-8')")], "serializer-shape"),
    Case("normalises-unicode", "break", [(C_, ENC, "    import unicodedata\n    return unicodedata.normalize('NFC', json_string).encode('utf-8')")], ""),
    Case("second-serializer-in-signing", "break", [(S, "    serialized = canonserialize(obj)\n", "    import json\n    serialized = json.dumps(obj, sort_keys=True).encode('utf-8')\n")], "R3|sink"),
    Case("verifier-uses-repr", "break", [(A, VS_PAYLOAD, "    signed_data = repr(signable['signed']).encode('utf-8')\n")], "R3|sink"),
    Case("gpg-path-signs-other-bytes", "break", [(RS, "    data_to_sign = canonserialize(root_signable['signed'])\n", "    data_to_sign = str(root_signable['signed']).encode('utf-8')\n")], "R3|sink"),
    Case("serializer-depends-on-environment", "break", [(C_, DUMPS, "        import os\n        json_string = dumps(obj, indent=int(os.environ.get('CCT_INDENT', '2')), sort_keys=True)\n")], ""),
    Case("custom-encoder-class", "break", [(C_, DUMPS, "        import json\n        json_string = dumps(obj, indent=2, sort_keys=True, cls=json.JSONEncoder)\n")], "dumps-config|cls"),
    # ---- preserving
    Case("explicit-default-keywords", "keep", [(C_, DUMPS, "        json_string = dumps(obj, indent=2, sort_keys=True, ensure_ascii=True, allow_nan=True, separators=None)\n")]),
    Case("explicit-separators-default-pair", "keep", [(C_, DUMPS, "        json_string = dumps(obj, indent=2, sort_keys=True, separators=(',', ': '))\n")]),
    Case("local-renamed", "keep", [(C_, DUMPS, "        text = dumps(obj, indent=2, sort_keys=True)\n"), (C_, ENC, "    return text.encode('utf-8')")]),
    Case("encode-utf8-alias", "keep", [(C_, ENC, "    return json_string.encode('utf8')")]),
    Case("no-try-wrapper", "keep", [(C_, "    try:\n" + DUMPS + "    except TypeError:\n        raise\n", "    json_string = dumps(obj, indent=2, sort_keys=True)\n")]),
    Case("ascii-encoding-is-identical", "keep", [(C_, ENC, "    return json_string.encode('ascii')")]),
]
MIN_APPLIED = 18
