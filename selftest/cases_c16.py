from .runner import Case
from .snippets import *  # noqa: F401,F403
from .snippets import C_

MC = "metadata_construction"
B_CHECKS = "    checkformat_string(metadata_type)\n    checkformat_utc_isoformat(timestamp)\n    checkformat_utc_isoformat(expiration)\n    checkformat_natural_int(version)\n    checkformat_delegations(delegations)\n"
B_MD = "    md = {'type': metadata_type, 'version': version, 'metadata_spec_version': SECURITY_METADATA_SPEC_VERSION, 'timestamp': timestamp, 'expiration': expiration, 'delegations': delegations}\n"
R_DELEG = "    delegations = {'root': {'pubkeys': root_pubkeys, 'threshold': root_threshold}, 'key_mgr': {'pubkeys': key_mgr_pubkeys, 'threshold': key_mgr_threshold}}\n"
HELP = "    unix_expiry = datetime.utcnow().replace(microsecond=0) + delta\n"

CASES = [
    Case("validates-a-copy-returns-original", "break", [(MC, B_CHECKS, B_CHECKS.replace("checkformat_delegations(delegations)", "checkformat_delegations(dict(delegations))"))], "R1|validated"),
    Case("version-not-validated", "break", [(MC, "    checkformat_natural_int(version)\n", "")], "R1|validated"),
    Case("expiration-not-validated", "break", [(MC, "    checkformat_utc_isoformat(expiration)\n", "")], "R1|validated"),
    Case("type-coerced", "break", [(MC, B_MD, B_MD.replace("'type': metadata_type", "'type': str(metadata_type).lower()"))], "R1|"),
    Case("spec-version-literal-drift", "break", [(MC, B_MD, B_MD.replace("SECURITY_METADATA_SPEC_VERSION", "'0.6.0'"))], "R1|spec-version"),
    Case("field-dropped", "break", [(MC, B_MD, B_MD.replace(", 'expiration': expiration", ""))], "R1|six-fields"),
    Case("extra-field", "break", [(MC, B_MD, B_MD.replace("'delegations': delegations}", "'delegations': delegations, 'comment': ''}"))], "R1|six-fields"),
    Case("root-drops-key-mgr", "break", [(MC, R_DELEG, "    delegations = {'root': {'pubkeys': root_pubkeys, 'threshold': root_threshold}}\n")], "R3|root-wrapper"),
    Case("root-swaps-thresholds", "break", [(MC, R_DELEG, R_DELEG.replace("'threshold': root_threshold", "'threshold': key_mgr_threshold"))], "R3|root-wrapper"),
    Case("root-type-not-root", "break", [(MC, "metadata_type='root'", "metadata_type='root_md'")], "R3|root-wrapper"),
    Case("root-version-incremented", "break", [(MC, "version=root_version,", "version=root_version + 1,")], "R3|root-wrapper"),
    Case("aware-datetime", "break", [(C_, HELP, "    from datetime import timezone\n    unix_expiry = datetime.now(timezone.utc).replace(microsecond=0) + delta\n")], "R4|timestamp-helper"),
    Case("microseconds-kept", "break", [(C_, HELP, "    unix_expiry = datetime.utcnow() + delta\n")], "R4|timestamp-helper"),
    Case("no-z-suffix", "break", [(C_, "    return unix_expiry.isoformat() + 'Z'", "    return unix_expiry.isoformat()")], "R4|"),
    Case("default-expiry-31-days", "break", [(MC, "        expiration = iso8601_time_plus_delta(ROOT_MD_EXPIRY_DISTANCE)\n", "        expiration = iso8601_time_plus_delta(REPODATA_VERIF_MD_EXPIRY_DISTANCE)\n")], "R4|default|expiration"),
    Case("default-expiry-in-the-past", "break", [(MC, "ROOT_MD_EXPIRY_DISTANCE = timedelta(days=365)", "ROOT_MD_EXPIRY_DISTANCE = timedelta(days=-365)")], "R4|default|expiration"),
    Case("default-timestamp-shifted", "break", [(MC, "        timestamp = iso8601_time_plus_delta(timedelta(0))\n", "        timestamp = iso8601_time_plus_delta(timedelta(days=1))\n")], "R4|default|timestamp"),
    Case("spec-version-not-a-string", "break", [(C_, "SECURITY_METADATA_SPEC_VERSION = '0.6.0'", "SECURITY_METADATA_SPEC_VERSION = 0.6")], "R2|spec-version-is-str"),
    # ---- preserving
    Case("returns-display-directly", "keep", [(MC, B_MD + "    return md", B_MD.replace("    md = ", "    return "))]),
    Case("reorder-validation", "keep", [(MC, B_CHECKS, "    checkformat_delegations(delegations)\n    checkformat_natural_int(version)\n    checkformat_utc_isoformat(expiration)\n    checkformat_utc_isoformat(timestamp)\n    checkformat_string(metadata_type)\n")]),
    Case("root-wrapper-positional", "keep", [(MC, "    root_md = build_delegating_metadata(metadata_type='root', delegations=delegations, version=root_version, timestamp=root_timestamp, expiration=root_expiration)\n    return root_md", "    return build_delegating_metadata('root', delegations, root_version, root_timestamp, root_expiration)")]),
    Case("root-wrapper-leaves-default-to-builder", "keep", [(MC, "    if root_expiration is None:\n        root_expiration = iso8601_time_plus_delta(ROOT_MD_EXPIRY_DISTANCE)\n    delegations = {'root'", "    delegations = {'root'")]),
    Case("helper-inline-return", "keep", [(C_, HELP + "    return unix_expiry.isoformat() + 'Z'", "    return (datetime.utcnow().replace(microsecond=0) + delta).isoformat() + 'Z'")]),
    Case("year-as-52-weeks-plus-1-day", "keep", [(MC, "ROOT_MD_EXPIRY_DISTANCE = timedelta(days=365)", "ROOT_MD_EXPIRY_DISTANCE = timedelta(weeks=52, days=1)")]),
]
MIN_APPLIED = 20
