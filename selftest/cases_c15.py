from .runner import Case
from .snippets import *  # noqa: F401,F403
from .snippets import A, C_, S

HS_COND = "    if not hex_string.isalnum() or hex_string.lower() != hex_string:\n"
CASES = [
    Case("isalnum-dropped", "break", [(C_, HS_COND, "    if hex_string.lower() != hex_string:\n")], "accept|common.checkformat_hex_string"),
    Case("lowercase-test-dropped", "break", [(C_, HS_COND, "    if not hex_string.isalnum():\n")], "accept|common.checkformat_hex_string"),
    Case("fromhex-dropped", "break", [(C_, "    bytes.fromhex(hex_string)\n    if not hex_string.isalnum()", "    if not hex_string.isalnum()")], "accept|common.checkformat_hex_string"),
    Case("key-length-at-most-64", "break", [(C_, "    if 64 != len(hex_key):\n", "    if 64 < len(hex_key):\n")], "accept|common.checkformat_hex_key"),
    Case("key-length-63-or-64", "break", [(C_, "    if 64 != len(hex_key):\n", "    if len(hex_key) not in (63, 64):\n")], "accept|common.checkformat_hex_key"),
    Case("signature-length-at-least-one", "break", [(C_, "    if is_hex_string(hex_signature) and len(hex_signature) == 128:\n", "    if is_hex_string(hex_signature) and len(hex_signature) >= 1:\n")], "accept|common.is_hex_signature"),
    Case("fingerprint-hex-test-dropped", "break", [(C_, "    bytes.fromhex(gpg_fingerprint)\n    if not gpg_fingerprint.isalnum() or gpg_fingerprint.lower() != gpg_fingerprint:\n        raise ValueError('Expected a hex string; non-hexadecimal or upper-case character found.')\n", "")], "accept|common.checkformat_gpg_fingerprint"),
    Case("gpg-entry-allows-keyid", "break", [(C_, "[['other_headers', 'signature'], ['other_headers', 'see_also', 'signature']]", "[['other_headers', 'signature'], ['other_headers', 'see_also', 'signature'], ['keyid', 'other_headers', 'signature']]")], "accept|common.checkformat_gpg_signature"),
    Case("gpg-entry-see-also-unchecked", "break", [(C_, "    if 'see_also' in gpg_signature:\n        checkformat_gpg_fingerprint(gpg_signature['see_also'])\n", "")], "accept|common.checkformat_gpg_signature"),
    Case("raw-entry-allows-extra-fields", "break", [(C_, "    elif len(signature) == 1:\n", "    elif len(signature) >= 1:\n")], "accept|common.checkformat_signature"),
    Case("duplicate-test-removed", "break", [(C_, "    if len(set(list_of_hex_keys)) != len(list_of_hex_keys):\n        raise ValueError('The given list of keys in hex string form contains duplicates.  Duplicates are not permitted.')\n", "")], "accept|common.checkformat_list_of_hex_keys"),
    Case("predicate-catches-only-valueerror", "break", [(C_, "        checkformat_hex_key(hex_key)\n        return True\n    except (TypeError, ValueError):", "        checkformat_hex_key(hex_key)\n        return True\n    except ValueError:")], "pair|hex_key"),
    Case("predicate-disagrees-with-raiser", "break", [(C_, "        checkformat_gpg_fingerprint(gpg_fingerprint)\n        return True\n", "        checkformat_hex_string(gpg_fingerprint)\n        return True\n")], "pair|gpg_fingerprint"),
    Case("key-validator-strips-whitespace", "break", [(C_, "def checkformat_hex_key(hex_key: Any) -> HexKey:\n    checkformat_hex_string(hex_key)\n", "def checkformat_hex_key(hex_key: Any) -> HexKey:\n    checkformat_hex_string(hex_key.strip())\n")], "accept|common.checkformat_hex_key"),
    Case("key-validator-rejects-all-zero-key", "break", [(C_, "    if 64 != len(hex_key):\n", "    if hex_key == '0' * 64:\n        raise ValueError('weak key')\n    if 64 != len(hex_key):\n")], "reject|common.checkformat_hex_key"),
    Case("other-headers-not-hex-checked", "break", [(C_, "    if not is_hex_string(gpg_signature['other_headers']):\n        raise ValueError('\"other_headers\" entry in OpenPGP signature object must be a hex string.')\n", "")], "accept|common.checkformat_gpg_signature"),
    Case("list-gate-accepts-tuples-without-checks", "break", [(C_, "    for hex_key in list_of_hex_keys:\n        checkformat_hex_key(hex_key)\n", "    for hex_key in list_of_hex_keys[:1]:\n        checkformat_hex_key(hex_key)\n")], "accept|common.checkformat_list_of_hex_keys"),
    # ---- preserving
    Case("de-morgan", "keep", [(C_, HS_COND, "    if not (hex_string.isalnum() and hex_string.lower() == hex_string):\n")]),
    Case("length-compare-swapped", "keep", [(C_, "    if 64 != len(hex_key):\n", "    if len(hex_key) != 64:\n")]),
    Case("length-first", "keep", [(C_, "    checkformat_hex_string(hex_key)\n    if 64 != len(hex_key):\n        raise ValueError('Expected a 64-character hex string representing a key value.')\n", "    checkformat_hex_string(hex_key)\n    if not len(hex_key) == 64:\n        raise ValueError('Expected a 64-character hex string representing a key value.')\n")]),
    Case("keyset-as-set-comparison", "keep", [(C_, "    if sorted(list(gpg_signature.keys())) not in [['other_headers', 'signature'], ['other_headers', 'see_also', 'signature']]:\n", "    if set(gpg_signature) != {'other_headers', 'signature'} and set(gpg_signature) != {'other_headers', 'see_also', 'signature'}:\n")]),
    Case("is-hex-signature-try-form", "keep", [(C_, "    if is_hex_string(hex_signature) and len(hex_signature) == 128:\n        return True\n    return False", "    return is_hex_string(hex_signature) and len(hex_signature) == 128")]),
    Case("fingerprint-via-hex-string-checker", "keep", [(C_, "    bytes.fromhex(gpg_fingerprint)\n    if not gpg_fingerprint.isalnum() or gpg_fingerprint.lower() != gpg_fingerprint:\n        raise ValueError('Expected a hex string; non-hexadecimal or upper-case character found.')\n", "    checkformat_hex_string(gpg_fingerprint)\n")]),
]
MIN_APPLIED = 20

# ---- validators written differently: decided on the language of the string tests (sa/strlang.py)
_HS_BODY = "    bytes.fromhex(hex_string)\n    if not hex_string.isalnum() or hex_string.lower() != hex_string:\n        raise ValueError('Expected a hex string; non-hexadecimal or upper-case character found.')\n"
_TYPE_GATE = "    if not isinstance(hex_string, str):\n        raise TypeError('Expected a string.')\n"
_IMPORT_RE = ("from binascii import", "import re\nfrom binascii import")


def _hs(new_body, with_re=False):
    edits = [(C_, _HS_BODY, new_body)]
    if with_re:
        edits.append((C_,) + _IMPORT_RE)
    return edits


CASES += [
    Case("predicate-handler-narrowed", "break", [(C_, "def is_hex_string(hex_string: Any) -> bool:", "def is_hex_string(hex_string: Any) -> bool:\n    pass"), (C_, "        checkformat_hex_string(hex_string)\n        return True\n    except (ValueError, TypeError):", "        checkformat_hex_string(hex_string)\n        return True\n    except ValueError:")], "pair|hex_string"),
    Case("hex-by-regex-fullmatch", "keep", _hs(_TYPE_GATE + "    if re.fullmatch('(?:[0-9a-f]{2})+', hex_string) is None:\n        raise ValueError('Expected a hex string.')\n", True)),
    Case("hex-by-regex-match-Z", "keep", _hs(_TYPE_GATE + "    if not re.match('^([0-9a-f][0-9a-f])+\\\\Z', hex_string):\n        raise ValueError('Expected a hex string.')\n", True)),
    Case("hex-by-charset-all", "keep", _hs(_TYPE_GATE + "    if not hex_string or len(hex_string) % 2 or not all((c in '0123456789abcdef' for c in hex_string)):\n        raise ValueError('Expected a hex string.')\n")),
    Case("hex-by-charset-any", "keep", _hs(_TYPE_GATE + "    if not hex_string or len(hex_string) % 2 != 0 or any((c not in '0123456789abcdef' for c in hex_string)):\n        raise ValueError('Expected a hex string.')\n")),
    Case("hex-by-issuperset", "keep", _hs(_TYPE_GATE + "    if len(hex_string) == 0 or len(hex_string) % 2 or (not frozenset('0123456789abcdef').issuperset(hex_string)):\n        raise ValueError('Expected a hex string.')\n")),
    Case("hex-by-char-loop", "keep", _hs(_TYPE_GATE + "    if len(hex_string) < 2 or len(hex_string) % 2 == 1:\n        raise ValueError('Expected a hex string.')\n    for ch in hex_string:\n        if not ('0' <= ch <= '9' or 'a' <= ch <= 'f'):\n            raise ValueError('Expected a hex string.')\n")),
    Case("hex-by-round-trip", "keep", _hs("    raw = bytes.fromhex(hex_string)\n    if not raw or raw.hex() != hex_string:\n        raise ValueError('Expected a hex string.')\n")),
    Case("hex-regex-dollar-newline", "break", _hs(_TYPE_GATE + "    if not re.match('^([0-9a-f][0-9a-f])+$', hex_string):\n        raise ValueError('Expected a hex string.')\n", True), "accept|common.checkformat_hex_string"),
    Case("hex-regex-unicode-digits", "break", _hs(_TYPE_GATE + "    if re.fullmatch('(?:[\\\\da-f]{2})+', hex_string) is None:\n        raise ValueError('Expected a hex string.')\n", True), "accept|common.checkformat_hex_string"),
    Case("hex-regex-upper-case", "break", _hs(_TYPE_GATE + "    if not re.fullmatch('([0-9a-fA-F]{2})+', hex_string):\n        raise ValueError('Expected a hex string.')\n", True), "accept|common.checkformat_hex_string"),
    Case("hex-charset-odd-length", "break", _hs(_TYPE_GATE + "    if not hex_string or any((c not in '0123456789abcdef' for c in hex_string)):\n        raise ValueError('Expected a hex string.')\n"), "accept|common.checkformat_hex_string"),
    Case("hex-issuperset-without-str-gate", "break", _hs("    if len(hex_string) == 0 or len(hex_string) % 2 or (not frozenset('0123456789abcdef').issuperset(hex_string)):\n        raise ValueError('Expected a hex string.')\n"), "accept|common.checkformat_hex_string"),
]
