from .runner import Case
from .snippets import A, C_, REVERT_D1, REVERT_D3, REVERT_D4

CASES = [
    Case("revert-D1-unimported-submodule", "break", REVERT_D1, "escape|AttributeError"),
    Case("revert-D3-overflow", "break", REVERT_D3, "escape|OverflowError"),
    Case("revert-D4-missing-root-delegation", "break", REVERT_D4, "escape|KeyError"),
    Case(
        "unknown-role-guard-dropped",
        "break",
        [(A, "    if delegation_name not in delegations:\n        raise UnknownRoleError('Role ' + delegation_name + ' not found in the given delegating metadata.')\n", "")],
        "escape|KeyError",
    ),
    Case("assert-used-as-validation", "break", [(A, "    if not isinstance(threshold, int) or threshold <= 0:\n        raise TypeError('threshold must be a positive integer.')", "    assert isinstance(threshold, int) and threshold > 0")], "escape|AssertionError"),
    Case("explicit-runtime-error", "break", [(C_, "        raise ValueError('Expected a 64-character hex string representing a key value.')", "        raise RuntimeError('Expected a 64-character hex string representing a key value.')")], "escape|RuntimeError"),
    Case("explicit-key-error", "break", [(A, "        raise UnknownRoleError('Role ' + delegation_name + ' not found in the given delegating metadata.')", "        raise KeyError(delegation_name)")], "KeyError"),
    Case("gpg-signature-type-gate-dropped", "break", [(C_, "    if not isinstance(gpg_signature, dict):\n        raise TypeError('OpenPGP signatures objects must be dictionaries.  Received type ' + str(type(gpg_signature)) + ' instead.')\n", "")], "AttributeError"),
    Case("while-loop-in-validator", "break", [(C_, "    for hex_key in list_of_hex_keys:\n        checkformat_hex_key(hex_key)", "    i = 0\n    while i < len(list_of_hex_keys):\n        checkformat_hex_key(list_of_hex_keys[i])\n        i += 1")], "while|"),
    Case("recursion-in-validator", "break", [(C_, "def checkformat_string(string: Any) -> str:\n", "def checkformat_string(string: Any) -> str:\n    if isinstance(string, list):\n        return checkformat_string(string[0])\n")], "recursion|"),
    Case("threshold-error-class-changed", "break", [(A, "        raise SignatureError('Expected good signatures from at least '", "        raise ValueError('Expected good signatures from at least '")], "threshold-class"),
    Case("unknown-role-class-changed", "break", [(A, "        raise UnknownRoleError('Role '", "        raise ValueError('Role '")], "unknown-role-class"),
    Case("version-mismatch-class-changed", "break", [(A, "        raise MetadataVerificationError('Root chaining failure", "        raise ValueError('Root chaining failure")], "version-mismatch-class"),
    Case("type-mismatch-class-changed", "break", [(A, "            raise MetadataVerificationError('Instructed to verify", "            raise ValueError('Instructed to verify")], "type-mismatch-class"),
    Case("unguarded-subscript-in-verifier", "break", [(A, "    signed_data = canonserialize(signable['signed'])", "    signed_data = canonserialize(signable['signed'])\n    spec = signable['signed']['metadata_spec_version']")], "escape|"),
    Case("loop-mutates-its-container", "break", [(C_, "    for index in delegations:\n        checkformat_string(index)", "    for index in delegations:\n        delegations[str(index) + '_'] = 0\n        checkformat_string(index)")], "loop|"),
    Case("signature-entry-length-unchecked-subscript", "break", [(C_, "    elif not ('signature' in signature and is_hex_signature(signature['signature'])):", "    elif not is_hex_signature(signature['signature']):")], "escape|KeyError"),
    # ---- behaviour-preserving rewrites: must stay silent
    Case("rename-locals-verify-root", "keep", [(A, lambda t: t.replace("root_expectations", "rexp").replace("new_rexp", "nrexp") if "root_expectations" in t else None, None)]),
    Case("reorder-independent-guards", "keep", [(A, "    if not (isinstance(authorized_pub_keys, list) and all([is_hex_key(k) for k in authorized_pub_keys])):\n        raise TypeError('authorized_pub_keys must be a list of hex strings ')\n    if not isinstance(threshold, int) or threshold <= 0:\n        raise TypeError('threshold must be a positive integer.')", "    if not isinstance(threshold, int) or threshold <= 0:\n        raise TypeError('threshold must be a positive integer.')\n    if not (isinstance(authorized_pub_keys, list) and all([is_hex_key(k) for k in authorized_pub_keys])):\n        raise TypeError('authorized_pub_keys must be a list of hex strings ')")]),
    Case("de-morgan-hex-string", "keep", [(C_, "    if not hex_string.isalnum() or hex_string.lower() != hex_string:", "    if not (hex_string.isalnum() and hex_string.lower() == hex_string):")]),
    Case("generator-instead-of-list-comprehension", "keep", [(A, "all([is_hex_key(k) for k in authorized_pub_keys])", "all((is_hex_key(k) for k in authorized_pub_keys))")]),
    Case("fstring-message", "keep", [(A, "raise TypeError('delegation_name must be a string, not a ' + str(type(delegation_name)))", "raise TypeError(f'delegation_name must be a string, not a {type(delegation_name)}')")]),
    Case("inline-temporaries-verify-delegation", "keep", [(A, "    verify_signable(untrusted_delegated_metadata, expected_keys, threshold, gpg=gpg)", "    verify_signable(untrusted_delegated_metadata, delegations[delegation_name]['pubkeys'], delegations[delegation_name]['threshold'], gpg=gpg)")]),
    Case("positive-form-of-threshold-gate", "keep", [(A, "    if not isinstance(threshold, int) or threshold <= 0:", "    if not (isinstance(threshold, int) and threshold > 0):")]),
    Case("explicit-dict-get-with-guard", "keep", [(A, "    root_expectations = trusted_current_root_metadata['signed']['delegations']['root']", "    root_expectations = trusted_current_root_metadata['signed']['delegations'].get('root')")]),
    Case("extra-guard-added", "keep", [(A, "    signed_data = canonserialize(signable['signed'])", "    if not isinstance(gpg, bool):\n        raise TypeError('gpg must be a boolean')\n    signed_data = canonserialize(signable['signed'])")]),
    Case("natural-int-isinstance-form", "keep", [(C_, "    try:\n        as_int = int(natural_int)\n    except OverflowError:\n        raise ValueError('Expected an integer >= 1.') from None\n    if as_int != natural_int or natural_int < 1:", "    if isinstance(natural_int, bool) or not isinstance(natural_int, int) or natural_int < 1:")]),
]
MIN_APPLIED = 20
