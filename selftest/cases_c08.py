from .runner import Case
from .snippets import *  # noqa: F401,F403
from .snippets import A, C_, S, RS

CASES = [
    Case("text-mode-write", "break", [(C_, WM_SER + WM_OPEN, "    metadata = canonserialize(metadata).decode('utf-8')\n    with open(filename, 'w') as fobj:\n        fobj.write(metadata)\n")], "R1|writer"),
    Case("pretty-printing-on-write", "break", [(C_, WM_SER, "    metadata = dumps(metadata, indent=4, sort_keys=True).encode('utf-8')\n")], "R1|writer"),
    Case("append-mode", "break", [(C_, "open(filename, 'wb')", "open(filename, 'ab')")], "R1|writer"),
    Case("serializes-after-truncating", "break", [(C_, WM_SER + WM_OPEN, "    with open(filename, 'wb') as fobj:\n        fobj.write(canonserialize(metadata))\n")], "R1|writer"),
    Case("trailing-newline-added", "break", [(C_, "        fobj.write(metadata)\n", "        fobj.write(metadata + b'\\n')\n")], "R1|writer"),
    Case("writes-to-other-path", "break", [(C_, "open(filename, 'wb')", "open(filename + '.new', 'wb')")], "R1|writer"),
    Case("parse-float-decimal", "break", [(C_, "        metadata = load(fobj)\n", "        metadata = load(fobj, parse_float=str)\n")], "R2|loader"),
    Case("loader-drops-unknown-fields", "break", [(C_, LM_BODY, "    with open(fname, 'rb') as fobj:\n        metadata = load(fobj)\n    if isinstance(metadata, dict):\n        metadata = {k: metadata[k] for k in metadata if k in ('signatures', 'signed')}\n    return metadata\n")], "R2|loader"),
    Case("loader-text-mode-locale", "break", [(C_, "open(fname, 'rb')", "open(fname)")], "R2|loader"),
    Case("object-pairs-hook", "break", [(C_, "        metadata = load(fobj)\n", "        metadata = load(fobj, object_pairs_hook=dict)\n")], "R2|loader"),
    Case("repodata-signer-touches-packages", "break", [(S, SA_RESET, SA_RESET + "    repodata['packages'] = dict(repodata['packages'])\n")], "R3|writes-only-signatures|signing.sign_all_in_repodata"),
    Case("repodata-signer-drops-field", "break", [(S, SA_RESET, SA_RESET + "    repodata.pop('removed', None)\n")], "R3|writes-only-signatures|signing.sign_all_in_repodata"),
    Case("repodata-written-elsewhere", "break", [(S, SA_WRITE, "    write_metadata_to_file(repodata, fname + '.signed')")], "R3|writes-back-what-it-loaded"),
    Case("gpg-signer-replaces-signatures-and-signed", "break", [(RS, "    root_signable['signatures'][raw_pubkey] = sig_dict\n", "    root_signable['signatures'][raw_pubkey] = sig_dict\n    root_signable['signed']['signed_by'] = raw_pubkey\n")], "R3|writes-only-signatures|root_signing"),
    Case("sign-signable-touches-payload", "break", [(S, "    signable['signatures'][public_key_as_hexstr] = signature_dict\n", "    signable['signatures'][public_key_as_hexstr] = signature_dict\n    signable['signed'] = dict(signable['signed'])\n")], "R3|writes-only-signatures|signing.sign_signable"),
    Case("gpg-path-writes-a-copy-only-of-signed", "break", [(RS, "    write_metadata_to_file(root_signable, root_md_fname)\n", "    write_metadata_to_file(root_signable['signed'], root_md_fname)\n")], "R3|writes-back-what-it-loaded"),
    Case("staging-file-moved-before-it-is-written", "break", [(C_, WM_OPEN, "    import os\n    tmp = str(filename) + '.tmp'\n    with open(tmp, 'wb') as fobj:\n        os.replace(tmp, filename)\n        fobj.write(metadata)\n")], "R1|writer"),
    Case("staging-file-moved-elsewhere", "break", [(C_, WM_OPEN, "    import os\n    tmp = str(filename) + '.tmp'\n    with open(tmp, 'wb') as fobj:\n        fobj.write(metadata)\n    os.replace(tmp, str(filename) + '.new')\n")], "R1|writer"),
    Case("staging-file-and-truncated-target", "break", [(C_, WM_OPEN, "    import os\n    tmp = str(filename) + '.tmp'\n    open(filename, 'wb').close()\n    with open(tmp, 'wb') as fobj:\n        fobj.write(metadata)\n    os.replace(tmp, filename)\n")], "R1|writer"),
    Case("staging-file-in-text-mode", "break", [(C_, WM_OPEN, "    import os\n    tmp = str(filename) + '.tmp'\n    with open(tmp, 'w') as fobj:\n        fobj.write(metadata.decode('utf-8'))\n    os.replace(tmp, filename)\n")], "R1|writer"),
    # ---- preserving
    Case("writer-stages-then-renames", "keep", [(C_, WM_OPEN, "    import os\n    tmp = str(filename) + '.tmp'\n    with open(tmp, 'wb') as fobj:\n        fobj.write(metadata)\n    os.replace(tmp, filename)\n")]),
    Case("writer-stages-with-mkstemp", "keep", [(C_, WM_OPEN, "    import os, tempfile\n    fd, tmp = tempfile.mkstemp(dir=os.path.dirname(os.path.abspath(filename)))\n    with open(fd, 'wb') as fobj:\n        fobj.write(metadata)\n    os.replace(tmp, filename)\n")]),
    Case("writer-with-explicit-handle", "keep", [(C_, WM_OPEN, "    fobj = open(filename, 'wb')\n    fobj.write(metadata)\n    fobj.close()\n")]),
    Case("writer-local-name", "keep", [(C_, WM_SER + WM_OPEN, "    data = canonserialize(metadata)\n    with open(filename, mode='wb') as out:\n        out.write(data)\n")]),
    Case("loader-returns-directly", "keep", [(C_, LM_BODY, "    with open(fname, 'rb') as fobj:\n        return load(fobj)\n")]),
    Case("loader-explicit-none-hook", "keep", [(C_, "        metadata = load(fobj)\n", "        metadata = load(fobj, object_hook=None)\n")]),
    Case("loader-reads-then-loads", "keep", [(C_, LM_BODY, "    from json import loads\n    with open(fname, 'rb') as fobj:\n        raw = fobj.read()\n    return loads(raw)\n")]),
    Case("sign-signable-clears-own-entry-first", "keep", [(S, "    signable['signatures'][public_key_as_hexstr] = signature_dict\n", "    signable['signatures'].pop(public_key_as_hexstr, None)\n    signable['signatures'][public_key_as_hexstr] = signature_dict\n")]),
]
MIN_APPLIED = 18
