from .runner import Case
from .snippets import *  # noqa: F401,F403
from .snippets import A

VD_KEYS = "    expected_keys = delegations[delegation_name]['pubkeys']\n"
VD_THR = "    threshold = delegations[delegation_name]['threshold']\n"
VD_ROLE = "    if delegation_name not in delegations:\n        raise UnknownRoleError('Role ' + delegation_name + ' not found in the given delegating metadata.')\n"
VD_DELEG = "    delegations = trusted_delegating_metadata['signed']['delegations']\n"
VD_CALL = "    verify_signable(untrusted_delegated_metadata, expected_keys, threshold, gpg=gpg)\n"
VD_CHECK_T = "    checkformat_delegating_metadata(trusted_delegating_metadata)\n"

CASES = [
    Case("fixed-role-index", "break", [(A, VD_KEYS, "    expected_keys = delegations['key_mgr']['pubkeys']\n")], "R3|verify-with-role-rules"),
    Case("role-from-untrusted-type", "break", [(A, VD_KEYS, "    expected_keys = delegations[untrusted_delegated_metadata['signed']['type']]['pubkeys']\n")], "R3|verify-with-role-rules"),
    Case("delegations-from-untrusted-side", "break", [(A, VD_DELEG, "    delegations = untrusted_delegated_metadata['signed']['delegations']\n")], "R"),
    Case("get-with-default-role", "break", [(A, VD_ROLE, ""), (A, VD_KEYS, "    expected_keys = delegations.get(delegation_name, delegations['key_mgr'])['pubkeys']\n"), (A, VD_THR, "    threshold = delegations.get(delegation_name, delegations['key_mgr'])['threshold']\n")], "R"),
    Case("threshold-hardcoded", "break", [(A, VD_THR, "    threshold = 1\n")], "R3|verify-with-role-rules"),
    Case("threshold-from-other-role", "break", [(A, VD_THR, "    threshold = min([d['threshold'] for d in delegations.values()])\n")], "R3|"),
    Case("unknown-role-falls-through", "break", [(A, VD_ROLE, "    if delegation_name not in delegations:\n        return\n")], "R2|"),
    Case("unknown-role-wrong-error", "break", [(A, "        raise UnknownRoleError('Role '", "        raise SignatureError('Role '")], "unknown-role-error"),
    Case("trusted-side-not-validated", "break", [(A, VD_CHECK_T, "")], "R1|trusted-checked"),
    Case("gpg-mode-forced", "break", [(A, VD_CALL, "    verify_signable(untrusted_delegated_metadata, expected_keys, threshold, gpg=False)\n")], "R3|"),
    Case("verifies-trusted-envelope", "break", [(A, VD_CALL, "    verify_signable(trusted_delegating_metadata, expected_keys, threshold, gpg=gpg)\n")], "R3|"),
    Case("signature-error-swallowed", "break", [(A, VD_CALL, "    try:\n    " + VD_CALL + "    except SignatureError:\n        print('warning: not enough signatures')\n")], "R3|"),
    Case("keys-union-of-all-roles", "break", [(A, VD_KEYS, "    expected_keys = [k for d in delegations.values() for k in d['pubkeys']]\n")], ""),
    Case("extra-rejection-of-valid-metadata", "break", [(A, VD_CALL, "    if len(untrusted_delegated_metadata['signatures']) > 8:\n        raise ValueError('too many signatures')\n" + VD_CALL)], "R5|reject|other"),
    Case("name-gate-dropped-is-harmless", "keep", [(A, "    if not isinstance(delegation_name, str):\n        raise TypeError('delegation_name must be a string, not a ' + str(type(delegation_name)))\n", "")]),
    # ---- preserving
    Case("inline-temporaries", "keep", [(A, VD_CALL, "    verify_signable(untrusted_delegated_metadata, delegations[delegation_name]['pubkeys'], delegations[delegation_name]['threshold'], gpg=gpg)\n")]),
    Case("isinstance-bool-gate", "keep", [(A, "    if gpg not in [True, False]:\n", "    if not isinstance(gpg, bool):\n")]),
    Case("rename-locals", "keep", [(A, lambda t: t.replace("expected_keys", "ks").replace("delegations = ", "dl = ").replace("delegations[", "dl[").replace("not in delegations:", "not in dl:") if "expected_keys" in t else None, None)]),
    Case("role-entry-temporary", "keep", [(A, VD_KEYS + VD_THR, "    role = delegations[delegation_name]\n    expected_keys = role['pubkeys']\n    threshold = role['threshold']\n")]),
    Case("positional-gpg", "keep", [(A, VD_CALL, "    verify_signable(untrusted_delegated_metadata, expected_keys, threshold, gpg)\n")]),
    Case("membership-positive-form", "keep", [(A, VD_ROLE + VD_KEYS + VD_THR + VD_CALL, "    if delegation_name in delegations:\n    " + VD_KEYS + "    " + VD_THR + "    " + VD_CALL + "    else:\n        raise UnknownRoleError('Role ' + delegation_name + ' not found in the given delegating metadata.')\n")]),
]
MIN_APPLIED = 18
