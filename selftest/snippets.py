"""Shared edit snippets (canonical ast.unparse text of today's tree)."""

A, C_, S = "authentication", "common", "signing"

# --- reverting the repaired defects (each is a breaking edit that must be reported again)
REVERT_D1 = [
    (A, "hasher = hashes.Hash(hashes.SHA256())", "hasher = cryptography.hazmat.primitives.hashes.Hash(cryptography.hazmat.primitives.hashes.SHA256(), cryptography.hazmat.backends.default_backend())"),
]
REVERT_D3 = [
    (
        C_,
        "    try:\n        as_int = int(natural_int)\n    except OverflowError:\n        raise ValueError('Expected an integer >= 1.') from None\n    if as_int != natural_int or natural_int < 1:",
        "    if int(natural_int) != natural_int or natural_int < 1:",
    ),
]
REVERT_D4 = [
    (
        A,
        "    if 'root' not in trusted_current_root_metadata['signed']['delegations'] or 'root' not in untrusted_new_root_metadata['signed']['delegations']:\n        raise ValueError('Expected root metadata that includes a delegation to \"root\" (root keys and threshold) in both pieces of metadata provided.')\n",
        "",
    ),
]
