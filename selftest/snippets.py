"""Shared edit snippets (canonical ast.unparse text of today's tree)."""

A, C_, S = "authentication", "common", "signing"

# --- reverting the repaired defects (each is a breaking edit that must be reported again)
REVERT_D1 = [
    (A, "hasher = hashes.Hash(hashes.SHA256())", "hasher = cryptography.hazmat.primitives.hashes.Hash(cryptography.hazmat.primitives.hashes.SHA256(), cryptography.hazmat.backends.default_backend())"),
]
REVERT_D3 = [
    (
        C_,
        "    try:\n        as_int = int(natural_int)\n    except OverflowError:\n        raise ValueError('Expected an integer >= 1.') from None\n    if as_int != natural_int or natural_int < 1:",
        "    if int(natural_int) != natural_int or natural_int < 1:",
    ),
]
REVERT_D4 = [
    (
        A,
        "    if 'root' not in trusted_current_root_metadata['signed']['delegations'] or 'root' not in untrusted_new_root_metadata['signed']['delegations']:\n        raise ValueError('Expected root metadata that includes a delegation to \"root\" (root keys and threshold) in both pieces of metadata provided.')\n",
        "",
    ),
]

# --- verify_signable building blocks (canonical text)
VS_AUTH_FILTER = "        if pubkey_hex not in authorized_pub_keys:\n            print('Ignoring signature from a key (\"' + str(pubkey_hex) + '\") that is not authorized to sign this metadata.')\n            continue\n"
VS_RAW_TRY = "            try:\n                verify_signature(signature['signature'], public, signed_data)\n            except cryptography.exceptions.InvalidSignature:\n                continue\n            else:\n                good_sigs_from_trusted_keys[pubkey_hex] = signature\n"
VS_GPG_TRY = "            try:\n                verify_gpg_signature(signature, pubkey_hex, signed_data)\n            except cryptography.exceptions.InvalidSignature:\n                continue\n            else:\n                good_sigs_from_trusted_keys[pubkey_hex] = signature\n"
VS_GATE = "    if len(good_sigs_from_trusted_keys) < threshold:\n"
VS_LOOP_HEAD = "    for pubkey_hex, signature in signable['signatures'].items():\n"
VS_PAYLOAD = "    signed_data = canonserialize(signable['signed'])\n"
VS_THRESH_GATE = "    if not isinstance(threshold, int) or threshold <= 0:\n        raise TypeError('threshold must be a positive integer.')\n"
VS_HEXKEY_FILTER = "        if not is_hex_key(pubkey_hex):\n            print('Ignoring signature from \"key\" with public key value that does not look like a key value: ' + str(pubkey_hex))\n            continue\n"
VS_GPGSHAPE_FILTER = "        if gpg and (not is_gpg_signature(signature)):\n            print('Ignoring \"signature\" that does not look like a gpg signature value: ' + str(signature))\n            continue\n"
VS_RAWSHAPE_FILTER = "            if not is_signature(signature):\n                print('Ignoring \"signature\" that does not look like a hex signature value: ' + str(signature))\n                continue\n"

REVERT_D7 = [
    (A, "does not look like a key value: ' + ascii(pubkey_hex))", "does not look like a key value: ' + str(pubkey_hex))"),
    (A, "does not look like a gpg signature value: ' + ascii(signature))", "does not look like a gpg signature value: ' + str(signature))"),
]
VS_HEXKEY_FILTER = "        if not is_hex_key(pubkey_hex):\n            print('Ignoring signature from \"key\" with public key value that does not look like a key value: ' + ascii(pubkey_hex))\n            continue\n"
VS_GPGSHAPE_FILTER = "        if gpg and (not is_gpg_signature(signature)):\n            print('Ignoring \"signature\" that does not look like a gpg signature value: ' + ascii(signature))\n            continue\n"
VS_RAWSHAPE_FILTER = "            if not is_signature(signature):\n                print('Ignoring \"signature\" that does not look like a hex signature value: ' + ascii(signature))\n                continue\n"

# --- verify_root building blocks
VR_VERSION_IF = "    if trusted_root_version + 1 != untrusted_root_version:\n"
VR_CALL_OLD = "    verify_signable(untrusted_new_root_metadata, authorized_pub_keys, expected_threshold, gpg=True)\n"
VR_CALL_NEW = "    verify_signable(untrusted_new_root_metadata, new_authorized_pub_keys, new_expected_threshold, gpg=True)\n"
VR_TYPE_IF = "    if trusted_current_root_metadata['signed']['type'] != 'root' or untrusted_new_root_metadata['signed']['type'] != 'root':\n"
VR_CHECK_T = "    checkformat_delegating_metadata(trusted_current_root_metadata)\n"
VR_CHECK_U = "    checkformat_delegating_metadata(untrusted_new_root_metadata)\n"

REVERT_D2 = [(A, "        checkformat_delegating_metadata({'signatures': {}, 'signed': untrusted_delegated_metadata['signed']})\n", "        checkformat_delegating_metadata(untrusted_delegated_metadata)\n")]
REVERT_D5 = [("__main__", "sys.exit(cli.cli())", "cli.cli()")]
REVERT_D6 = [("cli", "        print('ABORTED.  Expected key file to contain only a hex string representation of an ed25519 key.  It does not.')\n        return 1\n", "        print('ABORTED.  Expected key file to contain only a hex string representation of an ed25519 key.  It does not.')\n        return\n")]

# --- persistence
RS = "root_signing"
WM_SER = "    metadata = canonserialize(metadata)\n"
WM_OPEN = "    with open(filename, 'wb') as fobj:\n        fobj.write(metadata)\n"
LM_BODY = "    with open(fname, 'rb') as fobj:\n        metadata = load(fobj)\n    return metadata\n"
SA_RESET = "    repodata['signatures'] = {}\n"
SA_WRITE = "    write_metadata_to_file(repodata, fname)"
