from .runner import Case
from .snippets import *  # noqa: F401,F403
from .snippets import A, C_, S

L1 = "    for artifact_name, metadata in repodata['packages'].items():\n        signature_hex = serialize_and_sign(metadata, private)\n        signature_dict = {'signature': signature_hex}\n        checkformat_signature(signature_dict)\n        repodata['signatures'][artifact_name] = {public_hex: signature_dict}\n"
L2 = "    for artifact_name, metadata in repodata.get('packages.conda', {}).items():\n        signature_hex = serialize_and_sign(metadata, private)\n        repodata['signatures'][artifact_name] = {public_hex: {'signature': signature_hex}}\n"

CASES = [
    Case("merges-into-old-signatures", "break", [(S, SA_RESET, "    repodata.setdefault('signatures', {})\n")], "reset-first"),
    Case("reset-after-first-section", "break", [(S, SA_RESET, ""), (S, L2, SA_RESET + L2)], "reset-first"),
    Case("skips-conda-section", "break", [(S, L2, "")], "R3|sections"),
    Case("signs-artifact-name", "break", [(S, L1, L1.replace("serialize_and_sign(metadata, private)", "serialize_and_sign(artifact_name, private)"))], "signature-over-own-metadata"),
    Case("signs-whole-section", "break", [(S, L2, L2.replace("serialize_and_sign(metadata, private)", "serialize_and_sign(repodata['packages.conda'], private)"))], "signature-over-own-metadata"),
    Case("files-under-private-key", "break", [(S, L2, L2.replace("{public_hex: {'signature'", "{private_key_hex: {'signature'"))], "filed-under-signer"),
    Case("stored-under-wrong-name", "break", [(S, L2, L2.replace("repodata['signatures'][artifact_name]", "repodata['signatures'][artifact_name.lower()]"))], "R3|target"),
    Case("writes-to-other-file", "break", [(S, SA_WRITE, "    write_metadata_to_file(repodata, fname + '.signed')")], "writes-back-what-it-loaded"),
    Case("drops-extra-top-level-fields", "break", [(S, SA_RESET, SA_RESET + "    for extra in [k for k in repodata if k not in ('packages', 'packages.conda', 'signatures', 'info')]:\n        del repodata[extra]\n")], "writes-only-signatures"),
    Case("second-loop-different-shape", "break", [(S, L2, L2.replace("{public_hex: {'signature': signature_hex}}", "{public_hex: signature_hex}"))], "R3|"),
    Case("packages-gate-dropped", "break", [(S, "    if 'packages' not in repodata:\n        raise ValueError('Expected a \"packages\" entry in given repodata file.')\n", "")], "R1|"),
    Case("only-first-artifact-signed", "break", [(S, L1, L1 + "        break\n")], ""),
    Case("signs-with-different-key-object", "break", [(S, L2, L2.replace("serialize_and_sign(metadata, private)", "serialize_and_sign(metadata, PrivateKey.from_hex(private_key_hex[::-1]))"))], "signature-over-own-metadata"),
    # ---- preserving
    Case("redundant-key-check-dropped", "keep", [(S, "    checkformat_hex_key(private_key_hex)\n", "")]),
    Case("loops-merged-into-helper-variable", "keep", [(S, L2, "    conda_section = repodata.get('packages.conda', {})\n    for artifact_name, metadata in conda_section.items():\n        signature_hex = serialize_and_sign(metadata, private)\n        repodata['signatures'][artifact_name] = {public_hex: {'signature': signature_hex}}\n")]),
    Case("rename-locals", "keep", [(S, lambda t: t.replace("artifact_name", "name").replace("signature_hex", "sh") if "artifact_name" in t else None, None)]),
    Case("format-check-in-both-loops", "keep", [(S, L2, "    for artifact_name, metadata in repodata.get('packages.conda', {}).items():\n        signature_hex = serialize_and_sign(metadata, private)\n        signature_dict = {'signature': signature_hex}\n        checkformat_signature(signature_dict)\n        repodata['signatures'][artifact_name] = {public_hex: signature_dict}\n")]),
    Case("signatures-local-then-assigned", "keep", [(S, SA_RESET, "    fresh = {}\n    repodata['signatures'] = fresh\n")]),
    Case("conda-section-guarded-by-if", "keep", [(S, L2, "    if 'packages.conda' in repodata:\n        for artifact_name, metadata in repodata['packages.conda'].items():\n            signature_hex = serialize_and_sign(metadata, private)\n            repodata['signatures'][artifact_name] = {public_hex: {'signature': signature_hex}}\n")]),
]
MIN_APPLIED = 16
