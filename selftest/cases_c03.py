from .runner import Case
from .snippets import *  # noqa: F401,F403
from .snippets import A

CASES = [
    Case("version-relaxed-to-greater", "break", [(A, VR_VERSION_IF, "    if trusted_root_version >= untrusted_root_version:\n")], "R3|version"),
    Case("version-allows-skips", "break", [(A, VR_VERSION_IF, "    if trusted_root_version + 1 > untrusted_root_version:\n")], "R3|version"),
    Case("version-allows-replay", "break", [(A, VR_VERSION_IF, "    if trusted_root_version + 1 != untrusted_root_version and trusted_root_version != untrusted_root_version:\n")], "R3|version"),
    Case("version-check-dropped", "break", [(A, VR_VERSION_IF, "    if False:\n")], "R3|version"),
    Case("self-consistency-check-dropped", "break", [(A, VR_CALL_NEW, "")], "R4|verify|new"),
    Case("trusted-check-dropped", "break", [(A, VR_CALL_OLD, "")], "R4|verify|trusted"),
    Case("new-rules-used-twice", "break", [(A, VR_CALL_OLD, VR_CALL_NEW)], "R4|verify|trusted"),
    Case("threshold-read-from-new-root", "break", [(A, VR_CALL_OLD, ""), (A, VR_CALL_NEW, VR_CALL_NEW + "    verify_signable(untrusted_new_root_metadata, authorized_pub_keys, new_expected_threshold, gpg=True)\n")], "R4|verify|trusted"),
    Case("keys-read-from-new-root", "break", [(A, "    authorized_pub_keys = root_expectations['pubkeys']\n", "    authorized_pub_keys = untrusted_new_root_metadata['signed']['delegations']['root']['pubkeys']\n")], "R4|verify|trusted"),
    Case("gpg-mode-omitted", "break", [(A, VR_CALL_OLD, VR_CALL_OLD.replace(", gpg=True", ""))], "R4|verify|trusted"),
    Case("type-gate-or-to-and", "break", [(A, "['type'] != 'root' or untrusted_new_root_metadata", "['type'] != 'root' and untrusted_new_root_metadata")], "R2|type"),
    Case("signature-error-swallowed", "break", [(A, VR_CALL_NEW, "    try:\n    " + VR_CALL_NEW + "    except SignatureError:\n        pass\n")], "R4|verify|new"),
    Case("verifies-the-trusted-root-instead", "break", [(A, VR_CALL_OLD, VR_CALL_OLD.replace("untrusted_new_root_metadata", "trusted_current_root_metadata"))], "R4|verify|trusted"),
    Case("new-root-not-validated", "break", [(A, VR_CHECK_U, "")], "R1|checker|new"),
    Case("rules-from-key-mgr-delegation", "break", [(A, "    root_expectations = trusted_current_root_metadata['signed']['delegations']['root']\n", "    root_expectations = trusted_current_root_metadata['signed']['delegations']['key_mgr']\n")], "R4|verify|trusted"),
    Case("threshold-hardcoded", "break", [(A, VR_CALL_OLD, "    verify_signable(untrusted_new_root_metadata, authorized_pub_keys, 1, gpg=True)\n")], "R4|verify|trusted"),
    Case("extra-rejection", "break", [(A, VR_VERSION_IF, "    if untrusted_root_version > 1000:\n        raise ValueError('version too large')\n" + VR_VERSION_IF)], "R5|reject|other"),
    Case("revert-D4", "break", REVERT_D4, "R5|reject|other"),
    # ---- preserving
    Case("swap-the-two-verifications", "keep", [(A, VR_CALL_OLD + VR_CALL_NEW, VR_CALL_NEW + VR_CALL_OLD)]),
    Case("inline-temporaries", "keep", [(A, VR_CALL_OLD, "    verify_signable(untrusted_new_root_metadata, trusted_current_root_metadata['signed']['delegations']['root']['pubkeys'], trusted_current_root_metadata['signed']['delegations']['root']['threshold'], gpg=True)\n")]),
    Case("rename-locals", "keep", [(A, lambda t: t.replace("root_expectations", "rexp").replace("expected_threshold", "thr") if "root_expectations" in t else None, None)]),
    Case("version-as-difference", "keep", [(A, VR_VERSION_IF, "    if untrusted_root_version - trusted_root_version != 1:\n")]),
    Case("version-as-not-eq", "keep", [(A, VR_VERSION_IF, "    if not trusted_root_version + 1 == untrusted_root_version:\n")]),
    Case("version-sides-swapped", "keep", [(A, VR_VERSION_IF, "    if untrusted_root_version != 1 + trusted_root_version:\n")]),
    Case("type-gate-split", "keep", [(A, VR_TYPE_IF, "    if trusted_current_root_metadata['signed']['type'] != 'root':\n        raise ValueError('not root')\n    if untrusted_new_root_metadata['signed']['type'] != 'root':\n")]),
    Case("version-before-type", "keep", [(A, "gpg=True)\n\ndef verify_delegation", "gpg=True)\n    return None\n\ndef verify_delegation")]),
    Case("positional-gpg", "keep", [(A, VR_CALL_OLD, VR_CALL_OLD.replace("gpg=True", "True"))]),
]
MIN_APPLIED = 24
