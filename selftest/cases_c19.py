from .runner import Case
from .snippets import *  # noqa: F401,F403
from .snippets import C_

MC = "metadata_construction"
CASES = [
    Case("upper-case-hex-out", "break", [(C_, "        return hexlify(cls.to_bytes(key)).decode('utf-8')", "        return hexlify(cls.to_bytes(key)).decode('utf-8').upper()")], "R1|to_hex"),
    Case("from-hex-skips-format-check", "break", [(C_, "        checkformat_hex_key(key_value_in_hex)\n        key_value_in_bytes = unhexlify(key_value_in_hex)", "        key_value_in_bytes = unhexlify(key_value_in_hex)")], "R1|from_hex"),
    Case("from-hex-strips-input", "break", [(C_, "        key_value_in_bytes = unhexlify(key_value_in_hex)", "        key_value_in_bytes = unhexlify(key_value_in_hex.strip())")], "R1|from_hex"),
    Case("public-bytes-pem", "break", [(C_, "key.public_bytes(serialization.Encoding.Raw, serialization.PublicFormat.Raw)", "key.public_bytes(serialization.Encoding.PEM, serialization.PublicFormat.SubjectPublicKeyInfo)")], "R1|to_bytes|PublicKey"),
    Case("private-bytes-der", "break", [(C_, "key.private_bytes(encoding=serialization.Encoding.Raw, format=serialization.PrivateFormat.Raw, encryption_algorithm=serialization.NoEncryption())", "key.private_bytes(encoding=serialization.Encoding.DER, format=serialization.PrivateFormat.PKCS8, encryption_algorithm=serialization.NoEncryption())")], "R1|to_bytes|PrivateKey"),
    Case("from-bytes-truncates", "break", [(C_, "        return super().from_public_bytes(key_value_in_bytes)", "        return super().from_public_bytes(key_value_in_bytes[:32])")], "R1|from_bytes|PublicKey"),
    Case("byteslike-gate-dropped", "break", [(C_, "        checkformat_byteslike(key_value_in_bytes)\n        return super().from_private_bytes(key_value_in_bytes)", "        return super().from_private_bytes(key_value_in_bytes)")], "R1|from_bytes|PrivateKey"),
    Case("suffixes-swapped-on-write", "break", [(MC, "open(fname + '.pri', 'wb')", "open(fname + '.tmp', 'wb')"), (MC, "open(fname + '.pub', 'wb')", "open(fname + '.pri', 'wb')"), (MC, "open(fname + '.tmp', 'wb')", "open(fname + '.pub', 'wb')")], "R2|keyfile-writer"),
    Case("reader-roles-swapped", "break", [(C_, "    private = PrivateKey.from_bytes(private_bytes)\n    public = PublicKey.from_bytes(public_bytes)", "    private = PrivateKey.from_bytes(public_bytes)\n    public = PublicKey.from_bytes(private_bytes)")], "R2|keyfile-reader"),
    Case("reader-text-mode", "break", [(C_, "open(name + '.pri', 'rb')", "open(name + '.pri')")], "R2|keyfile-reader"),
    Case("writer-hex-encodes-private-key", "break", [(MC, "        fobj.write(PrivateKey.to_bytes(private))", "        fobj.write(PrivateKey.to_hex(private).encode('ascii'))")], "R2|keyfile-writer"),
    Case("equivalence-by-identity", "break", [(C_, "        return cls.to_bytes(k1) == cls.to_bytes(k2)", "        return id(k1) == id(k2)")], "R3|equivalence"),
    Case("equivalence-ignores-type", "break", [(C_, "        if type(k1) is not type(k2):\n            return False\n", "")], "R3|equivalence"),
    Case("equivalence-prefix-only", "break", [(C_, "        return cls.to_bytes(k1) == cls.to_bytes(k2)", "        return cls.to_bytes(k1)[:8] == cls.to_bytes(k2)[:8]")], "R3|equivalence"),
    Case("key-gate-public-only", "break", [(C_, "isinstance(key, (ed25519.Ed25519PublicKey, ed25519.Ed25519PrivateKey))", "isinstance(key, (ed25519.Ed25519PublicKey, object))")], "R4|key-gate"),
    Case("returned-public-key-independent", "break", [("metadata_construction", "    public = private.public_key()\n", "    public = PrivateKey.generate().public_key()\n")], "R2|keyfile-writer"),
    # ---- preserving
    Case("to-hex-via-bytes-hex", "keep", [(C_, "        return hexlify(cls.to_bytes(key)).decode('utf-8')", "        return cls.to_bytes(key).hex()")]),
    Case("from-hex-via-fromhex", "keep", [(C_, "        key_value_in_bytes = unhexlify(key_value_in_hex)", "        key_value_in_bytes = bytes.fromhex(key_value_in_hex)")]),
    Case("raw-helpers", "keep", [(C_, "key.public_bytes(serialization.Encoding.Raw, serialization.PublicFormat.Raw)", "key.public_bytes_raw()")]),
    Case("keyword-arguments-public-bytes", "keep", [(C_, "key.public_bytes(serialization.Encoding.Raw, serialization.PublicFormat.Raw)", "key.public_bytes(encoding=serialization.Encoding.Raw, format=serialization.PublicFormat.Raw)")]),
    Case("equivalence-sides-swapped", "keep", [(C_, "        return cls.to_bytes(k1) == cls.to_bytes(k2)", "        return cls.to_bytes(k2) == cls.to_bytes(k1)")]),
    Case("reader-inline", "keep", [(C_, "    private = PrivateKey.from_bytes(private_bytes)\n    public = PublicKey.from_bytes(public_bytes)\n    return (private, public)", "    return (PrivateKey.from_bytes(private_bytes), PublicKey.from_bytes(public_bytes))")]),
]
MIN_APPLIED = 18
