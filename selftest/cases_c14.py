from .runner import Case
from .snippets import *  # noqa: F401,F403
from .snippets import A, C_, S

DM = {
    "sigloop": "    for k in metadata['signatures']:\n        checkformat_any_signature(metadata['signatures'][k])\n",
    "req": "    for entry in ['type', 'metadata_spec_version', 'delegations', 'expiration']:\n",
    "type": "    checkformat_string(contents['type'])\n",
    "sup": "    if contents['type'] not in SUPPORTED_DELEGATING_METADATA_TYPES:\n        raise ValueError('Given type entry (\"' + contents['type'] + '\") is not one of the supported types of delegating metadata.')\n",
    "spec": "    checkformat_string(contents['metadata_spec_version'])\n",
    "del": "    checkformat_delegations(contents['delegations'])\n",
    "exp": "    checkformat_utc_isoformat(contents['expiration'])\n",
    "tsv": "    if 'timestamp' not in contents and 'version' not in contents:\n",
    "rootv": "    if contents['type'] == 'root' and 'version' not in contents:\n        raise ValueError('Root metadata must specify its version number.')\n",
    "ts": "    if 'timestamp' in contents:\n        checkformat_utc_isoformat(contents['timestamp'])\n",
    "ver": "    if 'version' in contents:\n        checkformat_natural_int(contents['version'])",
}
DELEG_COND = "    elif not (set(delegation) == {'threshold', 'pubkeys'} and delegation['threshold'] >= 1 and isinstance(delegation['pubkeys'], list) and all([is_hex_key(k) for k in delegation['pubkeys']])):\n"

CASES = [
    Case("duplicate-key-check-dropped", "break", [(C_, "    if len(set(list_of_hex_keys)) != len(list_of_hex_keys):\n        raise ValueError('The given list of keys in hex string form contains duplicates.  Duplicates are not permitted.')\n", "")], "R"),
    Case("threshold-zero-allowed", "break", [(C_, DELEG_COND, DELEG_COND.replace(">= 1", ">= 0")), (C_, "    if as_int != natural_int or natural_int < 1:", "    if as_int != natural_int or natural_int < 0:")], "R"),
    Case("float-threshold-allowed", "break", [(C_, "    if as_int != natural_int or natural_int < 1:", "    if natural_int < 1:")], "R"),
    Case("extra-delegation-fields-allowed", "break", [(C_, "set(delegation) == {'threshold', 'pubkeys'}", "set(delegation) >= {'threshold', 'pubkeys'}")], "R"),
    Case("expiration-not-checked", "break", [(C_, DM["exp"], "")], "row|wellformed|expiration"),
    Case("expiration-not-required", "break", [(C_, DM["req"], "    for entry in ['type', 'metadata_spec_version', 'delegations']:\n"), (C_, DM["exp"], "    if 'expiration' in contents:\n    " + DM["exp"])], "row|required|expiration"),
    Case("timestamp-and-version-both-required", "break", [(C_, DM["tsv"], "    if 'timestamp' not in contents or 'version' not in contents:\n")], "R2|reject|other"),
    Case("timestamp-or-version-check-dropped", "break", [(C_, DM["tsv"], "    if False:\n")], "row|timestamp-or-version"),
    Case("signature-entries-not-validated", "break", [(C_, DM["sigloop"], "")], "row|signature-entries"),
    Case("only-first-signature-entry-validated", "break", [(C_, DM["sigloop"], "    for k in list(metadata['signatures'])[:1]:\n        checkformat_any_signature(metadata['signatures'][k])\n")], "row|signature-entries"),
    Case("supported-types-not-checked", "break", [(C_, DM["sup"], "")], "row|type-supported"),
    Case("supported-types-extended", "break", [(C_, "SUPPORTED_DELEGATING_METADATA_TYPES = ['root', 'key_mgr']", "SUPPORTED_DELEGATING_METADATA_TYPES = ['root', 'key_mgr', 'pkg_mgr']")], "row|type-supported"),
    Case("root-may-omit-version", "break", [(C_, DM["rootv"], "")], "row|root-needs-version"),
    Case("version-not-validated", "break", [(C_, DM["ver"], "    pass")], "row|optional-wellformed|version"),
    Case("timestamp-not-validated", "break", [(C_, DM["ts"], "")], "row|optional-wellformed|timestamp"),
    Case("delegations-not-validated", "break", [(C_, DM["del"], "    checkformat_string(str(contents['delegations']))\n")], "row|wellformed|delegations"),
    Case("role-names-not-checked", "break", [(C_, "    for index in delegations:\n        checkformat_string(index)\n", "    for index in delegations:\n")], "R"),
    Case("spec-version-must-be-current", "break", [(C_, DM["spec"], DM["spec"] + "    if contents['metadata_spec_version'] != SECURITY_METADATA_SPEC_VERSION:\n        raise ValueError('unsupported spec version')\n")], "R2|reject|other"),
    Case("envelope-not-required", "break", [(C_, "    checkformat_signable(metadata)\n    for k in metadata['signatures']:", "    for k in metadata['signatures']:")], "row|envelope"),
    Case("date-format-relaxed", "break", [(C_, "datetime.strptime(date_string, '%Y-%m-%dT%H:%M:%SZ')", "datetime.strptime(date_string, '%Y-%m-%dT%H:%M:%S%z')")], "R"),
    # ---- preserving
    Case("reorder-independent-field-checks", "keep", [(C_, DM["spec"] + DM["del"] + DM["exp"], DM["exp"] + DM["del"] + DM["spec"])]),
    Case("required-loop-as-four-ifs", "keep", [(C_, DM["req"] + "        if entry not in contents:\n            raise ValueError('Expected a \"' + str(entry) + '\" entry in the given delegating metadata.')\n", "".join("    if '%s' not in contents:\n        raise ValueError('Expected a \"%s\" entry in the given delegating metadata.')\n" % (k, k) for k in ("type", "metadata_spec_version", "delegations", "expiration")))]),
    Case("optional-checks-before-presence-rule", "keep", [(C_, DM["ts"] + DM["ver"], ""), (C_, DM["tsv"], DM["ts"] + DM["ver"] + "\n" + DM["tsv"])]),
    Case("type-membership-by-equality", "keep", [(C_, "    if contents['type'] not in SUPPORTED_DELEGATING_METADATA_TYPES:\n", "    if contents['type'] != 'root' and contents['type'] != 'key_mgr':\n")]),
    Case("signature-loop-over-values", "keep", [(C_, DM["sigloop"], "    for sig_entry in metadata['signatures'].values():\n        checkformat_any_signature(sig_entry)\n")]),
    Case("redundant-delegation-precheck-dropped", "keep", [(C_, DELEG_COND, "    elif not set(delegation) == {'threshold', 'pubkeys'}:\n")]),
]
MIN_APPLIED = 22
