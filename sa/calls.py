"""Call resolution and application (E1 resolution at call sites, E5 summaries)."""
from __future__ import annotations

import ast

from . import AnalysisError
from .model import dotted_chain
from .terms import C, CallT, Fresh, G, P, is_const, is_param_rooted, subst
from .walker import Exc, merge_facts


def call(w, e, st):
    f = e.func
    if any(isinstance(a, ast.Starred) for a in e.args) or any(k.arg is None for k in e.keywords):
        starred = True
    else:
        starred = False
    target = None
    recv_node = None
    if isinstance(f, ast.Name):
        if not w._is_module_level(f.id, st):
            target = ("value", st.env[f.id])
        elif f.id == "super":
            w.unsupported(e, "bare super() call")
        else:
            if w.fi.parent is not None and w.global_term_is_free(f.id):
                target = ("value", ("free", f.id))
            else:
                target = ("resolved", w.prog.resolve_name(w.mod, f.id), [])
    elif isinstance(f, ast.Attribute):
        chain = dotted_chain(f)
        if chain and chain[0] == "super()":
            if len(chain) != 2 or not w.fi.cls:
                w.unsupported(e, "super() chain")
            target = ("super", chain[1])
        elif chain and w._is_module_level(chain[0], st):
            r, rest = w.prog.resolve_dotted(w.mod, chain)
            if r[0] in ("class", "const") and len(rest) >= 2:
                # Class.MEMBER.method(...) / CONST.field.method(...): a method call on a value
                recv_node = f.value
                target = ("method", f.attr)
            else:
                target = ("resolved", r, rest)
        else:
            recv_node = f.value
            target = ("method", f.attr)
    else:
        recv_node = f
        target = ("callvalue",)

    pre = []
    if target[0] == "resolved" and isinstance(f, ast.Attribute):
        chain = dotted_chain(f)
        if chain[0] in w.mod.imports and len(chain) > 1:
            missing = w.eng.imports.check_chain(w.mod, chain)
            st = st.copy()
            st.ev("attrchain", w.site(f), tuple(chain), target[1], missing)
            if missing is not None:
                w.rz(pre, st, f, "AttributeError", "submodule %s is used without being imported and is not in the static import closure of %s" % (missing, w.mod.name), [], origin="import-closure")
    nodes = ([recv_node] if recv_node is not None else []) + list(e.args) + [k.value for k in e.keywords]
    cur, outs = w.seq([n.value if isinstance(n, ast.Starred) else n for n in nodes], st)
    outs = pre + outs
    res = []
    for s, ts in cur:
        recv = None
        if recv_node is not None:
            recv, ts = ts[0], ts[1:]
        args = ts[: len(e.args)]
        kwargs = tuple((k.arg or "**", v) for k, v in zip(e.keywords, ts[len(e.args) :]))
        is_starred = starred
        if starred:
            # f(*t, **d) with a tuple display / a dict display with constant keys: spliced in place
            flat_args, ok = [], True
            for node, v in zip(e.args, args):
                if isinstance(node, ast.Starred):
                    if isinstance(v, tuple) and len(v) == 2 and v[0] == "global" and v[1].startswith("const:"):
                        lit0 = w.eng.const_literal(v[1][6:])
                        if lit0 is not None and len(lit0) == 4 and lit0[0] == "lit" and lit0[1] == "tuple":
                            v = lit0  # *ARGS with a module-level tuple
                    if isinstance(v, tuple) and len(v) == 3 and v[0] == "nt" and not (v[1] in w.prog.classes and w.prog.classes[v[1]].is_dataclass):
                        flat_args.extend(v[2])  # *record: a NamedTuple is the tuple of its fields
                    elif isinstance(v, tuple) and len(v) == 4 and v[0] == "lit" and v[1] in ("tuple", "list"):
                        flat_args.extend(v[2])
                    else:
                        ok = False
                else:
                    flat_args.append(v)
            flat_kw = []
            for n, v in kwargs:
                if n == "**":
                    if isinstance(v, tuple) and len(v) == 4 and v[0] == "lit" and v[1] == "dict" and all(is_const(k) and isinstance(k[2], str) for k, _x in v[2]):
                        flat_kw.extend((k[2], x) for k, x in v[2])
                    else:
                        # **d with a dict whose key set was established (keys(d) == {...}): one
                        # keyword per key
                        ks = None
                        for f in s.closure():
                            if f[0] == "keys" and f[1] == v and all(isinstance(k0, str) for k0 in f[2]):
                                ks = f[2]
                        vt = s.types(v)
                        if ks is not None and vt is not None and vt <= {"dict"}:
                            from .terms import Sub as _Sub

                            flat_kw.extend((k0, _Sub(v, C(k0))) for k0 in sorted(ks))
                        else:
                            ok = False
                else:
                    flat_kw.append((n, v))
            if ok:
                args, kwargs, is_starred = tuple(flat_args), tuple(flat_kw), False
        if is_starred:
            s = s.copy()
            s.ev("starred-call", w.site(e))
        res.extend(dispatch(w, e, target, recv, args, kwargs, s, is_starred))
    return outs + res


def dispatch(w, e, target, recv, args, kwargs, s, starred=False):
    from . import tables

    kind = target[0]
    if kind == "value":
        return call_value(w, e, target[1], args, kwargs, s)
    if kind == "callvalue":
        return call_value(w, e, recv, args, kwargs, s)
    if kind == "super":
        cur_cls = w.fi.mod.short + "." + w.fi.cls
        bind = w.clsbind or cur_cls
        m = w.prog.find_method(bind, target[1], after=cur_cls)
        return call_method_resolution(w, e, m, bind, args, kwargs, s, "super()." + target[1])
    if kind == "resolved":
        r, rest = target[1], target[2]
        return call_resolution(w, e, r, rest, args, kwargs, s)
    if kind == "method":
        return call_on_value(w, e, recv, target[1], args, kwargs, s)
    raise AnalysisError("internal: unknown call target %r" % (target,))


def call_method_resolution(w, e, m, bind, args, kwargs, s, what):
    from . import tables

    if m is None:
        raise AnalysisError("cannot resolve method %s at %s" % (what, w.site(e)))
    if m[0] == "repo":
        fi = m[1]
        return apply_repo(w, e, fi, bind if fi.is_classmethod or True else None, args, kwargs, s)
    return tables.apply_ext(w, e, m[1], args, kwargs, s)


def call_resolution(w, e, r, rest, args, kwargs, s):
    from . import tables

    k = r[0]
    if k == "func" and not rest:
        return apply_repo(w, e, w.prog.funcs[r[1]], None, args, kwargs, s)
    if k == "class":
        if not rest:
            return tables.apply_new(w, e, r[1], args, kwargs, s)
        if len(rest) == 1:
            return call_on_value(w, e, G("class:" + r[1]), rest[0], args, kwargs, s)
    if k == "builtin":
        if not rest:
            return tables.apply_builtin(w, e, r[1], args, kwargs, s)
        return tables.apply_ext(w, e, ".".join([r[1]] + rest), args, kwargs, s)
    if k in ("ext", "extmod"):
        return tables.apply_ext(w, e, ".".join([r[1]] + rest), args, kwargs, s)
    if k == "pkg":
        return tables.apply_ext(w, e, ".".join([r[1]] + rest), args, kwargs, s)
    if k == "const":
        base = w.eng.immutable_const(r[1], r[2]) or G("const:%s.%s" % (r[1], r[2]))
        for a in rest[:-1]:
            base = ("attr", base, a)
        if rest:
            return call_on_value(w, e, base, rest[-1], args, kwargs, s)
        return call_value(w, e, base, args, kwargs, s)
    raise AnalysisError("unresolved call %s at %s" % (ast.unparse(e.func), w.site(e)))


def call_on_value(w, e, recv, mname, args, kwargs, s):
    from . import tables

    if recv[0] == "enum" and len(recv) == 3:
        m = w.prog.find_method(recv[1], mname)
        if m is not None and m[0] == "repo":
            return apply_repo(w, e, m[1], None, (recv,) + tuple(args), kwargs, s)
    if recv[0] == "obj" and len(recv) == 3:
        m = w.prog.find_method(recv[1], mname)
        if m is not None and m[0] == "repo":
            fi = m[1]
            if fi.is_classmethod or fi.is_staticmethod:
                return apply_repo(w, e, fi, recv[1], args, kwargs, s)
            return apply_repo(w, e, fi, None, (recv,) + tuple(args), kwargs, s)
        heap = s.env.get("$heap", {})
        if (recv, mname) in heap:
            return call_value(w, e, heap[(recv, mname)], args, kwargs, s)
    if recv[0] == "param" and w.fi.cls and not w.fi.is_classmethod and not w.fi.is_staticmethod and w.fi.parent is None and w.fi.node.args.args and recv == P(w.fi.node.args.args[0].arg):
        # self.method(...) inside a method: the class's own method, unless a subclass in the
        # repository overrides it (then the receiver's class decides, which is not known here)
        cq = w.fi.mod.short + "." + w.fi.cls
        m = w.prog.find_method(cq, mname)
        overridden = any(q != cq and ("repo", cq) in w.prog.mro(q) and mname in ci_.methods for q, ci_ in w.prog.classes.items())
        if m is not None and m[0] == "repo" and not overridden and not m[1].is_classmethod and not m[1].is_staticmethod and m[1] is not w.fi and (recv, mname) not in s.env.get("$heap", {}):
            return apply_repo(w, e, m[1], None, (recv,) + tuple(args), kwargs, s)
    nt = recv
    if recv[0] == "global" and recv[1].startswith("const:"):
        lit = w.eng.const_literal(recv[1][6:])
        if lit is not None and lit[0] == "nt":
            nt = lit
    if nt[0] == "nt" and len(nt) == 3:
        ci = w.prog.classes.get(nt[1])
        names = [n for n, _d in ci.nt_fields()] if ci is not None else []
        if mname in names:
            # a field that holds a callable: obj.field(args)
            return call_value(w, e, nt[2][names.index(mname)], args, kwargs, s)
        m = w.prog.find_method(nt[1], mname)
        if m is not None and m[0] == "repo":
            fi = m[1]
            if fi.is_classmethod or fi.is_staticmethod:
                return apply_repo(w, e, fi, nt[1], args, kwargs, s)
            return apply_repo(w, e, fi, None, (nt,) + tuple(args), kwargs, s)
    if recv[0] == "global":
        q = recv[1]
        if q.startswith("class:"):
            ci = w.prog.classes.get(q[6:])
            if ci is not None and ci.is_namedtuple and mname == "_make" and len(args) == 1 and not kwargs:
                # Record._make(iterable): the record of its items
                src = args[0]
                cands = [(s, "val", src)]
                if isinstance(src, tuple) and len(src) == 3 and src[0] == "gen":
                    cands = w._collect_exact(src, s, e) or cands
                outs = []
                for s2, k2, v2 in cands:
                    if k2 != "val":
                        outs.append((s2, k2, v2))
                    elif isinstance(v2, tuple) and len(v2) == 4 and v2[0] == "lit" and v2[1] in ("tuple", "list") and len(v2[2]) == len(ci.nt_fields()):
                        outs.append((s2, "val", ("nt", q[6:], tuple(v2[2]))))
                    else:
                        outs.extend(tables.apply_ext(w, e, "typing.NamedTuple._make", args, kwargs, s2))
                return outs
            m = w.prog.find_method(q[6:], mname)
            return call_method_resolution(w, e, m, q[6:], args, kwargs, s, q[6:] + "." + mname)
        if q.startswith("ext:"):
            return tables.apply_ext(w, e, q[4:] + "." + mname, args, kwargs, s)
        if q.startswith("module:"):
            r = w.prog.resolve_name(w.prog.by_short[q[7:]], mname)
            return call_resolution(w, e, r, [], args, kwargs, s)
        if q.startswith("builtin:"):
            return tables.apply_ext(w, e, q[8:] + "." + mname, args, kwargs, s)
    return tables.apply_method(w, e, mname, recv, args, kwargs, s)


def call_value(w, e, val, args, kwargs, s):
    from . import tables

    if val[0] == "rawfunc" and len(val) == 2 and val[1] in w.prog.funcs:
        return apply_repo(w, e, w.prog.funcs[val[1]], None, args, kwargs, s, raw=True)
    if val[0] == "closure":
        fi = w.prog.funcs.get(val[1])
        if fi is not None:
            return apply_repo(w, e, fi, None, args, kwargs, s, closure=val)
    if val[0] == "partial" and val[1] == ("global", "ext:operator.itemgetter") and len(args) == 1 and not kwargs and val[2]:
        # itemgetter(k1, k2, ...)(obj) == (obj[k1], obj[k2], ...)  /  itemgetter(k)(obj) == obj[k]
        c0 = tables.Ctx(w, e, "ext:operator.itemgetter", args, kwargs, s)
        cur = [(s, [])]
        outs = []
        for key in val[2]:
            nxt = []
            for s1, got in cur:
                c0.s = s1
                for s2, k2, p2 in tables._apply_subscript(c0, args[0], key):
                    if k2 == "val":
                        nxt.append((s2, got + [p2]))
                    else:
                        outs.append((s2, k2, p2))
            cur = nxt
        for s1, got in cur:
            outs.append((s1, "val", got[0] if len(val[2]) == 1 else ("lit", "tuple", tuple(got), None)))
        return outs
    if val[0] == "partial" and val[1] == ("global", "ext:operator.methodcaller") and len(args) == 1 and not kwargs and val[2] and is_const(val[2][0]) and isinstance(val[2][0][2], str):
        # methodcaller(name, *a, **kw)(obj) == obj.name(*a, **kw)
        return call_on_value(w, e, args[0], val[2][0][2], tuple(val[2][1:]), tuple(val[3]), s)
    if val[0] == "partial":
        # functools.partial(f, *a, **kw)(*args, **kwargs) == f(*a, *args, **{**kw, **kwargs})
        kw = dict(val[3])
        kw.update(dict(kwargs))
        return call_value(w, e, val[1], tuple(val[2]) + tuple(args), tuple(kw.items()), s)
    if val[0] == "global" and val[1].startswith("const:"):
        lit = w.eng.const_literal(val[1][6:])
        if lit is not None and lit != val and _is_callable_term(lit):
            return call_value(w, e, lit, args, kwargs, s)
    if val[0] == "global":
        q = val[1]
        if q.startswith("func:"):
            return apply_repo(w, e, w.prog.funcs[q[5:]], None, args, kwargs, s)
        if q.startswith("class:"):
            return tables.apply_new(w, e, q[6:], args, kwargs, s)
        if q.startswith("ext:"):
            return tables.apply_ext(w, e, q[4:], args, kwargs, s)
        if q.startswith("builtin:"):
            return tables.apply_builtin(w, e, q[8:], args, kwargs, s)
    if val[0] == "attr" and isinstance(val[1], tuple) and val[1] and val[1][0] in ("nt", "obj"):
        return call_on_value(w, e, val[1], val[2], args, kwargs, s)
    if val[0] == "attr" and isinstance(val[1], tuple):
        # a bound method taken as a value earlier (sign = key.sign; sign(x)): call it on its receiver
        ts_r = s.types(val[1])
        if val[2] in tables.METHODS or (ts_r is not None and ts_r <= {"obj:argparse", "obj:logger"}):
            return call_on_value(w, e, val[1], val[2], args, kwargs, s)
    # a call through a value the analysis cannot resolve (args.func(args), table of functions)
    t = CallT("dynamic", [val] + list(args), kwargs)
    outs = []
    s1 = s.copy()
    s1.ev("call", w.site(e), "dynamic", (val,) + tuple(args), kwargs, ("raise", "Exception"))
    outs.append((s1, "raise", Exc("Exception", [w.site(e)], [("notok", t)], "dynamic", "call through an unresolved value")))
    s2 = s.copy()
    s2.ev("call", w.site(e), "dynamic", (val,) + tuple(args), kwargs, ("ok", t))
    outs.append((s2, "val", t))
    return outs


# ---------------------------------------------------------------------- repo calls
def bind_params(w, e, fi, args, kwargs, skip_first):
    names = fi.params()
    a = fi.node.args
    if skip_first and names:
        names = names[1:]
    kwonly = [x.arg for x in a.kwonlyargs]
    mp = {}
    if len(args) > len(names) and not a.vararg:
        return None, "too many positional arguments"
    for n, t in zip(names, args):
        mp[n] = t
    extra_names = []
    if a.kwarg:
        # **rest receives the surplus keyword arguments as a dict
        known = set(names) | set(kwonly)
        surplus = [(n, t) for n, t in kwargs if n not in known and n != "**"]
        mp["**" + a.kwarg.arg] = ("lit", "dict", tuple((C(n), t) for n, t in surplus), None)
        extra_names.append("**" + a.kwarg.arg)
    if a.vararg:
        # *rest receives the surplus positional arguments as a tuple
        mp["*" + a.vararg.arg] = ("lit", "tuple", tuple(args[len(names):]), None)
        extra_names.append("*" + a.vararg.arg)
    for n, t in kwargs:
        if n == "**":
            return None, "**kwargs call"
        if n in mp:
            return None, "multiple values for argument %s" % n
        if n not in names and n not in kwonly and not a.kwarg:
            return None, "unexpected keyword argument %s" % n
        if n in names or n in kwonly:
            mp[n] = t
    # defaults
    pos_defaults = a.defaults
    all_pos = fi.params()
    for i, d in enumerate(pos_defaults):
        pname = all_pos[len(all_pos) - len(pos_defaults) + i]
        if pname not in mp and pname in names:
            mp[pname] = w.eng.default_term(fi, d)
    for x, d in zip(a.kwonlyargs, a.kw_defaults):
        if x.arg not in mp and d is not None:
            mp[x.arg] = w.eng.default_term(fi, d)
    missing = [n for n in names + kwonly if n not in mp]
    if missing:
        return None, "missing argument(s) %s" % ", ".join(missing)
    return mp, names + kwonly + extra_names


PASSIVE_DECORATORS = {"classmethod", "staticmethod", "property", "abstractmethod", "abc.abstractmethod", "overload", "typing.overload", "contextmanager", "contextlib.contextmanager", "functools.wraps", "wraps", "conda.plugins.hookimpl", "hookimpl", "cached_property", "functools.cached_property"}


def active_decorators(fi):
    """decorators that replace the function by something else (repo-defined wrappers), innermost last"""
    out = []
    for d in fi.node.decorator_list:
        node = d.func if isinstance(d, ast.Call) else d
        if ast.unparse(node) in PASSIVE_DECORATORS:
            continue
        out.append(d)
    return out


def decorated_value(w, fi):
    """the callable a decorated function's name is bound to: decorators applied innermost first to
    the raw function; None if a decorator cannot be evaluated statically"""
    cache = w.eng.__dict__.setdefault("_decorated", {})
    if fi.qualname in cache:
        return cache[fi.qualname]
    cache[fi.qualname] = None
    val = ("rawfunc", fi.qualname)
    for d in reversed(active_decorators(fi)):
        dval = w.eng.static_term(fi.mod, d)
        if dval is None or not _is_callable_term(dval):
            return None
        probe = ast.Call(func=ast.Name(id="$dec", ctx=ast.Load()), args=[], keywords=[])
        ast.copy_location(probe, d)
        ast.fix_missing_locations(probe)
        from .walker import State, Walker
        from .engine import _PseudoFunc

        w0 = Walker(w.eng, _PseudoFunc(fi.mod))
        outs = call_value(w0, probe, dval, (val,), (), State())
        vals = [t for _s, k, t in outs if k == "val"]
        if len(vals) != 1 or not _is_callable_term(vals[0]):
            return None
        val = vals[0]
    cache[fi.qualname] = val
    return val


def apply_repo(w, e, fi, clsbind, args, kwargs, s, closure=None, raw=False):
    if not raw and fi.parent is None and active_decorators(fi):
        dv = decorated_value(w, fi)
        if dv is not None:
            full = tuple(args)
            if fi.cls is not None and fi.is_classmethod:
                full = (G("class:" + (clsbind or (fi.mod.short + "." + fi.cls))),) + full
            return call_value(w, e, dv, full, kwargs, s)
    if raw and fi.cls is not None and fi.is_classmethod and args and isinstance(args[0], tuple) and len(args[0]) == 2 and args[0][0] == "global" and args[0][1].startswith("class:"):
        clsbind, args = args[0][1][6:], tuple(args[1:])
    is_method = fi.cls is not None and not fi.is_staticmethod
    if fi.cls is not None and not fi.is_classmethod and not fi.is_staticmethod:
        # instance method called through the class (Class.m(obj, ...)): first arg is self
        is_method = False
    if not fi.is_classmethod:
        clsbind_eff = None
    else:
        clsbind_eff = clsbind or (fi.mod.short + "." + fi.cls)
    mp, order = bind_params(w, e, fi, list(args), kwargs, skip_first=is_method)
    outs = []
    site = w.site(e)
    callee = "repo:" + fi.qualname + ("[" + clsbind_eff.split(".")[-1] + "]" if clsbind_eff else "")
    if mp is None:
        s1 = s.copy()
        s1.ev("call", site, callee, tuple(args), kwargs, ("raise", "TypeError"))
        outs.append((s1, "raise", Exc("TypeError", [site], (), "implicit", "call does not match signature: " + order)))
        return outs
    if fi.parent is not None:
        # free variables of a nested function / lambda: the current bindings when it is called in
        # the frame that created it (late binding), else the snapshot taken at creation
        same_frame = w.fi is fi.parent or getattr(w.fi, "qualname", None) == fi.parent.qualname
        # ... or a sibling: both are nested in the same function and see the same variables of it
        if not same_frame and getattr(w.fi, "parent", None) is not None and w.fi.parent.qualname == fi.parent.qualname:
            same_frame = True
        caps = dict(closure[2]) if closure is not None and len(closure) > 2 else {}
        order = list(order)
        for nm in fi.free_vars():
            if same_frame and nm in s.env:
                mp[nm] = s.env[nm]
            elif nm in caps:
                mp[nm] = caps[nm]
            else:
                mp[nm] = Fresh("free_" + nm)
            order.append(nm)
    argterms = tuple(mp[n] for n in order)
    if fi.is_generator:
        # calling a generator function runs nothing: its body is walked where the generator is
        # consumed (for loop, comprehension, dict()/list()/next(), yield from)
        s1 = s.copy()
        s1.ev("gen-create", site, callee, argterms)
        return [(s1, "val", ("gen", fi.qualname, tuple((n, mp[n]) for n in order)))]
    # a callee that receives a function / class object (a higher-order helper such as
    # _passes(check, value)) is analysed specialised on that argument, so that the call through
    # the parameter resolves
    will_inline = raw or fi.parent is not None or getattr(fi, "is_lambda", False) or fi.qualname in w.inline or (w.inline and fi.qualname.split(".")[-1].startswith("_") and fi.mod.short == w.fi.mod.short and "@private" in w.inline)
    # ... and a private helper that is analysed in place is also specialised on constant string
    # arguments (message templates, field names), so that e.g. template.format(x) is decided
    funargs = tuple(sorted(((n, mp[n]) for n in order if _is_callable_term(mp[n]) or (will_inline and is_const(mp[n]) and isinstance(mp[n][2], str)) or (will_inline and n.startswith("*") and mp[n][0] == "lit")), key=lambda kv: kv[0]))
    heap0 = s.env.get("$heap")
    if heap0:
        extra = []
        for n in order:
            v = mp[n]
            if isinstance(v, tuple) and len(v) == 3 and v[0] == "obj" and not any(n == fn_ for fn_, _t in funargs):
                for (o, a), hv in heap0.items():
                    if o == v and _is_callable_term(hv) and not (isinstance(hv, tuple) and hv[0] == "obj"):
                        extra.append(("%s.%s" % (n, a), hv))
        if extra:
            funargs = tuple(sorted(funargs + tuple(extra), key=lambda kv: kv[0]))
    back = {}
    if funargs:
        # parameters of the *caller* that occur inside such an argument (captured variables of a
        # closure, arguments of a generator) must not be confused with the callee's own parameters
        ren = {}
        for _n, v in funargs:
            for nm in _param_names(v):
                ren[P(nm)] = P("^" + nm)
        if ren:
            funargs = tuple((n, subst(v, ren)) for n, v in funargs)
            back = {v: k for k, v in ren.items()}
    if funargs:
        callee = callee + "<" + ",".join("%s=%s" % (n, t[1] if isinstance(t[1], str) and t[0] != "const" else "%s#%x" % (t[0], hash(t) & 0xFFFFFF)) for n, t in funargs) + ">"
    callterm = CallT(callee, argterms)
    w.eng.callee_index[callee] = (fi, clsbind_eff, tuple(order))
    mode = "inline" if (raw or fi.parent is not None or getattr(fi, "is_lambda", False) or fi.qualname in w.inline or callee in w.inline or (w.inline and fi.qualname.split(".")[-1].startswith("_") and fi.mod.short == w.fi.mod.short and "@private" in w.inline)) else "grouped"
    sm = w.eng.summary(fi, clsbind_eff, w.inline if mode == "inline" else frozenset(), funargs, raw=True)
    pmap = {P(n): mp[n] for n in order}
    pmap.update(back)
    # attributes of tracked objects passed in: the callee's P(self).attr denotes the current value
    heap = s.env.get("$heap")
    if heap:
        for n in order:
            v = mp[n]
            if isinstance(v, tuple) and len(v) == 3 and v[0] == "obj":
                for (o, a), hv in heap.items():
                    if o == v:
                        pmap[("attr", P(n), a)] = hv
    if sm is None and _structural_recursion(fi):
        # a function that calls itself on the items of its argument only (a traversal of plain
        # nested data): the inner call is one more application of the same function - its effects
        # are those of the outer one, which is analysed; its value is the call term
        s2 = s.copy()
        s2.add(("ok", callterm))
        s2.ev("call", site, callee, argterms, (), ("ok", callterm))
        return [(s2, "val", callterm)]
    if sm is None:
        # recursive call (see Engine.summary): opaque
        s1 = s.copy()
        s1.ev("call", site, callee, argterms, (), ("raise", "Exception"))
        s1.ev("unknown-call", site, callee)
        outs.append((s1, "raise", Exc("Exception", [site], [("notok", callterm)], "unknown-callable", "recursive call of %s (not summarised)" % fi.qualname)))
        s2 = s.copy()
        s2.ev("unknown-call", site, callee)
        s2.ev("call", site, callee, argterms, (), ("ok", callterm))
        outs.append((s2, "val", callterm))
        return outs

    # already decided on this path (pure re-evaluation)
    for cv in (True, False):
        if s.holds(("ret", callterm, cv)):
            s1 = s.copy()
            s1.ev("call", site, callee, argterms, (), ("ok", C(cv)), "repeat")
            return [(s1, "val", C(cv))]

    if mode == "inline":
        for p in sm.paths:
            conds = sm.path_conds[id(p)]
            if p.kind == "raise":
                conds = conds | p.value.conds
                if s.holds(("ok", callterm)):
                    continue
            sconds = [subst(_retag(c, ("@", site[1], site[2])), pmap) for c in conds]
            if any(s.contradicts(c) for c in sconds):
                continue
            s1 = s.copy()
            tag0 = ("@", site[1], site[2])
            for c in sm.path_facts[id(p)]:
                s1.add(subst(_retag(c, tag0), pmap))
            # the path's own facts together with what the caller knows (e.g. a membership the callee
            # tested, instantiating a forall fact of the caller) may refute one of its conditions
            if any(s1.contradicts(c) for c in sconds):
                continue
            # displays created by the callee are new objects on every call: their identity is
            # extended by the call site, so that two calls do not appear to return the same object
            tag = ("@", site[1], site[2])
            evs_sub = subst(_retag(p.events, tag), pmap)
            s1.ev("inlined", site, callee, evs_sub)
            _replay_heap(s1, evs_sub)
            if p.kind == "raise":
                x = p.value
                s1.add(("notok", callterm))
                s1.ev("call", site, callee, argterms, (), ("raise", x.exc))
                keep = [c2 for c2 in (subst(c, pmap) for c in conds) if is_param_rooted(c2)]
                outs.append((s1, "raise", Exc(x.exc, (site,) + x.chain, [("notok", callterm)] + keep, x.origin, x.why)))
            else:
                v = subst(_retag(p.value, tag), pmap) if is_param_rooted(p.value) else callterm
                s1.add(("ok", callterm))
                if is_const(v) and isinstance(v[2], bool):
                    s1.add(("ret", callterm, v[2]))
                rt = p.state.types(p.value)
                if rt is not None and not is_const(v):
                    s1.add(("type", v, rt))
                s1.ev("call", site, callee, argterms, (), ("ok", v))
                outs.append((s1, "val", v))
        return outs

    # grouped mode
    if not s.holds(("ok", callterm)):
        seen = set()
        for x, conds in sm.escapes:
            allc = [subst(c, pmap) for c in conds]
            if any(s.contradicts(c) for c in allc):
                continue
            key = (x.exc, x.chain)
            if key in seen:
                continue
            seen.add(key)
            s1 = s.copy()
            s1.add(("notok", callterm))
            s1.ev("call", site, callee, argterms, (), ("raise", x.exc))
            outs.append((s1, "raise", Exc(x.exc, (site,) + x.chain, [("notok", callterm)] + [c for c in allc if is_param_rooted(c)], x.origin, x.why)))
    gtag = ("@", site[1], site[2])
    for rk, g in sm.groups.items():
        facts = [subst(_retag(f, gtag), pmap) for f in g["facts"]]
        if any(s.contradicts(f) for f in facts if f[0] != "imp"):
            continue
        s1 = s.copy()
        s1.add(*facts)
        s1.add(("ok", callterm))
        if rk in (True, False):
            v = C(rk)
            s1.add(("ret", callterm, rk))
        elif isinstance(rk, tuple) and rk[0] == "param":
            v = mp[rk[1]]
        elif g["value"] is not None:
            v = subst(_retag(g["value"], gtag), pmap)
        else:
            v = callterm
        if g["rettype"] is not None and not is_const(v):
            s1.add(("type", v, g["rettype"]))
        for f in g["retfacts"]:
            s1.add(subst(_retag(f, gtag), {**pmap, ("RET",): v}))
        s1.ev("call", site, callee, argterms, (), ("ok", v))
        outs.append((s1, "val", v))
    return outs


def _retag(t, tag, _argside=None):
    """extend the identity (site) of every display created inside a callee by the call site"""
    tt = type(t)
    if tt is tuple:
        if len(t) == 4 and t[0] == "lit" and t[3] is not None and isinstance(t[3], tuple) and t[1] in ("dict", "list", "set"):
            items = tuple(_retag(x, tag) for x in t[2])
            return ("lit", t[1], items, tuple(t[3]) + tag + ("@cs",))
        changed = False
        out = []
        for x in t:
            tx = type(x)
            if tx is tuple or tx is frozenset:
                y = _retag(x, tag)
                if y is not x:
                    changed = True
                out.append(y)
            else:
                out.append(x)
        return tuple(out) if changed else t
    if tt is frozenset:
        out = frozenset(_retag(x, tag) for x in t)
        return t if out == t else out
    return t


def _replay_heap(s, events):
    """attribute stores on tracked objects made inside an inlined callee update the caller's heap"""
    from .walker import flatten_events, heap_store

    for ev, _d in flatten_events(events):
        if ev[0] == "store" and isinstance(ev[2], tuple) and len(ev[2]) == 3 and ev[2][0] == "attr":
            o = ev[2][1]
            if isinstance(o, tuple) and len(o) == 3 and o[0] == "obj":
                heap_store(s, o, ev[2][2], ev[3])


def _param_names(t):
    out = set()
    if isinstance(t, tuple):
        if len(t) == 2 and t[0] == "param" and isinstance(t[1], str):
            out.add(t[1])
        else:
            for x in t:
                if isinstance(x, (tuple, frozenset)):
                    out |= _param_names(x)
    elif isinstance(t, frozenset):
        for x in t:
            out |= _param_names(x)
    return out


def _str_identity(p):
    """str(x) is x when x is a str: on a path that establishes type(x) == str, what was learnt
    about the rendering str(x) (taken before the type test, for error messages) is knowledge
    about x itself"""
    facts = p.state.facts
    cands = set()
    for f in facts:
        for t in _str_calls(f):
            cands.add(t)
    if not cands:
        return
    mp = {}
    for t in cands:
        ts = p.state.types(t[2][0])
        if ts is not None and ts <= {"str"}:
            mp[t] = t[2][0]
    if not mp:
        return
    p.state.facts = set(subst(f, mp) for f in facts)
    p.state._cl = None
    if p.kind == "return":
        p.value = subst(p.value, mp)


def _str_calls(t):
    if isinstance(t, tuple):
        if len(t) == 4 and t[0] == "call" and t[1] == "builtin:str" and len(t[2]) == 1 and not t[3] and isinstance(t[2][0], tuple) and t[2][0] and t[2][0][0] in ("param", "sub"):
            yield t
        for x in t:
            if isinstance(x, (tuple, frozenset)):
                yield from _str_calls(x)
    elif isinstance(t, frozenset):
        for x in t:
            yield from _str_calls(x)


def _structural_recursion(fi):
    """every call of the function to itself passes, as its only argument, an item of the
    function's own (single) parameter: a loop / comprehension variable ranging over the parameter
    (or its .items() / .values()), or a subscript of it"""
    cached = getattr(fi, "_structural_recursion", None)
    if cached is not None:
        return cached
    res = False
    a = fi.node.args
    params = [x.arg for x in a.posonlyargs + a.args]
    if len(params) == 1 and not a.vararg and not a.kwarg and not a.kwonlyargs and fi.cls is None and fi.parent is None:
        p0 = params[0]
        name = fi.node.name

        def over_param(it):
            if isinstance(it, ast.Name) and it.id == p0:
                return True
            return isinstance(it, ast.Call) and isinstance(it.func, ast.Attribute) and it.func.attr in ("items", "values") and isinstance(it.func.value, ast.Name) and it.func.value.id == p0 and not it.args

        item_vars = set()
        rebound = False
        for n in ast.walk(fi.node):
            if isinstance(n, ast.comprehension) and over_param(n.iter):
                item_vars |= {x.id for x in ast.walk(n.target) if isinstance(x, ast.Name)}
            elif isinstance(n, ast.For) and over_param(n.iter):
                item_vars |= {x.id for x in ast.walk(n.target) if isinstance(x, ast.Name)}
            elif isinstance(n, ast.Name) and isinstance(n.ctx, ast.Store) and n.id == p0:
                rebound = True
        calls = [n for n in ast.walk(fi.node) if isinstance(n, ast.Call) and isinstance(n.func, ast.Name) and n.func.id == name]
        ok = bool(calls) and not rebound
        for c in calls:
            if len(c.args) != 1 or c.keywords:
                ok = False
                break
            arg = c.args[0]
            if isinstance(arg, ast.Name) and arg.id in item_vars:
                continue
            if isinstance(arg, ast.Subscript) and isinstance(arg.value, ast.Name) and arg.value.id == p0:
                continue
            ok = False
            break
        res = ok
    fi._structural_recursion = res
    return res


def _is_callable_term(t):
    if not isinstance(t, tuple) or not t:
        return False
    if len(t) == 2 and t[0] == "global" and t[1].startswith(("func:", "class:", "ext:", "builtin:")):
        return True
    if t[0] == "closure" or (t[0] in ("gen", "nt", "enum") and len(t) == 3) or t[0] == "excobj" or (t[0] == "rawfunc" and len(t) == 2):
        return True
    if len(t) == 2 and t[0] == "global" and t[1].startswith("const:"):
        return True  # a module constant (a record, a table, a compiled pattern): specialise on it
    if t[0] == "lit" and len(t) == 4 and t[1] == "tuple" and t[2] and all(_is_callable_term(x) or is_const(x) for x in t[2]) and any(_is_callable_term(x) for x in t[2]):
        return True  # a tuple of classes / functions (isinstance(x, TYPES), a table row)
    if t[0] == "call" and len(t) == 4:
        from .walker import is_argparse_term

        if is_argparse_term(t):
            return True  # a parser handed to a helper that registers arguments on it
    if t[0] == "lit" and len(t) == 4 and t[1] == "dict" and t[2] and all(is_const(k) and (_is_callable_term(v) or is_const(v)) for k, v in t[2]) and any(_is_callable_term(v) for _k, v in t[2]):
        return True  # a table {name: function}
    if t[0] == "call" and len(t) == 4 and t[1] == "ext:inspect.signature" and len(t[2]) == 1 and _is_callable_term(t[2][0]):
        return True  # the signature object of a known function: its bind() is unfolded
    if t[0] == "partial" and len(t) == 4:
        return _is_callable_term(t[1]) or (isinstance(t[1], tuple) and t[1] and t[1][0] == "global")
    return False


COND_KINDS = {
    "badoperands",
    "nonstr-elements",
    "mixed-elements",
    "unhashable-elements",
    "ret",
    "has",
    "nothas",
    "truthy",
    "falsy",
    "eq",
    "ne",
    "type",
    "nottype",
    "ok",
    "notok",
    "cmp",
    "notcmp",
    "in",
    "notin",
    "keys",
    "keysin",
    "notkeys",
    "notkeysin",
    "is",
    "isnot",
    "nonempty",
    "integral",
    "hasattr",
    "nohasattr",
}


def build_summary(eng, fi, clsbind, inline=frozenset(), funargs=()):
    from .walker import Summary, Walker

    # private helpers of the function's own module are always inlined path by path: a public
    # function and the helpers it was split into are analysed as one unit
    inline = frozenset(inline) | (eng.private_helpers(fi.mod.short) - {fi.qualname}) | (eng.internal_helpers() - {fi.qualname})
    w = Walker(eng, fi, clsbind, inline)
    w.funargs = dict(funargs)
    paths = w.run()
    for p_ in paths:
        _str_identity(p_)
    sm = Summary(fi, clsbind)
    sm.paths = paths
    sm.params = fi.params()
    sm.path_conds = {}
    sm.path_facts = {}
    normal = {}
    for p in paths:
        rooted = frozenset(f for f in p.facts if is_param_rooted(f))
        conds = frozenset(f for f in rooted if f[0] in COND_KINDS)
        sm.path_conds[id(p)] = conds
        sm.path_facts[id(p)] = rooted
        if p.kind == "raise":
            sm.escapes.append((p.value, conds | p.value.conds))
        else:
            v = p.value
            if is_const(v) and isinstance(v[2], bool):
                rk = v[2]
            elif v[0] == "param":
                rk = ("param", v[1])
            elif is_const(v) and v[2] is None:
                rk = "none"
            else:
                rk = "other"
            normal.setdefault(rk, []).append(p)
    for rk, ps in normal.items():
        facts = merge_facts([frozenset(f for f in p.facts if is_param_rooted(f) and f[0] != "imp") for p in ps])
        vals = {p.value for p in ps}
        value = None
        if rk == "other" and len(vals) == 1:
            v = next(iter(vals))
            if is_param_rooted(v):
                value = v
        rts = [p.state.types(p.value) for p in ps]
        rettype = None
        if all(t is not None for t in rts):
            rettype = frozenset().union(*rts)
        # facts about the returned value itself (e.g. has(RET, k) for a returned display)
        retfacts = frozenset()
        if rk == "other":
            per = []
            for p in ps:
                per.append(frozenset(subst(f, {p.value: ("RET",)}) for f in p.facts if _mentions_term(f, p.value) and f[0] in ("has", "type", "keys")))
            retfacts = frozenset.intersection(*per) if per else frozenset()
            retfacts = frozenset(f for f in retfacts if is_param_rooted(f))
        # conditional postconditions  L => F
        imps = set()
        fsets = [frozenset(f for f in p.facts if is_param_rooted(f)) for p in ps]
        lits = set()
        for fs in fsets:
            for f in fs:
                if f[0] in ("eq", "has") and _neg(f) is not None:
                    lits.add(f)
        for L in lits:
            negL = _neg(L)
            sel = [fs for fs in fsets if negL not in fs]
            if not sel or len(sel) == len(fsets):
                continue
            common = merge_facts(sel)
            for f in common - facts:
                if f != L and f[0] in ("has", "ok", "type", "eq", "ret", "cmp", "integral", "truthy", "falsy", "keys", "keysin", "in", "forall"):
                    imps.add(("imp", L, f))
        # conditional postconditions the paths took over from their own callees (a checker that
        # hands the whole job to another one) hold when they hold on every path
        carried = [frozenset(f for f in p.facts if f[0] == "imp" and is_param_rooted(f)) for p in ps]
        if carried:
            imps |= frozenset.intersection(*carried)
        sm.groups[rk] = {"facts": facts | imps, "value": value, "rettype": rettype, "retfacts": retfacts, "n": len(ps)}
    sm.npaths = len(paths)
    return sm


def _neg(f):
    if f[0] == "eq":
        return ("ne", f[1], f[2])
    if f[0] == "has":
        return ("nothas", f[1], f[2])
    return None


def _mentions_term(f, t):
    if f == t:
        return True
    if isinstance(f, (tuple, frozenset)):
        return any(_mentions_term(x, t) for x in f)
    return False
