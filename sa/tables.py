"""E4 - may-raise / effect / result tables for builtins, external callables and methods.

This table is the trusted artefact of the analysis (assumption A1): one row per
primitive the repository uses (plus the obvious alternatives a refactoring would use),
each with the exception classes it may raise as a function of operand type facts, the
facts a normal return establishes, and whether it is pure.  A callable that has no row is
an ANALYSIS-ERROR naming the call site - never a silent pass.
"""
from __future__ import annotations

import ast

from . import AnalysisError
from .compare import HASHABLE, type_names_of
from .terms import is_param_rooted, C, CallT, Elem, Fresh, G, Sub, is_call, is_const, is_lit, string_leaves
from .walker import CONTAINERS, JSON_TYPES, NUM, Exc, _ATTRS

ED_PUB = "obj:cryptography.hazmat.primitives.asymmetric.ed25519.Ed25519PublicKey"
ED_PRIV = "obj:cryptography.hazmat.primitives.asymmetric.ed25519.Ed25519PrivateKey"
BYTESLIKE = frozenset(["bytes", "bytearray", "memoryview"])
SIZED = frozenset(["dict", "list", "tuple", "str", "set", "bytes", "frozenset", "bytearray"])
ALL_BUILTIN = frozenset(_ATTRS) | {"bytearray"}


class Ctx:
    def __init__(self, w, e, callee, args, kwargs, s, recv=None):
        self.w, self.e, self.callee, self.s = w, e, callee, s
        self.args, self.kwargs = list(args), tuple(kwargs)
        self.recv = recv
        allargs = ([recv] if recv is not None else []) + list(args)
        self.term = CallT(callee, allargs, kwargs)
        self.site = w.site(e)
        self.outs = []
        self.known_ok = s.holds(("ok", self.term))

    def arg(self, i, name=None, default=None):
        if i is not None and i < len(self.args):
            return self.args[i]
        for n, v in self.kwargs:
            if n == name:
                return v
        return default

    def types(self, t):
        return self.s.types(t)

    def rz(self, exc, why, conds=(), pure=True, origin="implicit"):
        if pure and self.known_ok:
            return
        s1 = self.s.copy()
        cs = set(conds)
        if pure:
            cs.add(("notok", self.term))
            s1.add(("notok", self.term))
        s1.ev("call", self.site, self.callee, self._allargs(), self.kwargs, ("raise", exc))
        self.outs.append((s1, "raise", Exc(exc, [self.site], cs, origin, why)))

    def _allargs(self):
        return tuple(([self.recv] if self.recv is not None else []) + self.args)

    def ret(self, t=None, *facts, pure=True, state=None, extra_event=None):
        s1 = (state or self.s).copy()
        if t is None:
            t = self.term
        s1.add(*facts)
        if pure:
            s1.add(("ok", self.term))
        if extra_event:
            s1.ev(*extra_event)
        s1.ev("call", self.site, self.callee, self._allargs(), self.kwargs, ("ok", t))
        self.outs.append((s1, "val", t))

    def need_type(self, t, allowed, exc, why):
        """raise `exc` unless t's type is known to lie in `allowed`"""
        ts = self.types(t)
        if ts is None or not ts <= allowed:
            self.rz(exc, why, [("nottype", t, frozenset(allowed))])
            return False
        return True


def unknown_callable(c, what):
    """A callable without a table row: the analysis knows neither its result nor its effects.
    It is recorded (eng.unknown_calls) and treated as opaque - result = its call term, may raise
    anything, impure.  A run that meets such a call reports its definite violations, and exits 2
    (no verdict) if it found none."""
    c.w.eng.unknown_calls.setdefault((c.callee, c.site.loc()), "%s at %s" % (what, c.site))
    s1 = c.s.copy()
    s1.ev("unknown-call", c.site, c.callee)
    c.rz("Exception", "call of %s, which has no row in the may-raise table" % what, pure=False, origin="unknown-callable")
    c.ret(None, pure=False, state=s1)
    return c.outs


# ====================================================================== builtins
BUILTINS = {}


def builtin(*names):
    def deco(fn):
        for n in names:
            BUILTINS[n] = fn
        return fn

    return deco


def expand_isinstance_names(w, names):
    out = set()
    for n in names:
        out.add(n)
        if n == "int":
            out.add("bool")  # bool is a subclass of int
        if n.startswith("obj:"):
            q = n[4:]
            for cq, _c in w.prog.classes.items():
                for e in w.prog.mro(cq):
                    if (e[0] == "ext" and e[1] == q) or (e[0] == "repo" and e[1] == q):
                        out.add("obj:" + cq)
    return frozenset(out)


def elements_type(s, x):
    """type set of every element of container x, from a forall fact, else None"""
    if isinstance(x, tuple) and len(x) == 5 and x[0] == "comp" and isinstance(x[3], tuple) and x[3][:1] == ("elem",):
        base = x[3][1]
        if x[3] == Elem(base, x[4]):
            return elements_type(s, base)  # [e for e in base]: same elements
    # the same elements in another container or order
    if is_call(x, ("builtin:sorted", "builtin:list", "builtin:tuple", "builtin:reversed", "builtin:set", "builtin:frozenset", "builtin:iter")) and len(x[2]) == 1:
        return elements_type(s, x[2][0])
    if is_call(x, "method:keys") and len(x[2]) == 1:
        return elements_type(s, x[2][0])  # (iterating a dict gives its keys)
    if isinstance(x, tuple) and len(x) == 2 and x[0] == "global" and x[1].startswith("const:"):
        try:
            from rules.hexlang import current

            w_ = current()
        except ImportError:
            w_ = None
        lit0 = w_.eng.const_literal(x[1][6:]) if w_ is not None else None
        if lit0 is not None and is_lit(lit0) and lit0[1] in ("list", "tuple", "set") and not w_.eng.is_rebound(*x[1][6:].rsplit(".", 1)):
            ts0 = [s.types(i) for i in lit0[2]]
            if all(t is not None for t in ts0):
                return frozenset().union(*ts0) if ts0 else frozenset()
    if isinstance(x, tuple) and len(x) == 5 and x[0] == "comp" and x[1] in ("list", "gen", "set") and isinstance(x[3], tuple):
        elt = x[3]
        if is_call(elt, ("builtin:str", "builtin:repr", "builtin:ascii", "builtin:format", "method:format", "method:join", "method:hex")) or (elt and elt[0] == "fstr") or (len(elt) == 3 and elt[0] == "attr" and elt[2] in ("__name__", "__qualname__", "__module__")):
            return frozenset(["str"])  # [ascii(v) for v in ...]: every element is a str
        te = s.types(elt)
        if te is not None and is_const(elt):
            return te
    for f in s.closure():
        if f[0] == "forall" and f[1] == x:
            el = Elem(f[1], f[2])
            for g in f[3]:
                if g[0] == "type" and g[1] == el:
                    return g[2]
    if is_lit(x) and x[1] != "dict":
        ts = [s.types(i) for i in x[2]]
        if all(t is not None for t in ts):
            return frozenset().union(*ts) if ts else frozenset()
    if is_lit(x) and x[1] == "dict" and not x[2]:
        return _stored_key_types(s, x)
    return None


def _stored_key_types(s, x):
    """x is a dict display `{}` created in this frame: the types of the keys its iteration yields
    are those of the keys stored into it so far (item stores on the path and in the bodies of the
    loops already run); any other way of filling it (update, setdefault, a callee) -> None"""
    out = set()

    def scan(events, facts):
        for ev in events:
            k = ev[0]
            if k == "loop":
                for bp in ev[4]:
                    if not scan(bp[2], facts + [bp[1]]):
                        return False
            elif k == "store" and isinstance(ev[2], tuple) and len(ev[2]) == 3 and ev[2][0] == "sub" and ev[2][1] == x:
                s2 = s.copy()
                for fs in facts:
                    for f in fs:
                        s2.add(f)
                ts = s2.types(ev[2][2])
                if ts is None:
                    return False
                out.update(ts)
            elif k == "mutcall" and ev[2] == x:
                if ev[3] not in ("pop", "clear", "popitem"):
                    return False
            elif k in ("call", "inlined", "enter") and any(isinstance(a, tuple) and a == x for a in (ev[3] if len(ev) > 3 and isinstance(ev[3], tuple) else ())):
                if k == "call" and isinstance(ev[2], str) and ev[2].startswith(("builtin:", "method:", "ext:")):
                    continue  # builtins that take the dict read it (len, join, sorted, ...)
                return False
        return True

    if not scan(s.events, []):
        return None
    return frozenset(out)


@builtin("isinstance")
def b_isinstance(c):
    x, T = c.args[0], c.args[1]
    names = type_names_of(c.w, T)
    if names is None:
        c.ret(C(True), pure=False)
        c.ret(C(False), pure=False)
        return
    names = expand_isinstance_names(c.w, names)
    ts = c.types(x)
    if ts is not None and ts <= names:
        c.ret(C(True), pure=False)
        return
    if ts is not None and not (ts & names) and not any(n.startswith("obj:") for n in ts | names):
        c.ret(C(False), pure=False)
        return
    if not c.s.contradicts(("type", x, names)):
        c.ret(C(True), ("type", x, names), pure=False)
    if not c.s.contradicts(("nottype", x, names)):
        c.ret(C(False), ("nottype", x, names), pure=False)


@builtin("issubclass", "callable")
def b_issubclass(c):
    c.ret(C(True), pure=False)
    c.ret(C(False), pure=False)


@builtin("hasattr")
def b_hasattr(c):
    x, n = c.args[0], c.args[1]
    ts = c.types(x)
    if is_const(n) and ts is not None and all(t in _ATTRS for t in ts):
        has = [n[2] in _ATTRS[t] for t in ts]
        if all(has):
            c.ret(C(True), pure=False)
            return
        if not any(has):
            c.ret(C(False), pure=False)
            return
    if is_const(n) and ts is not None and ts <= {ED_PUB, ED_PRIV} | {t for t in ts if t.startswith("obj:common.")}:
        # key objects have no bytes-like decode(); other attributes: unknown
        if n[2] == "decode":
            c.ret(C(False), pure=False)
            return
    nm = n[2] if is_const(n) else None
    if not c.s.holds(("nohasattr", x, nm)):
        c.ret(C(True), ("hasattr", x, nm), pure=False)
    if not c.s.holds(("hasattr", x, nm)):
        c.ret(C(False), ("nohasattr", x, nm), pure=False)


@builtin("len")
def b_len(c):
    x = c.args[0]
    if isinstance(x, tuple) and len(x) == 3 and x[0] in ("obj", "nt"):
        if x[0] == "nt":
            c.ret(C(len(x[2])))
            return
        m = c.w.prog.find_method(x[1], "__len__")
        if m is not None and m[0] == "repo":
            from .calls import apply_repo

            c.outs.extend(apply_repo(c.w, c.e, m[1], None, (x,), (), c.s))
            return
    c.need_type(x, SIZED, "TypeError", "len() of a value that may not be sized")
    facts = []
    c.ret(None, *facts)


@builtin("str", "repr", "ascii", "format")
def b_str(c):
    # A3: no adversarial __str__/__repr__; str(x) of a builtin value never raises
    if not c.args:
        c.ret(C(""))
        return
    if c.callee == "builtin:str" and len(c.args) > 1:
        c.rz("UnicodeDecodeError", "str(bytes, encoding) may fail to decode")
        c.rz("TypeError", "str(bytes, encoding) on a non-bytes value", [("nottype", c.args[0], BYTESLIKE)])
    c.ret(None, ("type", c.term, frozenset(["str"])))


@builtin("type")
def b_type(c):
    if len(c.args) == 1 and is_const(c.args[0]) and c.args[0][2] is None:
        c.ret(G("builtin:NoneType"), pure=False)
        return
    if len(c.args) == 1 and isinstance(c.args[0], tuple) and c.args[0] and c.args[0][0] == "excobj":
        # type(err) of a caught exception: its class (raise type(err)(msg) re-raises the same class)
        name = c.args[0][1]
        cq = [q for q in c.w.prog.classes if q.split(".")[-1] == name]
        c.ret(G("class:" + cq[0]) if len(cq) == 1 else G("builtin:" + name), pure=False)
        return
    c.ret(None, pure=False)


@builtin("set", "frozenset")
def b_set(c):
    if not c.args:
        c.ret(("lit", "set", (), c.site[:3]), pure=False)
        return
    x = c.args[0]
    ok = c.need_type(x, CONTAINERS | {"generator"}, "TypeError", "set() of a value that may not be iterable")
    ts = c.types(x)
    if ok and not (ts <= {"dict", "str", "set", "frozenset", "bytes"}):
        et = elements_type(c.s, x)
        if et is None or not et <= HASHABLE:
            c.rz("TypeError", "set() of elements that may be unhashable", [("unhashable-elements", x)])
    c.ret()


@builtin("list", "tuple", "sorted", "reversed", "enumerate", "iter")
def b_list(c):
    if not c.args:
        kind = c.callee.split(":")[1]
        c.ret(("lit", kind if kind in ("list", "tuple") else "list", (), c.site[:3]), pure=False)
        return
    x = c.args[0]
    if c.callee in ("builtin:list", "builtin:tuple") and len(c.args) == 1 and not c.kwargs and isinstance(x, tuple) and len(x) == 2 and x[0] == "global" and x[1].startswith("const:"):
        # list(CONSTANT) with a module-level list / tuple display (never stored into: C12-R2): a
        # fresh display of its items
        lit0 = c.w.eng.const_literal(x[1][6:])
        if lit0 is not None and is_lit(lit0) and lit0[1] in ("list", "tuple") and all(is_const(i) for i in lit0[2]):
            c.ret(("lit", c.callee[8:], lit0[2], c.site[:3] if c.callee == "builtin:list" else None), pure=False)
            return
    if c.callee in ("builtin:list", "builtin:tuple") and len(c.args) == 1 and not c.kwargs and is_lit(x) and x[1] in ("list", "tuple"):
        from .walker import _deep_events, _root_term

        if x[1] == "tuple" or not any(ev[0] in ("store", "del", "mutcall") and _root_term(ev[2]) == x for ev in _deep_events(c.s.events)):
            # tuple([a, b]) / list((a, b)): a display of the same items
            c.ret(("lit", c.callee[8:], x[2], c.site[:3] if c.callee == "builtin:list" else None), pure=False)
            return
    inner_ok = is_call(x, ("method:keys", "method:values", "method:items"))
    xt = c.types(x)
    if c.callee in ("builtin:list", "builtin:tuple", "builtin:iter", "builtin:enumerate") and xt is not None and xt and xt <= {"set", "frozenset"}:
        # the order in which a set hands out (str) elements depends on the process's hash seed
        c.s = c.s.copy()
        c.s.ev("ambient", c.site, "ext:PYTHONHASHSEED (set iteration order)")
    if not inner_ok:
        c.need_type(x, CONTAINERS | {"generator"}, "TypeError", "%s() of a value that may not be iterable" % c.callee[8:])
    if c.callee in ("builtin:list", "builtin:tuple", "builtin:sorted"):
        c.s = c.s.copy()
        c.w.exhaust(x, c.s)
    if c.callee == "builtin:sorted":
        src = x[2][0] if inner_ok else x
        et = elements_type(c.s, src)
        st = c.types(src)
        keys_are_str = False
        if (et is None or len(et) != 1) and not keys_are_str:
            c.rz("TypeError", "sorted() of elements that may not be mutually comparable", [("mixed-elements", x)])
    c.ret()


@builtin("dict")
def b_dict(c):
    if not c.args:
        items = tuple((C(n), v) for n, v in c.kwargs)
        c.ret(("lit", "dict", items, c.site[:3]), pure=False)
        return
    x = c.args[0]
    if x[0] == "global" and x[1].startswith("const:"):
        x = c.w.eng.const_literal(x[1][6:]) or x
    if is_lit(x) and x[1] in ("tuple", "list") and all(is_lit(p) and p[1] in ("tuple", "list") and len(p[2]) == 2 for p in x[2]):
        # dict(((k1, v1), (k2, v2)), **kw): the display itself
        items = tuple((p[2][0], p[2][1]) for p in x[2]) + tuple((C(n), v) for n, v in c.kwargs)
        kt = [c.types(k) for k, _v in items]
        if all(t is not None and t <= HASHABLE for t in kt):
            c.ret(("lit", "dict", items, c.site[:3]), pure=False)
            return
    c.need_type(c.args[0], frozenset(["dict", "list", "tuple"]), "TypeError", "dict() of a non-mapping")
    c.rz("ValueError", "dict() of a sequence whose items are not pairs", [("nottype", c.args[0], frozenset(["dict"]))])
    c.ret(None, pure=False)


@builtin("all", "any")
def b_all(c):
    x = c.args[0]
    if is_lit(x) and x[1] in ("list", "tuple", "set"):
        tvs = [c.s.truth_value(i) for i in x[2]]
        if all(t is not None for t in tvs):
            c.ret(C(all(tvs) if c.callee == "builtin:all" else any(tvs)), pure=False)
            return
    if x[0] != "comp":
        c.need_type(x, CONTAINERS | {"generator"}, "TypeError", "all()/any() of a value that may not be iterable")
    c.ret(None, pure=False)


@builtin("bool")
def b_bool(c):
    c.ret(None, pure=False)


@builtin("int")
def b_int(c):
    if not c.args:
        c.ret(C(0))
        return
    x = c.args[0]
    ts = c.types(x)
    conv = frozenset(["int", "float", "bool", "str", "bytes"])
    if len(c.args) > 1 or c.kwargs:
        c.rz("TypeError", "int(x, base) on a non-string", [("nottype", x, frozenset(["str", "bytes"]))])
        c.rz("ValueError", "int(x, base) on a non-numeric string")
        c.ret(None, ("type", c.term, frozenset(["int"])))
        return
    if ts is None or not ts <= conv:
        c.rz("TypeError", "int() of a value that is not a number or string", [("nottype", x, conv)])
    if ts is None or ts & {"str", "bytes", "float"}:
        c.rz("ValueError", "int() of a non-numeric string or of NaN", [("type", x, frozenset(["str", "bytes", "float"]))])
    if ts is None or "float" in ts:
        c.rz("OverflowError", "int() of an infinite float", [("type", x, frozenset(["float"]))])
    c.ret(None, ("type", c.term, frozenset(["int"])))


@builtin("float")
def b_float(c):
    if not c.args:
        c.ret(C(0.0))
        return
    x = c.args[0]
    conv = frozenset(["int", "float", "bool", "str", "bytes"])
    c.need_type(x, conv, "TypeError", "float() of a value that is not a number or string")
    ts = c.types(x)
    if ts is None or ts & {"str", "bytes"}:
        c.rz("ValueError", "float() of a non-numeric string", [("type", x, frozenset(["str", "bytes"]))])
    if ts is None or "int" in ts:
        c.rz("OverflowError", "float() of a huge int", [("type", x, frozenset(["int"]))])
    c.ret(None, ("type", c.term, frozenset(["float"])))


@builtin("bytes", "bytearray")
def b_bytes(c):
    if not c.args:
        c.ret(C(b""))
        return
    c.rz("TypeError", "bytes() of an unsupported value")
    c.rz("ValueError", "bytes() of out-of-range integers")
    c.ret()


@builtin("min", "max", "sum", "abs", "round", "divmod", "pow")
def b_arith(c):
    for a in c.args:
        ts = c.types(a)
        if ts is None or not ts <= NUM:
            c.rz("TypeError", "%s() on values that may not be numbers" % c.callee[8:], [("nottype", a, NUM)])
            break
    if c.callee in ("builtin:min", "builtin:max") and len(c.args) == 1:
        c.rz("ValueError", "min()/max() of an empty sequence")
    c.ret(None, ("type", c.term, NUM))


@builtin("range")
def b_range(c):
    for a in c.args:
        c.need_type(a, frozenset(["int", "bool"]), "TypeError", "range() of a non-integer")
    c.ret(None, ("type", c.term, frozenset(["list"])), pure=False)


@builtin("zip")
def b_zip_(c):
    c.ret(None, pure=False)


@builtin("map", "filter")
def b_zip(c):
    """map(f, xs) / filter(f, xs): evaluated like the comprehension [f(x) for x in xs] /
    [x for x in xs if f(x)] (eagerly: the analysis does not model the laziness of the iterator)"""
    import ast as _ast

    e = c.e
    if len(e.args) == 2 and not e.keywords and not any(isinstance(a, _ast.Starred) for a in e.args):
        var = _ast.Name(id="$m", ctx=_ast.Load())
        call = _ast.Call(func=e.args[0], args=[var], keywords=[])
        comp = _ast.comprehension(target=_ast.Name(id="$m", ctx=_ast.Store()), iter=e.args[1], ifs=[] if c.callee.endswith("map") else [call], is_async=0)
        # (a generator expression: map/filter objects are one-shot iterators, not lists)
        lc = _ast.GeneratorExp(elt=call if c.callee.endswith("map") else var, generators=[comp])
        for x in _ast.walk(lc):
            if not hasattr(x, "lineno"):
                _ast.copy_location(x, e)
        _ast.fix_missing_locations(lc)
        res = list(c.w.expr(lc, c.s))
        vals = [p2 for _s2, k2, p2 in res if k2 == "val"]
        for s2, k2, p2 in res:
            s2.env.pop("$m", None)
            if k2 == "raise" and getattr(p2, "exc", None) == "StopIteration":
                # a StopIteration coming out of the function handed to map()/filter() is taken by
                # whoever consumes the iterator for the end of the data: the iteration stops there,
                # silently (PEP 479 protects generator bodies only)
                s3 = s2.copy()
                s3.ev("iteration-cut-short", c.site, c.callee, p2.chain, p2.why)
                c.outs.append((s3, "val", vals[0] if vals else Fresh(c.callee[8:])))
                continue
            c.outs.append((s2, k2, p2))
        return
    c.ret(Fresh(c.callee[8:]), pure=False)


@builtin("object")
def b_object(c):
    """object(): a fresh object unlike every other value (sentinels): identified by where it is made"""
    if c.args or c.kwargs:
        c.rz("TypeError", "object() takes no arguments")
        return
    c.ret(("lit", "object", (), c.site[:3]), pure=False)


@builtin("id", "hash")
def b_id(c):
    if c.callee == "builtin:hash":
        c.need_type(c.args[0], HASHABLE, "TypeError", "hash() of an unhashable value")
    c.ret(None, ("type", c.term, frozenset(["int"])), pure=False, extra_event=("ambient", c.site, c.callee))


@builtin("ord", "chr")
def b_ord(c):
    c.rz("TypeError", c.callee[8:] + "() of a wrong type")
    c.rz("ValueError", c.callee[8:] + "() out of range")
    c.ret()


@builtin("getattr")
def b_getattr(c):
    x, n = c.args[0], c.args[1]
    if is_const(n) and isinstance(n[2], str) and n[2].isidentifier() and isinstance(x, tuple) and x and ((x[0] in ("nt", "obj", "enum") and len(x) == 3) or (x[0] == "global" and len(x) == 2 and x[1].startswith(("ext:", "module:", "class:")))) and len(c.args) < 3:
        # getattr(record, "field") with a constant name: the attribute access itself
        import ast as _ast

        node = _ast.Attribute(value=_ast.Name(id="$gobj", ctx=_ast.Load()), attr=n[2], ctx=_ast.Load())
        for y in _ast.walk(node):
            _ast.copy_location(y, c.e)
        s = c.s.copy()
        s.env = dict(s.env)
        s.env["$gobj"] = x
        for s2, k2, p2 in c.w.expr(node, s):
            s2.env.pop("$gobj", None)
            c.outs.append((s2, k2, p2))
        return
    if len(c.args) < 3:
        c.rz("AttributeError", "getattr() of an attribute that may be missing", [("nohasattr", x, n[2] if is_const(n) else None)])
    c.ret(("attr", x, n[2]) if is_const(n) else Fresh("getattr"), pure=False)


@builtin("setattr")
def b_setattr(c):
    x, n, v = c.args[0], c.args[1], c.args[2]
    s1 = c.s.copy()
    s1.ev("store", c.site, ("attr", x, n[2] if is_const(n) else "*"), v)
    c.ret(C(None), pure=False, state=s1)


@builtin("delattr")
def b_delattr(c):
    s1 = c.s.copy()
    s1.ev("del", c.site, ("attr", c.args[0], "*"))
    c.ret(C(None), pure=False, state=s1)


def ascii_safe_leaf(c, leaf):
    """is this string-building leaf guaranteed to be encodable on any stdout (pure ASCII)?"""
    s = c.s
    if isinstance(leaf, tuple) and leaf and leaf[0] == "fmt":
        return ascii_safe_leaf(c, leaf[2])
    if is_const(leaf):
        v = leaf[2]
        if isinstance(v, str):
            return v.isascii()
        return isinstance(v, (int, float, bool, type(None), bytes))
    if is_call(leaf, ("builtin:ascii",)):
        return True
    if is_call(leaf, ("builtin:str", "builtin:repr", "builtin:format")) and leaf[2]:
        inner = leaf[2][0]
        if is_call(leaf, "builtin:repr"):
            ts = s.types(inner)
            return ts is not None and ts <= (NUM | {"NoneType", "bytes", "type"})
        return ascii_safe_leaf(c, inner)
    ts = s.types(leaf)
    if ts is not None and ts <= (NUM | {"NoneType", "bytes"}):
        return True
    if is_call(leaf, "builtin:len"):
        return True
    if is_call(leaf, "builtin:type"):
        return True  # "<class 'x'>": type names of builtin/library/repo classes are ASCII here
    if isinstance(leaf, tuple) and leaf and leaf[0] == "global":
        lit = c.w.const_literal(leaf, s)
        if lit is not None:
            return all(ascii_safe_leaf(c, x) for x in string_leaves(lit))
        return True
    # validated hexadecimal text: bytes.fromhex accepted it, hence ASCII only
    if s.holds(("ok", CallT("ext:bytes.fromhex", [leaf]))):
        return True
    if isinstance(leaf, tuple) and leaf and leaf[0] in ("param", "sub", "elem", "attr") and hex_validated(s, leaf):
        return True
    if is_call(leaf, "method:hex") or (is_call(leaf, "method:decode") and leaf[2] and is_call(leaf[2][0], "ext:binascii.hexlify")):
        return True
    if isinstance(leaf, tuple) and leaf and leaf[0] == "excobj":
        return False
    return False


@builtin("print")
def b_print(c):
    file_kw = c.arg(None, "file")
    to_stream = file_kw is None or (file_kw[0] == "global" and file_kw[1] in ("ext:sys.stdout", "ext:sys.stderr"))
    leaves = []
    for a in c.args:
        leaves += string_leaves(a)
    for n, v in c.kwargs:
        if n in ("sep", "end"):
            leaves += string_leaves(v)
    unsafe = [lf for lf in leaves if not ascii_safe_leaf(c, lf)]
    s1 = c.s.copy()
    s1.ev("print", c.site, tuple(leaves), tuple(unsafe))
    if file_kw is not None and file_kw[0] == "param":
        c.rz("ValueError", "print to a stream object captured when a function was defined (a default `file=sys.stdout`): it may have been closed or replaced since (I/O operation on closed file)", [("captured-stream", file_kw)], pure=False)
    if file_kw is not None and is_call(file_kw, "captured-at-definition"):
        c.rz("ValueError", "print to the stream object that was sys.%s when the function was defined: it may have been closed or replaced since (I/O operation on closed file)" % file_kw[2][0][1].rsplit(".", 1)[-1], [], pure=False)
    if unsafe and to_stream:
        for lf in unsafe:
            # (conditional on the piece not being validated hexadecimal text, so that a caller of a
            # helper that prints its argument can refute it with what it knows about the argument)
            inner = lf
            while is_call(inner, ("builtin:str", "builtin:format")) and inner[2]:
                inner = inner[2][0]
            conds = [("notok", CallT("ext:bytes.fromhex", [inner]))] if is_param_rooted(inner) and not is_const(inner) else []
            if inner[0] == "param":
                # the whole text is an argument of this helper: the caller knows what it is made of
                conds = [("unsafe-text", inner)]
            c.rz("UnicodeEncodeError", "print of text that may not be encodable on stdout", conds, pure=False)
    c.ret(C(None), pure=False, state=s1)


@builtin("input")
def b_input(c):
    c.rz("EOFError", "input() at end of file", pure=False)
    c.ret(None, ("type", c.term, frozenset(["str"])), pure=False, extra_event=("ambient", c.site, "builtin:input"))


@builtin("open")
def b_open(c):
    c.rz("OSError", "open() may fail", pure=False)
    path = c.arg(0, "file")
    pt = c.types(path)
    if pt is None or not pt <= {"str", "bytes"}:
        c.rz("TypeError", "open() of a non-path value", [("nottype", path, frozenset(["str", "bytes"]))], pure=False)
    mode = c.arg(1, "mode") or C("r")
    extra = None
    if is_const(mode) and isinstance(mode[2], str) and "b" not in mode[2] and not any(n == "encoding" for n, _v in c.kwargs) and len(c.args) < 4:
        # text mode without an explicit encoding: the locale's preferred encoding is used
        extra = ("ambient", c.site, "ext:locale.getpreferredencoding")
    c.ret(None, ("type", c.term, frozenset(["obj:file"])), pure=False, extra_event=extra)


@builtin("exit", "quit")
def b_exit(c):
    s1 = c.s.copy()
    s1.ev("exit", c.site, c.args[0] if c.args else C(None))
    c.outs.append((s1, "raise", Exc("SystemExit", [c.site], (), "explicit", "exit()")))


@builtin("vars", "dir", "globals", "locals")
def b_vars(c):
    c.ret(Fresh(c.callee[8:]), pure=False, extra_event=("ambient", c.site, c.callee))


@builtin("next")
def b_next(c):
    x = c.args[0]
    if is_call(x, "builtin:iter") and x[2]:
        x = x[2][0]
    if is_lit(x) and x[1] in ("list", "tuple"):
        if x[2]:
            c.ret(x[2][0], pure=False)
        elif len(c.args) > 1:
            c.ret(c.args[1], pure=False)
        else:
            c.rz("StopIteration", "next() on an empty iterator", pure=False)
        return
    c.rz("StopIteration", "next() on an exhausted iterator", pure=False)
    c.ret(Fresh("next"), pure=False)


def apply_builtin(w, e, name, args, kwargs, s):
    import builtins as _b

    if args and isinstance(args[0], tuple) and len(args[0]) == 3 and args[0][0] == "gen" and not kwargs:
        r = _builtin_over_generator(w, e, name, args, s)
        if r is not None:
            return r
    fn = BUILTINS.get(name)
    c = Ctx(w, e, "builtin:" + name, args, kwargs, s)
    if fn is None:
        o = getattr(_b, name, None)
        if isinstance(o, type) and issubclass(o, BaseException):
            c.ret(("excobj", name), pure=False)
            return c.outs
        return unknown_callable(c, "builtin %s()" % name)
    fn(c)
    return c.outs


def _builtin_over_generator(w, e, name, args, s):
    """list / tuple / set / dict / sorted / next / any / all applied to a generator object of a
    repository generator function: the generator is run in place"""
    gen = args[0]
    if name in ("list", "tuple") and len(args) == 1:
        exact = w._collect_exact(gen, s, e)
        if exact is not None:
            return [(s2, k2, ("lit", name, p2[2], (e.lineno, e.col_offset, name) if name == "list" else None) if k2 == "val" else p2) for s2, k2, p2 in exact]
    if name in ("list", "tuple", "set", "frozenset", "dict", "sorted") and len(args) == 1:
        kind = {"list": "list", "tuple": "list", "sorted": "list", "set": "set", "frozenset": "set", "dict": "dict"}[name]
        outs = []
        for s2, k2, p2 in w._collect_generator(gen, s, e, kind):
            if k2 == "val" and name in ("tuple", "sorted", "frozenset"):
                p2 = CallT("builtin:" + name, [p2])
            outs.append((s2, k2, p2))
        return outs
    if name == "next" and len(args) in (1, 2):
        outs = []
        for s2, k2, p2 in w._run_generator(gen, s, lambda s_c, v: [(s_c, "break", v)], e):
            if k2 == "break":
                outs.append((s2, "val", p2))
            elif k2 == "exhausted":
                if len(args) == 2:
                    outs.append((s2, "val", args[1]))
                else:
                    w.rz(outs, s2, e, "StopIteration", "next() of an exhausted generator", [])
            else:
                outs.append((s2, k2, p2))
        return outs
    if name in ("any", "all") and len(args) == 1:
        stop_on = "true" if name == "any" else "false"

        def on_yield(s_c, v):
            res = []
            for s1, k1, p1 in w.truth(v, s_c):
                if k1 == stop_on:
                    res.append((s1, "break", None))
                elif k1 in ("true", "false"):
                    res.append((s1, "fall", None))
                else:
                    res.append((s1, k1, p1))
            return res

        outs = []
        for s2, k2, p2 in w._run_generator(gen, s, on_yield, e):
            if k2 == "break":
                outs.append((s2, "val", C(name == "any")))
            elif k2 == "exhausted":
                outs.append((s2, "val", C(name != "any")))
            else:
                outs.append((s2, k2, p2))
        return outs
    return None


class _ModOnly:
    def __init__(self, mod):
        self.mod = mod


def apply_new(w, e, cls_qualname, args, kwargs, s):
    """instantiation of a repo class"""
    c = Ctx(w, e, "new:" + cls_qualname, args, kwargs, s)
    short = cls_qualname.split(".")[-1]
    ci = w.prog.classes.get(cls_qualname)
    if ci is not None and ci.is_namedtuple:
        # typing.NamedTuple: the instance is the tuple of its fields
        fields = ci.nt_fields()
        names = [n for n, _d in fields]
        vals = dict(zip(names, args))
        if len(args) > len(names):
            c.rz("TypeError", "too many arguments for %s" % short)
            return c.outs
        stars = [v for n, v in kwargs if n == "**"]
        if len(stars) == 1 and all(d is None for _n, d in fields):
            # Record(a, **d) with a mapping the analysis cannot see into (yet): it succeeds exactly
            # when d's keys are the remaining fields - then each field is d[name]
            d_ = stars[0]
            given = dict(vals)
            for n, v in kwargs:
                if n != "**":
                    given[n] = v
            rest = [n for n in names if n not in given]
            if rest and all(n in names for n in given):
                dt = c.types(d_)
                if dt is None or not dt <= {"dict"}:
                    c.rz("TypeError", "** of a value that may not be a mapping", [("nottype", d_, frozenset(["dict"]))])
                if not c.s.holds(("keys", d_, frozenset(rest))):
                    c.rz("TypeError", "** of a mapping whose keys are not exactly the remaining fields of %s" % short, [("notkeys", d_, frozenset(rest))])
                s1 = c.s.copy()
                s1.add(("keys", d_, frozenset(rest)), ("type", d_, frozenset(["dict"])))
                for n in rest:
                    given[n] = Sub(d_, C(n))
                    s1.add(("has", d_, C(n)), ("ok", Sub(d_, C(n))))
                c.ret(("nt", cls_qualname, tuple(given[n] for n in names)), state=s1)
                return c.outs
        for n, v in kwargs:
            if n not in names or n in vals:
                c.rz("TypeError", "unexpected or repeated field %s for %s" % (n, short))
                return c.outs
            vals[n] = v
        import ast as _ast

        for n, d in fields:
            if n not in vals:
                if d is None:
                    c.rz("TypeError", "missing field %s for %s" % (n, short))
                    return c.outs
                if isinstance(d, _ast.Call) and _ast.unparse(d.func) in ("field", "dataclasses.field"):
                    # field(default=...) / field(default_factory=list)
                    kw = {k.arg: k.value for k in d.keywords}
                    if "default" in kw:
                        d = kw["default"]
                    elif "default_factory" in kw:
                        d = _ast.Call(func=kw["default_factory"], args=[], keywords=[])
                        _ast.copy_location(d, kw["default_factory"])
                        _ast.fix_missing_locations(d)
                    else:
                        c.rz("TypeError", "missing field %s for %s" % (n, short))
                        return c.outs
                vals[n] = w.eng.default_term(_ModOnly(ci.mod), d)
        rec = ("nt", cls_qualname, tuple(vals[n] for n in names))
        post = w.prog.find_method(cls_qualname, "__post_init__") if ci.is_dataclass else None
        if post is not None and post[0] == "repo":
            from .calls import apply_repo

            for s2, k2, p2 in apply_repo(w, e, post[1], None, (rec,), (), s):
                c.outs.append((s2, "val", rec) if k2 == "val" else (s2, k2, p2))
            return c.outs
        c.ret(rec)
        return c.outs
    if ci is not None and ci.is_enum and len(args) == 1 and not kwargs:
        # Mode("raw"): the member with that value, ValueError if there is none
        for nm, vnode in ci.enum_members().items():
            v = w.eng.static_term(ci.mod, vnode)
            if v is not None and v == args[0]:
                c.ret(("enum", cls_qualname, nm))
                return c.outs
        c.rz("ValueError", "%s(value) for a value that is not a member's" % short, [])
        c.ret(None, ("type", c.term, frozenset(["obj:" + cls_qualname])))
        return c.outs
    if short in w.prog.exc_parents():
        c.ret(("excobj", short), pure=False)
    elif ci is not None and all(b and b[0] == "builtin" and b[1] == "object" for b in ci.bases) and not ci.node.decorator_list:
        # a plain class of the repository: a fresh object whose attributes are tracked in the path
        # state; __init__ (if any) runs on it
        from .calls import apply_repo

        obj = ("obj", cls_qualname, c.site)
        init = w.prog.find_method(cls_qualname, "__init__")
        if init is None or init[0] != "repo":
            if args or kwargs:
                c.rz("TypeError", "%s() takes no arguments" % short)
            else:
                c.ret(obj, ("type", obj, frozenset(["obj:" + cls_qualname])))
            return c.outs
        for s2, k2, p2 in apply_repo(w, e, init[1], None, (obj,) + tuple(args), kwargs, s):
            if k2 == "val":
                s2 = s2.copy()
                s2.add(("type", obj, frozenset(["obj:" + cls_qualname])))
                c.outs.append((s2, "val", obj))
            else:
                c.outs.append((s2, k2, p2))
    else:
        c.ret(None, ("type", c.term, frozenset(["obj:" + cls_qualname])), pure=False)
    return c.outs


# ====================================================================== externals
EXT = {}
EXT_PREFIX = []


def ext(*names):
    def deco(fn):
        for n in names:
            if n.endswith("*"):
                EXT_PREFIX.append((n[:-1], fn))
            else:
                EXT[n] = fn
        return fn

    return deco


def hex_validated(s, x):
    """x is known to be an even-length string of ASCII hex digits without whitespace"""
    if s.holds(("ok", CallT("ext:bytes.fromhex", [x]))) and s.holds(("truthy", CallT("method:isalnum", [x]))):
        return True
    # established by other string tests (a round trip, a regular expression, a character loop):
    # decided on the language of the facts about x
    try:
        from rules import hexlang
    except ImportError:
        return False
    if hexlang.hex_missing_semantic(hexlang.current(), s, x, None) == []:
        return True
    # ... or by a validator of the repository that is itself exact for the hex grammar (its
    # accepting paths may each establish it in their own way; a merged summary cannot say so)
    try:
        from rules.c15 import _validated_by_exact_checker

        return _validated_by_exact_checker(s, x, None)
    except ImportError:
        return False


def known_len(s, x):
    for f in s.closure():
        if f[0] == "eq" and f[1] == CallT("builtin:len", [x]) and is_const(f[2]) and isinstance(f[2][2], int):
            return f[2][2]
    if is_const(x) and isinstance(x[2], (str, bytes)):
        return len(x[2])
    return None


def _unhex_common(c, strict_ws):
    x = c.args[0]
    ts = c.types(x)
    facts = [("type", c.term, frozenset(["bytes"]))]
    validated = hex_validated(c.s, x)
    if strict_ws:
        # binascii.unhexlify: str (ASCII) or bytes-like of even length, hex digits only
        if not validated:
            if ts is None or not ts <= {"str", "bytes", "bytearray", "memoryview"}:
                c.rz("TypeError", "unhexlify() of a value that is not str/bytes", [("anyof", (("nottype", x, frozenset(["str", "bytes"])),))])
            c.rz("ValueError", "unhexlify() of non-hexadecimal or odd-length text", [("anyof", (("notok", CallT("ext:bytes.fromhex", [x])), ("falsy", CallT("method:isalnum", [x]))))])
    else:
        if ts is None or not ts <= {"str"}:
            c.rz("TypeError", "bytes.fromhex() of a non-string", [("nottype", x, frozenset(["str"]))])
        if not c.known_ok and not validated:
            c.rz("ValueError", "bytes.fromhex() of non-hexadecimal text")
        facts.append(("type", x, frozenset(["str"])))
    n = known_len(c.s, x)
    if n is not None and (validated or strict_ws) and n % 2 == 0:
        facts.append(("eq", CallT("builtin:len", [c.term]), C(n // 2)))
    c.ret(None, *facts)


@ext("bytes.fromhex", "bytearray.fromhex")
def x_fromhex(c):
    c.callee = "ext:bytes.fromhex"
    _unhex_common(c, strict_ws=False)


@ext("binascii.unhexlify", "binascii.a2b_hex")
def x_unhexlify(c):
    _unhex_common(c, strict_ws=True)


@ext("binascii.hexlify", "binascii.b2a_hex")
def x_hexlify(c):
    c.need_type(c.args[0], BYTESLIKE, "TypeError", "hexlify() of a non-bytes value")
    c.ret(None, ("type", c.term, frozenset(["bytes"])))


@ext("json.dumps")
def x_dumps(c):
    # RecursionError excluded by A4
    c.rz("TypeError", "json.dumps of a value that is not JSON-serializable (or mixed key types with sort_keys)")
    c.rz("ValueError", "json.dumps of a circular structure / out-of-range float with allow_nan=False")
    hook = dict(c.kwargs).get("default")
    if hook is not None and isinstance(hook, tuple) and hook and hook[0] in ("global", "closure", "rawfunc", "partial") and not (hook[0] == "global" and not hook[1].startswith("func:")):
        # default=<function of the repository>: the encoder calls it for every value it has no
        # encoding for - what that function does (and reads) is part of what dumps() does
        from .calls import call_value

        s_hook = None
        for s2, k2, _p2 in call_value(c.w, c.e, hook, (Fresh("unencodable"),), (), c.s):
            if k2 == "val" and s_hook is None:
                s_hook = s2
        if s_hook is not None:
            c.ret(None, ("type", c.term, frozenset(["str"])), pure=False, state=s_hook)
            return
    c.ret(None, ("type", c.term, frozenset(["str"])))


@ext("json.dump")
def x_dump(c):
    c.rz("TypeError", "json.dump of a value that is not JSON-serializable", pure=False)
    c.rz("ValueError", "json.dump of a circular structure", pure=False)
    c.rz("OSError", "write failure", pure=False)
    s1 = c.s.copy()
    s1.ev("write", c.site, c.arg(1, "fp"), CallT("ext:json.dumps", [c.args[0]], [kv for kv in c.kwargs if kv[0] != "fp"]))
    c.ret(C(None), pure=False, state=s1)


@ext("json.load", "json.loads")
def x_load(c):
    c.rz("ValueError", "json.load of malformed JSON / undecodable bytes", pure=False)
    if c.callee.endswith("json.load"):
        c.rz("OSError", "read failure", pure=False)  # (json.loads reads nothing)
    a0 = c.args[0] if c.args else None
    t0 = c.types(a0) if a0 is not None else None
    if not (c.callee.endswith("loads") and t0 is not None and t0 <= {"str", "bytes", "bytearray"}):
        c.rz("TypeError", "json.load of a wrong argument", [("nottype", a0, frozenset(["str", "bytes", "bytearray"]))] if c.callee.endswith("loads") and a0 is not None else [], pure=False)
    t = None
    if c.callee.endswith("loads") and len(c.args) == 1 and not c.kwargs and is_call(c.args[0], "method:read") and len(c.args[0][2]) == 1:
        # json.loads(fp.read()) is what json.load(fp) does: one term for both spellings
        t = CallT("ext:json.load", [c.args[0][2][0]])
    c.ret(t, ("type", t if t is not None else c.term, JSON_TYPES), pure=False)


@ext("copy.deepcopy", "copy.copy")
def x_copy(c):
    x = c.args[0]
    ts = c.types(x)
    facts = [("type", c.term, ts)] if ts is not None else []
    c.ret(None, *facts, pure=False)


@ext("struct.Struct")
def x_struct(c):
    c.ret(None, ("type", c.term, frozenset(["obj:struct.Struct"])))


@ext("pathlib.Path", "pathlib.PurePath")
def x_path(c):
    c.ret(None, ("type", c.term, frozenset(["obj:pathlib.Path"])))


@ext("struct.pack")
def x_pack(c):
    fmt = c.args[0]
    vals = c.args[1:]
    a5 = is_const(fmt) and fmt[2] in (">I", "!I", ">L", "!L") and len(vals) == 1 and is_call(vals[0], "builtin:len")
    if a5:
        s1 = c.s.copy()
        s1.ev("assume", c.site, "A5", "length of a byte string fits 32 bits")
        c.ret(None, ("type", c.term, frozenset(["bytes"])), state=s1)
        return
    c.rz("struct.error", "struct.pack of a value out of range or of the wrong type")
    c.ret(None, ("type", c.term, frozenset(["bytes"])))


@ext("datetime.datetime.strptime")
def x_strptime(c):
    x = c.args[0]
    c.need_type(x, frozenset(["str"]), "TypeError", "strptime() of a non-string")
    if not c.known_ok:
        c.rz("ValueError", "strptime() of text that does not match the format")
    c.ret(None, ("type", x, frozenset(["str"])), ("type", c.term, frozenset(["obj:datetime.datetime"])))


@ext("datetime.datetime.utcnow", "datetime.datetime.now", "datetime.datetime.today", "datetime.date.today", "time.time", "time.time_ns", "time.monotonic", "time.gmtime", "time.localtime")
def x_now(c):
    kind = "obj:datetime.datetime" if "datetime" in c.callee else "float"
    c.ret(None, ("type", c.term, frozenset([kind])), pure=False, extra_event=("ambient", c.site, c.callee))


@ext("datetime.timedelta")
def x_timedelta(c):
    for a in list(c.args) + [v for _n, v in c.kwargs]:
        ts = c.types(a)
        if ts is None or not ts <= NUM:
            c.rz("TypeError", "timedelta() of a non-number", [("nottype", a, NUM)])
            break
    c.ret(None, ("type", c.term, frozenset(["obj:datetime.timedelta"])))


@ext("datetime.datetime.fromisoformat", "datetime.datetime.fromtimestamp", "datetime.datetime.utcfromtimestamp")
def x_fromiso(c):
    c.rz("TypeError", "bad argument type")
    c.rz("ValueError", "bad argument value")
    c.ret(None, ("type", c.term, frozenset(["obj:datetime.datetime"])))


@ext("datetime.timezone.utc")
def x_tz(c):
    c.ret(None, pure=False)


@ext("cryptography.hazmat.primitives.hashes.Hash")
def x_hash(c):
    c.ret(None, ("type", c.term, frozenset(["obj:hasher"])), pure=False)


@ext(
    "cryptography.hazmat.primitives.hashes.SHA256",
    "cryptography.hazmat.primitives.hashes.SHA512",
    "cryptography.hazmat.primitives.hashes.SHA1",
    "cryptography.hazmat.primitives.hashes.SHA384",
    "cryptography.hazmat.primitives.hashes.SHA224",
    "cryptography.hazmat.primitives.hashes.SHA512_256",
    "cryptography.hazmat.primitives.hashes.SHA3_256",
    "cryptography.hazmat.primitives.hashes.BLAKE2b",
    "cryptography.hazmat.backends.default_backend",
    "cryptography.hazmat.primitives.serialization.NoEncryption",
)
def x_crypto_obj(c):
    c.ret(None, ("type", c.term, frozenset(["obj:" + c.callee[4:]])), pure=False)


@ext("hashlib.sha256", "hashlib.sha512", "hashlib.sha1", "hashlib.md5", "hashlib.sha384", "hashlib.sha224", "hashlib.new", "hashlib.blake2b", "hashlib.sha3_256")
def x_hashlib(c):
    if c.args and c.callee != "ext:hashlib.new":
        c.need_type(c.args[0], BYTESLIKE, "TypeError", "hash of a non-bytes value")
    c.ret(None, ("type", c.term, frozenset(["obj:hasher"])), pure=False)


def _from_raw_bytes(c, kind):
    x = c.args[0]
    ts = c.types(x)
    if ts is None or not ts <= BYTESLIKE:
        c.rz("TypeError", "from_%s_bytes() of a non-bytes value" % kind, [("nottype", x, BYTESLIKE)])
    n = known_len(c.s, x)
    if n != 32:
        c.rz("ValueError", "from_%s_bytes() of a value that may not be 32 bytes long" % kind, [("ne", CallT("builtin:len", [x]), C(32))])
    c.ret(None, ("type", c.term, frozenset([ED_PUB if kind == "public" else ED_PRIV])))


@ext("cryptography.hazmat.primitives.asymmetric.ed25519.Ed25519PublicKey.from_public_bytes")
def x_from_public(c):
    _from_raw_bytes(c, "public")


@ext("cryptography.hazmat.primitives.asymmetric.ed25519.Ed25519PrivateKey.from_private_bytes")
def x_from_private(c):
    _from_raw_bytes(c, "private")


@ext("cryptography.hazmat.primitives.asymmetric.ed25519.Ed25519PrivateKey.generate")
def x_generate(c):
    # every call yields a different key: the result term carries its call site
    t = CallT(c.callee, c.args, tuple(c.kwargs) + (("@site", C("%s:%d:%d" % c.site[:3])),))
    c.ret(t, ("type", t, frozenset([ED_PRIV])), pure=False, extra_event=("ambient", c.site, c.callee))


@ext("securesystemslib.*", "pygments.*", "pprint.*", "conda.*")
def x_opaque(c):
    """optional third-party code the analysis does not look into: may raise anything"""
    c.rz("Exception", "call into %s (not analysed)" % c.callee[4:], pure=False, origin="opaque")
    c.ret(None, pure=False)


@ext("argparse.ArgumentParser")
def x_argparse(c):
    c.ret(None, ("type", c.term, frozenset(["obj:argparse"])), pure=False)


@ext("sys.exit")
def x_sysexit(c):
    s1 = c.s.copy()
    s1.ev("exit", c.site, c.args[0] if c.args else C(None))
    s1.ev("call", c.site, c.callee, tuple(c.args), c.kwargs, ("raise", "SystemExit"))
    c.outs.append((s1, "raise", Exc("SystemExit", [c.site], (), "explicit", "sys.exit()")))


@ext("warnings.warn", "warnings.warn_explicit")
def x_warn(c):
    """warnings.warn(): what it does is decided by the process-wide warnings filter ("error"
    turns it into an exception of the category, "once"/"default" consult and update the
    per-module registry) - an ambient read, and a possible raise of the warning class"""
    cat = c.arg(1, "category")
    name = "UserWarning"
    if cat is not None and isinstance(cat, tuple) and len(cat) == 2 and cat[0] == "global" and cat[1].startswith(("builtin:", "class:")):
        name = cat[1].split(":", 1)[1].split(".")[-1]
    elif cat is not None and not (is_const(cat) and cat[2] is None):
        name = "Warning"
    c.rz(name, "warnings.warn() under a filter that turns warnings into errors", pure=False, origin="ambient-filter")
    c.ret(C(None), pure=False, extra_event=("ambient", c.site, "ext:warnings.filters"))


@ext("logging.*")
def x_logging(c):
    # handlers swallow emit errors (logging.raiseExceptions only prints); not a stdout sink
    if c.callee.endswith(("getLogger", "Logger")):
        c.ret(None, ("type", c.term, frozenset(["obj:logger"])), pure=False)
    else:
        c.ret(None, pure=False)


@ext("os.getenv", "os.environ.get", "os.getcwd", "os.urandom", "locale.*", "random.*", "secrets.*", "os.path.*", "os.listdir", "os.stat", "platform.*", "socket.*", "getpass.*", "uuid.*", "tempfile.*", "time.strftime", "time.sleep", "time.perf_counter", "time.perf_counter_ns", "time.monotonic", "time.monotonic_ns", "time.time", "time.time_ns", "time.process_time")
def x_ambient(c):
    c.rz("OSError", "ambient call may fail", pure=False)
    c.ret(None, pure=False, extra_event=("ambient", c.site, c.callee))


@ext("os.remove", "os.unlink", "os.rename", "os.replace", "os.truncate", "shutil.*", "os.makedirs", "os.mkdir")
def x_fsmut(c):
    c.rz("OSError", "filesystem call may fail", pure=False)
    s1 = c.s.copy()
    s1.ev("fs-mutation", c.site, c.callee, tuple(c.args))
    c.ret(None, pure=False, state=s1)


@ext("functools.partial")
def x_partial(c):
    """functools.partial(f, *args, **kwargs): a value that the call machinery unfolds when called"""
    if not c.args:
        c.rz("TypeError", "partial() without a callable")
        return
    c.ret(("partial", c.args[0], tuple(c.args[1:]), tuple(c.kwargs)))


@ext("operator.itemgetter", "operator.attrgetter", "operator.methodcaller")
def x_operator_factory(c):
    """operator.itemgetter(k...) / methodcaller(name, ...) : unfolded when the result is called"""
    c.ret(("partial", G(c.callee), tuple(c.args), tuple(c.kwargs)))


def _apply_subscript(c, base, key):
    """outcomes of base[key] evaluated with the walker's own subscript rules"""
    import ast as _ast

    node = _ast.Subscript(value=_ast.Name(id="$opbase", ctx=_ast.Load()), slice=_ast.Name(id="$opkey", ctx=_ast.Load()), ctx=_ast.Load())
    for x in _ast.walk(node):
        _ast.copy_location(x, c.e)
    s = c.s.copy()
    s.env = dict(s.env)
    s.env["$opbase"], s.env["$opkey"] = base, key
    outs = []
    for s2, k2, p2 in c.w.expr(node, s):
        s2.env.pop("$opbase", None)
        s2.env.pop("$opkey", None)
        outs.append((s2, k2, p2))
    return outs


@ext("operator.getitem")
def x_operator_getitem(c):
    if len(c.args) != 2:
        c.rz("TypeError", "operator.getitem() takes two arguments")
        return
    c.outs.extend(_apply_subscript(c, c.args[0], c.args[1]))


_OPERATOR_COMPARE = {"contains": "In", "eq": "Eq", "ne": "NotEq", "lt": "Lt", "le": "LtE", "gt": "Gt", "ge": "GtE", "is_": "Is", "is_not": "IsNot"}


@ext(*["operator." + k for k in _OPERATOR_COMPARE])
def x_operator_compare(c):
    """operator.contains(a, b) is `b in a`, operator.eq(a, b) is `a == b`, ...: decided by the
    walker's own comparison rules"""
    import ast as _ast

    if len(c.args) != 2 or c.kwargs:
        c.rz("TypeError", "%s() takes two arguments" % c.callee)
        return
    name = c.callee.rsplit(".", 1)[1]
    l, r = (c.args[1], c.args[0]) if name == "contains" else (c.args[0], c.args[1])
    node = _ast.Compare(left=_ast.Name(id="$opl", ctx=_ast.Load()), ops=[getattr(_ast, _OPERATOR_COMPARE[name])()], comparators=[_ast.Name(id="$opr", ctx=_ast.Load())])
    for x in _ast.walk(node):
        _ast.copy_location(x, c.e)
    s = c.s.copy()
    s.env = dict(s.env)
    s.env["$opl"], s.env["$opr"] = l, r
    for s2, k2, p2 in c.w.cond(node, s):
        s2.env.pop("$opl", None)
        s2.env.pop("$opr", None)
        if k2 in ("true", "false"):
            c.outs.append((s2, "val", C(k2 == "true")))
        else:
            c.outs.append((s2, k2, p2))


@ext("operator.truth", "operator.not_")
def x_operator_truth(c):
    if len(c.args) != 1:
        c.rz("TypeError", "operator.truth() takes one argument")
        return
    neg = c.callee.endswith("not_")
    for s2, k2, _p in c.w.truth(c.args[0], c.s):
        c.outs.append((s2, "val", C((k2 == "true") != neg)))


@ext("functools.reduce")
def x_reduce(c):
    """reduce(f, <literal display>, init): unfolded left to right"""
    from .terms import is_lit as _is_lit

    seq = c.args[1] if len(c.args) == 3 else None
    if seq is not None and is_const(seq) and isinstance(seq[2], tuple):
        seq = ("lit", "tuple", tuple(C(x) for x in seq[2]), None)
    if seq is not None and seq[0] == "global" and seq[1].startswith("const:"):
        seq = c.w.eng.const_literal(seq[1][6:]) or seq
    if seq is not None:
        c.args = (c.args[0], seq, c.args[2])
    if len(c.args) == 3 and _is_lit(c.args[1]) and c.args[1][1] in ("tuple", "list") and len(c.args[1][2]) <= 8:
        from .calls import call_value

        cur = [(c.s, c.args[2])]
        for item in c.args[1][2]:
            nxt = []
            for s1, acc in cur:
                for s2, k2, p2 in call_value(c.w, c.e, c.args[0], (acc, item), (), s1):
                    if k2 == "val":
                        nxt.append((s2, p2))
                    else:
                        c.outs.append((s2, k2, p2))
            cur = nxt
        for s1, acc in cur:
            c.outs.append((s1, "val", acc))
        return
    return unknown_callable(c, "functools.reduce over a non-literal sequence")


@ext("dataclasses.replace")
def x_dc_replace(c):
    """replace(record, **changes): a new record with the given fields changed"""
    rec = c.args[0] if c.args else None
    if isinstance(rec, tuple) and len(rec) == 3 and rec[0] == "nt" and len(c.args) == 1:
        ci = c.w.prog.classes.get(rec[1])
        names = [n for n, _d in ci.nt_fields()] if ci is not None else []
        vals = dict(zip(names, rec[2]))
        for n, v in c.kwargs:
            if n not in vals:
                c.rz("TypeError", "replace() got an unexpected field %s" % n)
                return
            vals[n] = v
        new = ("nt", rec[1], tuple(vals[n] for n in names))
        post = c.w.prog.find_method(rec[1], "__post_init__")
        if post is not None and post[0] == "repo":
            from .calls import apply_repo

            for s2, k2, p2 in apply_repo(c.w, c.e, post[1], None, (new,), (), c.s):
                c.outs.append((s2, "val", new) if k2 == "val" else (s2, k2, p2))
            return
        c.ret(new)
        return
    # a record the analysis does not track (a parameter of a method analysed on its own): some
    # new object of the same class
    c.rz("TypeError", "replace() of a value that is not a dataclass instance or with an unknown field", [])
    ts = c.types(rec) if rec is not None else None
    t = Fresh("replaced")
    c.ret(t, *([("type", t, ts)] if ts else []))


@ext("itertools.starmap", "itertools.filterfalse")
def x_starmap(c):
    """starmap(f, xs) == (f(*x) for x in xs); filterfalse(p, xs) == (x for x in xs if not p(x))"""
    import ast as _ast

    e = c.e
    if len(e.args) == 2 and not e.keywords:
        var = _ast.Name(id="$m", ctx=_ast.Load())
        if c.callee.endswith("starmap"):
            elt = _ast.Call(func=e.args[0], args=[_ast.Starred(value=var, ctx=_ast.Load())], keywords=[])
            ifs = []
        else:
            elt = var
            ifs = [_ast.UnaryOp(op=_ast.Not(), operand=_ast.Call(func=e.args[0], args=[var], keywords=[]))]
        comp = _ast.comprehension(target=_ast.Name(id="$m", ctx=_ast.Store()), iter=e.args[1], ifs=ifs, is_async=0)
        ge = _ast.GeneratorExp(elt=elt, generators=[comp])
        for x in _ast.walk(ge):
            if not hasattr(x, "lineno"):
                _ast.copy_location(x, e)
        _ast.fix_missing_locations(ge)
        for s2, k2, p2 in c.w.expr(ge, c.s):
            s2.env.pop("$m", None)
            c.outs.append((s2, k2, p2))
        return
    c.ret(Fresh(c.callee[4:]), pure=False)


@ext("itertools.chain")
def x_chain(c):
    """chain(a, b, ...): iterating it iterates a, then b, ... (unfolded by the loop rules)"""
    c.ret(None)


@ext("io.StringIO", "io.BytesIO")
def x_stringio(c):
    t = Fresh("buffer")
    c.ret(t, ("type", t, frozenset(["obj:io.buffer"])), pure=False)


@ext("int.from_bytes")
def x_int_from_bytes(c):
    x = c.arg(0, "bytes")
    if x is not None:
        ts = c.types(x)
        if ts is None or not ts <= {"bytes", "bytearray", "list", "tuple"}:
            c.rz("TypeError", "int.from_bytes() of a value that is not bytes-like", [("nottype", x, frozenset(["bytes"]))])
    c.ret(None, ("type", c.term, frozenset(["int"])))


@ext("collections.Counter")
def x_counter(c):
    """Counter(iterable of hashables): a dict of counts"""
    s1 = c.s.copy()
    if c.args:
        from .walker import CONTAINERS as CONTAINERS_T

        c.w.exhaust(c.args[0], s1)
        c.s = s1
        ts = c.types(c.args[0])
        if ts is None or not ts <= (CONTAINERS_T | {"generator"}):
            c.rz("TypeError", "Counter() of a value that may not be iterable", [("nottype", c.args[0], CONTAINERS_T)])
        src = c.args[0]
        et = elements_type(s1, src)
        if et is None and src[0] == "comp" and isinstance(src[3], tuple):
            et = s1.types(src[3]) if src[3][:1] != ("elem",) else elements_type(s1, src[2])
        if et is None or not et <= HASHABLE:
            c.rz("TypeError", "Counter() of elements that may not be hashable", [])
    c.ret(None, ("type", c.term, frozenset(["dict"])), state=s1)


@ext("functools.*", "itertools.*", "operator.*", "collections.*", "typing.*")
def x_stdlib_misc(c):
    c.ret(Fresh(c.callee[4:]), pure=False)


@ext("contextlib.redirect_stdout", "contextlib.redirect_stderr")
def x_redirect(c):
    """redirect_stdout(f) swaps the process-global sys.stdout for the duration of the block (and
    puts back what it saw on entry): a write of global state, not re-entrant across threads"""
    s1 = c.s.copy()
    s1.ev("store", c.site, G("ext:sys." + c.callee.rsplit("_", 1)[1]), c.args[0] if c.args else Fresh("stream"))
    c.ret(Fresh("ctxmgr"), pure=False, state=s1)


@ext("contextlib.nullcontext", "contextlib.suppress", "contextlib.ExitStack")
def x_contextlib(c):
    """context managers without failure modes of their own (suppress is expanded by the walker
    when it is used directly in a with statement)"""
    c.ret(Fresh("ctxmgr"), pure=False)


@ext("concurrent.futures.ThreadPoolExecutor", "concurrent.futures.ProcessPoolExecutor", "concurrent.futures.thread.ThreadPoolExecutor")
def x_executor(c):
    t = Fresh("executor")
    c.ret(t, ("type", t, frozenset(["obj:concurrent.futures.Executor"])), pure=False)


@ext("re.match", "re.fullmatch", "re.search", "re.compile")
def x_re(c):
    pat, subj = c.arg(0, "pattern"), c.arg(1, "string")
    facts = []
    if subj is not None:
        c.need_type(subj, frozenset(["str"]), "TypeError", "regex match on a non-string")
        from .terms import is_const as _is_const

        if pat is not None and _is_const(pat) and isinstance(pat[2], str):
            facts.append(("type", subj, frozenset(["str"])))
    c.ret(None, *facts)


@ext("str.join", "str.lower", "str.isalnum", "str.encode", "bytes.hex", "bytes.decode", "dict.get", "dict.keys", "dict.items", "dict.values")
def x_unbound_method(c):
    """str.lower(x) etc.: the unbound form of a method call"""
    name = c.callee.split(".")[-1]
    outs = apply_method(c.w, c.e, name, c.args[0], c.args[1:], c.kwargs, c.s)
    c.outs.extend(outs)


def apply_ext(w, e, dotted, args, kwargs, s):
    alias = {
        "datetime.strptime": "datetime.datetime.strptime",
        "datetime.utcnow": "datetime.datetime.utcnow",
        "datetime.now": "datetime.datetime.now",
    }
    # `from datetime import datetime` gives ext:datetime.datetime.<m> already; keep aliases for safety
    dotted = alias.get(dotted, dotted)
    c = Ctx(w, e, "ext:" + dotted, args, kwargs, s)
    fn = EXT.get(dotted)
    if fn is None:
        for pre, f in EXT_PREFIX:
            if dotted.startswith(pre) or dotted == pre.rstrip("."):
                fn = f
                break
    if fn is None:
        # Class.method on a library class reached through a repo subclass / alias
        return unknown_callable(c, "external callable %s" % dotted)
    fn(c)
    return c.outs


# ====================================================================== methods on values
METHODS = {}


def method(*names):
    def deco(fn):
        for n in names:
            METHODS[n] = fn
        return fn

    return deco


def owners(name):
    return frozenset(t for t, attrs in _ATTRS.items() if name in attrs)


def is_key_type(w, t):
    if t in (ED_PUB, ED_PRIV):
        return True
    if t.startswith("obj:") and t[4:] in w.prog.classes:
        return any(e[0] == "ext" and "ed25519.Ed25519P" in e[1] for e in w.prog.mro(t[4:]))
    return False


def key_type_names(w, kind):
    """type names of public ('pub') / private ('priv') / all ('any') ed25519 key objects,
    including the repo's own subclasses"""
    base = {"pub": [ED_PUB], "priv": [ED_PRIV], "any": [ED_PUB, ED_PRIV]}[kind]
    return expand_isinstance_names(w, base)


def recv_check(c, allowed, mname, strict=True):
    """AttributeError unless the receiver's type is known to own the method"""
    ts = c.types(c.recv)
    if ts is not None and ts <= allowed:
        return True
    if ts is not None and not (ts & allowed) and all(t in _ATTRS for t in ts):
        c.rz("AttributeError", "method .%s() on %s" % (mname, sorted(ts)), [("type", c.recv, ts)], pure=False)
        return False
    c.rz("AttributeError", "method .%s() on a value that may not have it" % mname, [("nottype", c.recv, frozenset(allowed))], pure=False)
    return True


STR_PURE = {
    "isalnum": "bool", "isdigit": "bool", "isalpha": "bool", "isascii": "bool", "isdecimal": "bool", "isnumeric": "bool",
    "islower": "bool", "isupper": "bool", "isspace": "bool", "isidentifier": "bool", "isprintable": "bool",
    "lower": "same", "upper": "same", "strip": "same", "lstrip": "same", "rstrip": "same", "casefold": "same",
    "replace": "same", "title": "same", "capitalize": "same", "swapcase": "same", "zfill": "same",
    "removeprefix": "same", "removesuffix": "same", "ljust": "same", "rjust": "same", "center": "same",
    "startswith": "bool", "endswith": "bool", "split": "list", "rsplit": "list", "splitlines": "list", "partition": "tuple",
    "rpartition": "tuple", "find": "int", "rfind": "int", "count": "int",
}


def _str_pure(c, name):
    recv_check(c, frozenset(["str", "bytes"]), name)
    kind = STR_PURE[name]
    ts = c.types(c.recv)
    if kind == "same":
        rt = ts if ts is not None and ts <= {"str", "bytes"} else frozenset(["str", "bytes"])
    else:
        rt = frozenset([kind])
    for a in c.args:
        at = c.types(a)
        if at is None or not at <= {"str", "bytes", "int", "tuple", "NoneType"}:
            c.rz("TypeError", "string method argument of a wrong type", [("badarg", a)])
            break
    c.ret(None, ("type", c.term, rt))


for _n in STR_PURE:
    METHODS[_n] = (lambda n: (lambda c: _str_pure(c, n)))(_n)


def compiled_pattern(w, t):
    """(pattern text, flags) if term t is a compiled regular expression whose source is
    static: re.compile(<constant str>[, <constant flags>]) directly, or a module constant
    bound once to such a call; else None"""
    import ast as _ast

    from .terms import is_call as _is_call, is_const as _is_const

    if _is_call(t, "ext:re.compile") and t[2] and _is_const(t[2][0]) and isinstance(t[2][0][2], str):
        flags = 0
        if len(t[2]) > 1:
            if not (_is_const(t[2][1]) and isinstance(t[2][1][2], int)):
                return None
            flags = t[2][1][2]
        if len(t) > 3 and t[3]:
            return None
        return (t[2][0][2], flags)
    if isinstance(t, tuple) and len(t) == 2 and t[0] == "global" and t[1].startswith("const:"):
        modname, _, name = t[1][6:].rpartition(".")
        m = w.prog.by_short.get(modname)
        vals = m.consts.get(name) if m is not None else None
        if not vals or len(vals) != 1:
            return None
        v = vals[0]
        if not (isinstance(v, _ast.Call) and v.args and isinstance(v.args[0], _ast.Constant) and isinstance(v.args[0].value, str)):
            return None
        r = w.prog.resolve_expr_static(m, v.func)
        if not (r and r[0] == "ext" and r[1] == "re.compile"):
            return None
        flags = 0
        extra = list(v.args[1:]) + [k.value for k in v.keywords if k.arg == "flags"]
        if len(extra) > 1 or any(k.arg != "flags" for k in v.keywords):
            return None
        if extra:
            flags = _static_re_flags(w, m, extra[0])
            if flags is None:
                return None
        return (v.args[0].value, flags)
    return None


def _static_re_flags(w, m, node):
    import ast as _ast
    import re as _re

    if isinstance(node, _ast.Constant) and isinstance(node.value, int):
        return node.value
    if isinstance(node, _ast.BinOp) and isinstance(node.op, _ast.BitOr):
        a, b = _static_re_flags(w, m, node.left), _static_re_flags(w, m, node.right)
        return None if a is None or b is None else a | b
    r = w.prog.resolve_expr_static(m, node)
    if r and r[0] == "ext" and r[1].startswith("re.") and r[1][3:].isupper() and hasattr(_re, r[1][3:]):
        return int(getattr(_re, r[1][3:]))
    return None


@method("match", "fullmatch", "search")
def m_regex(c):
    """<compiled pattern>.match(s) / fullmatch / search: None or a match object"""
    if compiled_pattern(c.w, c.recv) is None:
        c.rz("AttributeError", "method .%s() on a value that is not known to be a compiled pattern" % c.callee.split(":")[-1], [("nottype", c.recv, frozenset(["obj:re.Pattern"]))], pure=False)
    subj = c.arg(0, "string")
    facts = []
    if subj is not None:
        c.need_type(subj, frozenset(["str"]), "TypeError", "regex match on a non-string")
        if compiled_pattern(c.w, c.recv) is not None:
            # a pattern compiled from str text refuses bytes-like subjects too: where the call
            # returned (a match or None) the subject is a string
            facts.append(("type", subj, frozenset(["str"])))
    c.ret(None, *facts)


@method("map")
def m_executor_map(c):
    """Executor.map(f, xs): f runs on every element in worker threads; an exception raised by f is
    stored in the result iterator and re-raised only when that result is consumed - modelled as
    `for x in xs: try: f(x) / except BaseException: pass` (the swallowing is visible as a caught
    event at the call site); the result is an opaque iterator"""
    import ast as _ast

    ts = c.types(c.recv)
    e = c.e
    if ts is None or not ts <= {"obj:concurrent.futures.Executor"} or len(e.args) != 2 or e.keywords:
        return unknown_callable(c, "method .map() of a value that is not known to be an executor")
    var = _ast.Name(id="$map_item", ctx=_ast.Store())
    call = _ast.Expr(value=_ast.Call(func=e.args[0], args=[_ast.Name(id="$map_item", ctx=_ast.Load())], keywords=[]))
    h = _ast.ExceptHandler(type=_ast.Name(id="BaseException", ctx=_ast.Load()), name=None, body=[_ast.Pass()])
    t = _ast.Try(body=[call], handlers=[h], orelse=[], finalbody=[])
    loop = _ast.For(target=var, iter=e.args[1], body=[t], orelse=[])
    for x in _ast.walk(loop):
        if not hasattr(x, "lineno"):
            _ast.copy_location(x, e)
    _ast.fix_missing_locations(loop)
    for s2, k2, p2 in c.w.stmt(loop, c.s):
        if k2 == "fall":
            s2.env.pop("$map_item", None)
            c.outs.append((s2, "val", Fresh("executor_results")))
        else:
            c.outs.append((s2, k2, p2))


@method("issuperset", "issubset", "isdisjoint")
def m_setrel(c):
    recv_check(c, frozenset(["set", "frozenset"]), c.callee.split(":")[-1])
    other = c.arg(0, "other")
    if other is not None:
        ts = c.types(other)
        if ts is None or not ts <= {"str", "bytes"}:
            c.rz("TypeError", "set relation with a value that may not be iterable or may hold unhashable elements", [("nottype", other, frozenset(["str"]))])
    c.ret(None, ("type", c.term, frozenset(["bool"])))


@method("encode")
def m_encode(c):
    recv_check(c, frozenset(["str"]), "encode")
    r = c.recv
    safe = is_call(r, "ext:json.dumps") and not any(n == "ensure_ascii" and not (is_const(v) and v[2] is True) for n, v in r[3])
    safe = safe or (is_const(r) and isinstance(r[2], str) and r[2].isascii()) or hex_validated(c.s, r)
    errs = c.arg(1, "errors")
    if errs is not None and is_const(errs) and errs[2] in ("backslashreplace", "replace", "ignore", "xmlcharrefreplace", "namereplace"):
        safe = True  # an error handler that substitutes instead of raising
    if not safe:
        c.rz("UnicodeEncodeError", "encode() of text that may contain unencodable characters (lone surrogates)")
    enc = c.arg(0, "encoding")
    if enc is not None and not is_const(enc):
        c.rz("LookupError", "unknown encoding")
    c.ret(None, ("type", c.term, frozenset(["bytes"])))


@method("decode")
def m_decode(c):
    recv_check(c, BYTESLIKE, "decode")
    r = c.recv
    safe = is_call(r, ("ext:binascii.hexlify",)) or (is_call(r, "method:encode"))
    if not safe:
        c.rz("UnicodeDecodeError", "decode() of bytes that may not be valid text")
    c.ret(None, ("type", c.term, frozenset(["str"])))


@method("hex")
def m_hex(c):
    recv_check(c, BYTESLIKE | {"float"}, "hex")
    c.ret(None, ("type", c.term, frozenset(["str"])))


@method("join")
def m_join(c):
    recv_check(c, frozenset(["str", "bytes"]), "join")
    x = c.args[0]
    et = elements_type(c.s, x)
    if is_call(x, ("method:split", "method:rsplit", "method:splitlines")):
        et = c.types(x[2][0])
    if et is None or not et <= {"str"}:
        c.rz("TypeError", "join() of elements that may not be strings", [("nonstr-elements", x)])
    c.ret(None, ("type", c.term, frozenset(["str"])))


@method("format")
def m_format(c):
    recv_check(c, frozenset(["str"]), "format")
    ok = False
    if is_const(c.recv) and isinstance(c.recv[2], str):
        import string

        try:
            fields = [f for _lit, f, _spec, _conv in string.Formatter().parse(c.recv[2]) if f is not None]
            auto = 0
            ok = True
            names = {n for n, _v in c.kwargs}
            for f in fields:
                head = f.split(".")[0].split("[")[0]
                if head == "":
                    ok = ok and auto < len(c.args)
                    auto += 1
                elif head.isdigit():
                    ok = ok and int(head) < len(c.args)
                else:
                    ok = ok and head in names
                if "." in f or "[" in f:
                    ok = False
        except ValueError:
            ok = False
    if not ok:
        c.rz("IndexError", "format() placeholder without argument")
        c.rz("KeyError", "format() placeholder without argument")
    c.ret(None, ("type", c.term, frozenset(["str"])))


@method("items", "keys", "values")
def m_dictview(c):
    recv_check(c, frozenset(["dict"]), c.callee[7:])
    c.ret(None, pure=False)


@method("get")
def m_get(c):
    recv_check(c, frozenset(["dict"]), "get")
    k = c.args[0]
    kt = c.types(k)
    if kt is None or not kt <= HASHABLE:
        c.rz("TypeError", "dict.get() of a possibly unhashable key", [("nottype", k, HASHABLE)])
    # d.get(k, default) == d[k] if k in d else default: split on membership
    default = c.args[1] if len(c.args) > 1 else dict(c.kwargs).get("default", C(None))
    sub = ("sub", c.recv, k)
    if not c.s.contradicts(("has", c.recv, k)):
        c.ret(sub, ("has", c.recv, k), ("ok", sub), pure=False)
    if not c.s.contradicts(("nothas", c.recv, k)):
        c.ret(default, ("nothas", c.recv, k), pure=False)


@method("copy")
def m_copy(c):
    ts = c.types(c.recv)
    c.ret(None, *([("type", c.term, ts)] if ts else []), pure=False)


MUTATORS = {
    "append": ("list",), "extend": ("list",), "insert": ("list",), "remove": ("list", "set"), "sort": ("list",),
    "reverse": ("list",), "clear": ("list", "dict", "set"), "pop": ("list", "dict", "set"), "popitem": ("dict",),
    "update": ("dict", "set"), "setdefault": ("dict",), "add": ("set",), "discard": ("set",),
    "__setitem__": ("dict", "list"), "__delitem__": ("dict", "list"), "difference_update": ("set",),
    "intersection_update": ("set",), "symmetric_difference_update": ("set",),
}


def _mutator(c, name):
    own = frozenset(MUTATORS[name])
    ts = c.types(c.recv)
    if ts is not None and ts <= {"obj:hasher"} and name == "update":
        return m_hasher_update(c)
    if name == "update" and len(c.args) == 1 and not c.kwargs and isinstance(c.args[0], tuple) and len(c.args[0]) == 3 and c.args[0][0] == "gen":
        # M.update(<generator of pairs>)  ==  for k, v in <generator>: M[k] = v
        import ast as _ast

        s0 = c.s.copy()
        s0.env["$upd_m"], s0.env["$upd_g"] = c.recv, c.args[0]
        tgt = _ast.Tuple(elts=[_ast.Name(id="$uk", ctx=_ast.Store()), _ast.Name(id="$uv", ctx=_ast.Store())], ctx=_ast.Store())
        store = _ast.Assign(targets=[_ast.Subscript(value=_ast.Name(id="$upd_m", ctx=_ast.Load()), slice=_ast.Name(id="$uk", ctx=_ast.Load()), ctx=_ast.Store())], value=_ast.Name(id="$uv", ctx=_ast.Load()))
        loop = _ast.For(target=tgt, iter=_ast.Name(id="$upd_g", ctx=_ast.Load()), body=[store], orelse=[])
        for x in _ast.walk(loop):
            _ast.copy_location(x, c.e)
        _ast.fix_missing_locations(loop)
        for s2, k2, p2 in c.w.stmt(loop, s0):
            for nm in ("$upd_m", "$upd_g", "$uk", "$uv"):
                s2.env.pop(nm, None)
            c.outs.append((s2, "val", C(None)) if k2 == "fall" else (s2, k2, p2))
        return c.outs
    recv_check(c, own, name)
    if name in ("pop", "remove", "popitem", "__delitem__"):
        c.rz("KeyError", ".%s() of a missing key" % name, pure=False)
        c.rz("IndexError", ".%s() out of range" % name, pure=False)
        c.rz("ValueError", ".%s() of a missing element" % name, pure=False)
    if name in ("sort",):
        c.rz("TypeError", ".sort() of incomparable elements", pure=False)
    if name in ("add", "discard", "setdefault", "update", "__setitem__"):
        for a in c.args[:1]:
            at = c.types(a)
            if name != "update" and (at is None or not at <= HASHABLE):
                c.rz("TypeError", ".%s() of a possibly unhashable value" % name, [("nottype", a, HASHABLE)], pure=False)
    s1 = c.s.copy()
    s1.ev("mutcall", c.site, c.recv, name, tuple(c.args))
    c.ret(None if name in ("pop", "popitem", "setdefault") else C(None), pure=False, state=s1)


for _n in MUTATORS:
    if _n != "update":
        METHODS[_n] = (lambda n: (lambda c: _mutator(c, n)))(_n)


def m_hasher_update(c):
    x = c.args[0]
    c.need_type(x, BYTESLIKE, "TypeError", "hash update with a non-bytes value")
    s1 = c.s.copy()
    s1.ev("hash-update", c.site, c.recv, x)
    c.ret(C(None), pure=False, state=s1)


@method("update")
def m_update(c):
    ts = c.types(c.recv)
    if ts is not None and ts <= {"obj:hasher"}:
        return m_hasher_update(c)
    if ts is not None and ts <= {"dict", "set"}:
        return _mutator(c, "update")
    # unknown receiver: could be either; treat as mutation AND hashing (conservative)
    c.rz("AttributeError", "method .update() on a value that may not have it", [("nottype", c.recv, frozenset(["dict", "set", "obj:hasher"]))], pure=False)
    s1 = c.s.copy()
    s1.ev("mutcall", c.site, c.recv, "update", tuple(c.args))
    c.ret(C(None), pure=False, state=s1)


@method("finalize", "digest", "hexdigest")
def m_finalize(c):
    recv_check(c, frozenset(["obj:hasher"]), c.callee[7:])
    rt = "str" if c.callee.endswith("hexdigest") else "bytes"
    c.ret(None, ("type", c.term, frozenset([rt])), pure=False)


@method("verify")
def m_verify(c):
    ts = c.types(c.recv)
    if ts is None or not all(is_key_type(c.w, t) for t in ts):
        c.rz("AttributeError", "method .verify() on a value that may not be a public key", [("nottype", c.recv, key_type_names(c.w, "pub"))], pure=False)
    for a in c.args[:2]:
        at = c.types(a)
        if at is None or not at <= BYTESLIKE:
            c.rz("TypeError", "verify() with a non-bytes argument", [("nottype", a, BYTESLIKE)])
            break
    c.rz("InvalidSignature", "signature does not verify", origin="crypto")
    s1 = c.s.copy()
    s1.ev("crypto-verify", c.site, c.recv, tuple(c.args))
    c.ret(C(None), state=s1)


@method("sign")
def m_sign(c):
    ts = c.types(c.recv)
    if ts is None or not all(is_key_type(c.w, t) for t in ts):
        c.rz("AttributeError", "method .sign() on a value that may not be a private key", [("nottype", c.recv, key_type_names(c.w, "priv"))], pure=False)
    x = c.args[0] if c.args else None
    if x is not None:
        c.need_type(x, BYTESLIKE, "TypeError", "sign() of a non-bytes value")
    c.ret(None, ("type", c.term, frozenset(["bytes"])), ("eq", CallT("builtin:len", [c.term]), C(64)))


@method("public_key")
def m_public_key(c):
    ts = c.types(c.recv)
    if ts is None or not all(is_key_type(c.w, t) for t in ts):
        c.rz("AttributeError", "method .public_key() on a value that may not be a private key", [("nottype", c.recv, key_type_names(c.w, "priv"))], pure=False)
    c.ret(None, ("type", c.term, frozenset([ED_PUB])))


@method("public_bytes", "private_bytes", "public_bytes_raw", "private_bytes_raw")
def m_key_bytes(c):
    ts = c.types(c.recv)
    if ts is None or not all(is_key_type(c.w, t) for t in ts):
        c.rz("AttributeError", "key serialization on a value that may not be a key of that kind", [("nottype", c.recv, key_type_names(c.w, "pub" if c.callee[7:].startswith("public") else "priv"))], pure=False)
    else:
        # public keys have public_bytes(), private keys have private_bytes() - not the other way round
        own = key_type_names(c.w, "pub" if c.callee[7:].startswith("public") else "priv")
        if not ts <= own:
            other = key_type_names(c.w, "priv" if c.callee[7:].startswith("public") else "pub")
            c.rz("AttributeError", "%s() on a key object of the other kind" % c.callee[7:], [("type", c.recv, frozenset(other))], pure=False)
            if not (ts & own):
                return
    if not c.callee.endswith("_raw"):
        vals = list(c.args) + [v for _n, v in c.kwargs]
        if not all(v[0] in ("global", "call") for v in vals):
            c.rz("ValueError", "unsupported encoding/format combination")
            c.rz("TypeError", "bad encoding/format argument")
    raw = c.callee.endswith("_raw") or all("Raw" in str(v) or "NoEncryption" in str(v) for v in list(c.args) + [v for _n, v in c.kwargs])
    facts = [("type", c.term, frozenset(["bytes"]))]
    if raw:
        facts.append(("eq", CallT("builtin:len", [c.term]), C(32)))
    c.ret(None, *facts)


@method("read", "readline", "readlines")
def m_read(c):
    c.rz("OSError", "read failure", pure=False)
    mode = None
    h = c.recv
    if is_call(h, "builtin:open"):
        mode = h[2][1] if len(h[2]) > 1 else dict(h[3]).get("mode", C("r"))
    if not (mode is not None and is_const(mode) and "b" in str(mode[2])):
        c.rz("UnicodeDecodeError", "read of undecodable bytes in text mode", pure=False)
    if mode is not None and is_const(mode):
        rt = frozenset(["bytes" if "b" in str(mode[2]) else "str"])
    else:
        rt = frozenset(["bytes", "str"])  # a handle opened elsewhere: either kind
    c.ret(None, ("type", c.term, rt), pure=False, extra_event=("read", c.site, c.recv))


@method("write", "writelines")
def m_write(c):
    c.rz("OSError", "write failure", pure=False, origin="io-write")
    x = c.args[0]
    xt = c.types(x)
    if xt is None or not xt <= {"str", "bytes"}:
        c.rz("TypeError", "write() of a value that is neither str nor bytes", [("nottype", x, frozenset(["str", "bytes"]))], pure=False)
    s1 = c.s.copy()
    s1.ev("write", c.site, c.recv, x)
    c.ret(None, pure=False, state=s1)


@method("close", "flush", "seek", "truncate", "tell", "fileno")
def m_fileop(c):
    c.rz("OSError", "file operation failure", pure=False)
    s1 = c.s.copy()
    if c.callee.endswith(("truncate",)):
        s1.ev("fs-mutation", c.site, c.callee, (c.recv,))
    c.ret(None, pure=False, state=s1)


@method("isoformat", "strftime", "timestamp", "date", "time", "utcoffset", "astimezone", "total_seconds")
def m_dt(c):
    ts = c.types(c.recv)
    if ts is None or not all(t.startswith("obj:datetime.") for t in ts):
        c.rz("AttributeError", "datetime method on a value that may not be a datetime", [("nottype", c.recv, frozenset(["obj:datetime.datetime"]))], pure=False)
    rt = {"isoformat": "str", "strftime": "str", "timestamp": "float", "total_seconds": "float"}.get(c.callee[7:])
    facts = [("type", c.term, frozenset([rt]))] if rt else [("type", c.term, ts)] if ts else []
    c.ret(None, *facts)


@method("to_bytes")
def m_to_bytes(c):
    recv_check(c, frozenset(["int", "bool"]), "to_bytes")
    n = c.arg(0, "length")
    a5 = is_call(c.recv, "builtin:len") and is_const(n) and n[2] >= 4
    if not a5:
        c.rz("OverflowError", "int too big to convert")
    else:
        c.s = c.s.copy()
        c.s.ev("assume", c.site, "A5", "length of a byte string fits 32 bits")
    c.ret(None, ("type", c.term, frozenset(["bytes"])))


@method("from_bytes")
def m_from_bytes_int(c):
    c.ret(None, ("type", c.term, frozenset(["int"])))


def _opaque_obj_method(c):
    """methods of library objects the analysis treats as opaque (argparse parsers, loggers)"""
    c.ret(None, pure=False)


def apply_method(w, e, mname, recv, args, kwargs, s):
    c = Ctx(w, e, "method:" + mname, args, kwargs, s, recv=recv)
    ts = s.types(recv)
    if ts is None and isinstance(recv, tuple) and len(recv) == 2 and recv[0] == "global" and recv[1].startswith("const:"):
        # a module-level library object: logger = logging.getLogger(__name__)
        lit = w.eng.const_literal(recv[1][6:])
        if lit is not None and is_call(lit, ("ext:logging.getLogger", "ext:logging.Logger")):
            ts = frozenset(["obj:logger"])
        if lit is not None and is_call(lit, "ext:struct.Struct"):
            recv = lit
    if is_call(recv, "ext:struct.Struct") and mname == "pack" and recv[2]:
        # Struct(fmt).pack(*values) == struct.pack(fmt, *values)
        return apply_ext(w, e, "struct.pack", (recv[2][0],) + tuple(args), kwargs, s)
    if is_call(recv, "ext:struct.Struct") and mname == "size":
        c.ret(None, ("type", c.term, frozenset(["int"])))
        return c.outs
    # library objects
    if ts is not None and ts <= {"obj:argparse"}:
        if mname == "parse_args":
            c.rz("SystemExit", "argparse exits on bad arguments / --help", pure=False, origin="argparse")
            c.ret(None, pure=False)
        elif mname in ("exit", "error"):
            # ArgumentParser.exit(status=0, message=None) / .error(message) -> SystemExit(status / 2)
            status = C(2) if mname == "error" else (c.arg(0, "status") or C(0))
            s1 = s.copy()
            s1.ev("exit", c.site, status)
            s1.ev("call", c.site, c.callee, (recv,) + tuple(args), tuple(kwargs), ("raise", "SystemExit"))
            c.outs.append((s1, "raise", Exc("SystemExit", [c.site], (), "explicit", "ArgumentParser.%s()" % mname)))
        elif mname in ("add_subparsers", "add_parser", "add_argument_group", "add_mutually_exclusive_group"):
            c.ret(None, ("type", c.term, frozenset(["obj:argparse"])), pure=False)
        else:
            s1 = s.copy()
            if mname == "set_defaults":
                s1.ev("registry", c.site, recv, tuple(kwargs))
            c.ret(None, pure=False, state=s1)
        return c.outs
    if ts is not None and ts and all(t.startswith("obj:datetime.") for t in ts) and mname == "replace":
        s1 = s.copy()
        c.ret(None, ("type", c.term, ts), state=s1)
        return c.outs
    if recv[0] == "excobj" or (ts is not None and ts <= {"obj:logger"}):
        c.ret(None, pure=False)
        return c.outs
    fn = METHODS.get(mname)
    if fn is None:
        if ts is None or not all(t in _ATTRS for t in ts):
            # an attribute of an object the analysis knows nothing about, called as a function
            # (args.func(args)): a dynamic call through the attribute's value
            from .calls import call_value

            return call_value(w, e, ("attr", recv, mname), args, kwargs, s)
        if not any(mname in _ATTRS[t] for t in ts):
            c.rz("AttributeError", "method .%s() does not exist on %s" % (mname, sorted(ts)), pure=False)
            return c.outs
        return unknown_callable(c, "method .%s()" % mname)
    fn(c)
    return c.outs


@method("pack_into", "readinto", "readinto1", "recv_into", "recvfrom_into")
def m_write_into(c):
    """S.pack_into(buffer, offset, ...) / f.readinto(buffer): the buffer argument is written"""
    c.rz("Exception", "%s() may fail" % c.callee[7:], pure=False, origin="dynamic")
    s1 = c.s.copy()
    if c.args:
        s1.ev("mutcall", c.site, c.args[0], c.callee[7:], tuple(c.args[1:]))
    c.ret(C(None), pure=False, state=s1)


@method("read_text", "read_bytes")
def m_path_read(c):
    c.rz("OSError", "reading a file may fail", pure=False)
    if c.callee.endswith("read_text"):
        c.rz("UnicodeDecodeError", "read_text() of bytes that are not text in the chosen encoding", pure=False)
    s1 = c.s.copy()
    s1.ev("ambient", c.site, "builtin:open")
    if c.callee.endswith("read_text") and not any(n == "encoding" for n, _v in c.kwargs) and not c.args:
        # the default encoding is the locale's
        s1.ev("ambient", c.site, "ext:locale.getpreferredencoding")
    c.ret(None, ("type", c.term, frozenset(["str" if c.callee.endswith("read_text") else "bytes"])), pure=False, state=s1)


@method("write_bytes", "write_text")
def m_path_write(c):
    c.rz("OSError", "writing a file may fail", pure=False, origin="io-write")
    s1 = c.s.copy()
    path = c.recv[2][0] if is_call(c.recv, ("ext:pathlib.Path", "ext:pathlib.PurePath")) and c.recv[2] else c.recv
    s1.ev("fs-mutation", c.site, c.callee, (path,) + tuple(c.args))
    c.ret(None, pure=False, state=s1)


@ext("inspect.signature")
def x_inspect_signature(c):
    """inspect.signature(f) of a repository function: a value whose bind() the analysis unfolds"""
    f = c.args[0] if c.args else None
    if f is None or not (isinstance(f, tuple) and ((f[0] == "rawfunc" and len(f) == 2) or (f[0] == "global" and f[1].startswith("func:")))):
        c.rz("TypeError", "signature() of a value that may not be callable", pure=False)
        c.rz("ValueError", "signature() of a callable without a signature", pure=False)
    c.ret()


def signature_function(w, sig):
    """FuncInfo of the repository function a `inspect.signature(f)` term describes"""
    if not (is_call(sig, "ext:inspect.signature") and len(sig[2]) == 1):
        return None
    f = sig[2][0]
    if isinstance(f, tuple) and f[0] == "rawfunc" and len(f) == 2:
        return w.prog.funcs.get(f[1])
    if isinstance(f, tuple) and f[0] == "global" and f[1].startswith("func:"):
        return w.prog.funcs.get(f[1][5:])
    return None


@method("bind", "bind_partial")
def m_signature_bind(c):
    """Signature.bind(*args, **kwargs): a BoundArguments whose .arguments maps the names of the
    parameters that received an explicit argument to those arguments"""
    from .calls import bind_params

    fi = signature_function(c.w, c.recv)
    if fi is None:
        # a signature the analysis cannot see (a closure variable of a wrapper analysed on its
        # own): a dynamic call
        val = ("attr", c.recv, c.callee[7:])
        t = CallT("dynamic", [val] + list(c.args), c.kwargs)
        s1 = c.s.copy()
        s1.ev("call", c.site, "dynamic", (val,) + tuple(c.args), tuple(c.kwargs), ("raise", "Exception"))
        c.outs.append((s1, "raise", Exc("Exception", [c.site], [("notok", t)], "dynamic", "call through an unresolved value")))
        s2 = c.s.copy()
        s2.ev("call", c.site, "dynamic", (val,) + tuple(c.args), tuple(c.kwargs), ("ok", t))
        c.outs.append((s2, "val", t))
        return
    mp, names = bind_params(c.w, c.e, fi, tuple(c.args), tuple(c.kwargs), False)
    if mp is None:
        c.rz("TypeError", "Signature.bind(): %s" % names)
        return
    explicit = set(fi.params()[: len(c.args)]) | {n for n, _v in c.kwargs}
    pairs = tuple((C(n), mp[n]) for n in names if n in explicit or (n.startswith("*") and mp[n][2]))
    pairs = tuple((C(k[2].lstrip("*")), v) for k, v in pairs)
    c.ret(("nt", "inspect.BoundArguments", (("lit", "dict", pairs, None),)))


@ext("os.open")
def x_os_open(c):
    """os.open(path, flags[, mode]): a file descriptor (an int) - handed to open() it names that file"""
    c.rz("OSError", "os.open() may fail", pure=False)
    path = c.arg(0, "path")
    pt = c.types(path)
    if pt is None or not pt <= {"str", "bytes"}:
        c.rz("TypeError", "os.open() of a non-path value", [("nottype", path, frozenset(["str", "bytes"]))], pure=False)
    c.ret(None, ("type", c.term, frozenset(["int"])), pure=False)


@ext("math.isfinite", "math.isnan", "math.isinf")
def x_isfinite(c):
    """math.isfinite/isnan/isinf(x): x is converted to a C double first - TypeError for a value that is
    not a real number, OverflowError for an int beyond the float range"""
    x = c.arg(0, "x")
    ts = c.types(x) if x is not None else None
    if ts is None or not ts <= {"int", "float", "bool"}:
        c.rz("TypeError", "%s() of a value that is not a real number" % c.callee[4:], [("nottype", x, frozenset(["int", "float", "bool"]))])
    if ts is None or "int" in ts:
        c.rz("OverflowError", "int too large to convert to float", [("type", x, frozenset(["int"]))])
    c.ret(C(True), pure=False)
    c.ret(C(False), pure=False)


@ext("os.fsync", "os.fdatasync")
def x_fsync(c):
    """os.fsync(fd): flushes the file to disk; OSError if that fails"""
    c.rz("OSError", "fsync failure", pure=False)
    c.ret(C(None), pure=False)


@ext("os.fspath")
def x_fspath(c):
    """os.fspath(p): p itself when it is a str or bytes, p.__fspath__() for path objects, TypeError otherwise"""
    path = c.arg(0, "path")
    pt = c.types(path) if path is not None else None
    if pt is not None and pt <= {"str", "bytes"}:
        c.ret(None, ("eq", c.term, path), ("type", c.term, pt))
        return
    c.rz("TypeError", "os.fspath() of a value that is not a path", [("nottype", path, frozenset(["str", "bytes"]))])
    c.ret(None, ("type", c.term, frozenset(["str", "bytes"])))


@ext("struct.unpack", "struct.unpack_from")
def x_unpack(c):
    """struct.unpack(fmt, buffer) / unpack_from(fmt, buffer[, offset]) with a constant format:
    struct.error unless the buffer is long enough (unpack: exactly as long); a tuple of the
    format's item count"""
    import struct as _struct

    fmt = c.arg(0, "format")
    buf = c.arg(1, "buffer")
    off = c.arg(2, "offset")
    size = count = None
    if fmt is not None and is_const(fmt) and isinstance(fmt[2], (str, bytes)):
        try:
            size = _struct.calcsize(fmt[2])
            count = len(_struct.unpack(fmt[2], bytes(size)))
        except _struct.error:
            size = None
    bt = c.types(buf) if buf is not None else None
    if bt is None or not bt <= {"bytes", "bytearray", "memoryview"}:
        c.rz("TypeError", "%s() of a value that is not bytes-like" % c.callee[4:], [("nottype", buf, frozenset(["bytes"]))])
    long_enough = False
    if size is not None and buf is not None and c.callee.endswith("unpack_from") and (off is None or (is_const(off) and off[2] == 0)):
        ln = CallT("builtin:len", [buf])
        for f in c.s.closure():
            if f[0] == "cmp" and f[2] == ln and is_const(f[3]) and isinstance(f[3][2], int) and ((f[1] == ">=" and f[3][2] >= size) or (f[1] == ">" and f[3][2] >= size - 1)):
                long_enough = True
            if f[0] == "eq" and f[1] == ln and is_const(f[2]) and isinstance(f[2][2], int) and f[2][2] >= size:
                long_enough = True
    if not long_enough:
        c.rz("struct.error", "%s() of a buffer of the wrong size" % c.callee[4:])
    if count is not None:
        items = tuple(Fresh("unpacked") for _ in range(count))
        s1 = c.s.copy()
        for it in items:
            s1.add(("type", it, frozenset(["int", "bytes", "float", "bool"])))
        c.ret(("lit", "tuple", items, None), state=s1)
    else:
        c.ret(None, ("type", c.term, frozenset(["tuple"])))


@ext("os.fdopen")
def x_fdopen(c):
    """os.fdopen(fd, mode): a file object around a descriptor (open(fd, mode))"""
    c.rz("OSError", "os.fdopen() may fail", pure=False)
    c.ret(None, ("type", c.term, frozenset(["obj:file"])), pure=False)


@ext("os.dup2", "os.dup", "os.close")
def x_os_fd(c):
    """descriptor plumbing: may fail, changes process-wide descriptor state"""
    c.rz("OSError", "%s() may fail" % c.callee[4:], pure=False)
    s1 = c.s.copy()
    s1.ev("store", c.site, G("ext:os.<descriptor table>"), c.args[0] if c.args else C(None))
    c.ret(None, ("type", c.term, frozenset(["int", "NoneType"])), pure=False, state=s1)


@ext("sys.stdout.fileno", "sys.stderr.fileno", "sys.stdin.fileno")
def x_std_fileno(c):
    c.rz("OSError", "fileno() of a stream without a descriptor", pure=False)
    c.ret(None, ("type", c.term, frozenset(["int"])), pure=False)


@ext("sys.stdout.flush", "sys.stderr.flush")
def x_std_flush(c):
    c.rz("OSError", "flush() of a closed pipe (BrokenPipeError)", pure=False)
    c.ret(C(None), pure=False)


@ext("glob.glob", "glob.iglob", "os.scandir", "os.walk", "fnmatch.filter")
def x_glob(c):
    """directory listings: what they return is the state of the file system (in an order the
    file system chooses)"""
    c.rz("OSError", "%s() may fail" % c.callee[4:], pure=False)
    c.ret(None, ("type", c.term, frozenset(["list"])), pure=False, extra_event=("ambient", c.site, c.callee))
