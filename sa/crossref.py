"""Generic cross-reference (informational, never the verdict): the only 'default lints'
available offline - compile() of every module with SyntaxWarning promoted to an error, and a
symtable pass for names that are read but bound in no enclosing scope, module or builtins."""
from __future__ import annotations

import builtins
import symtable
import warnings


def crossref(prog):
    out = {"modules_compiled": 0, "syntax_warnings": [], "possibly_undefined_names": []}
    for m in prog.modules.values():
        with warnings.catch_warnings():
            warnings.simplefilter("error", SyntaxWarning)
            try:
                compile(m.source, m.relpath, "exec", dont_inherit=True)
                out["modules_compiled"] += 1
            except SyntaxWarning as w:
                out["syntax_warnings"].append("%s: %s" % (m.relpath, w))
            except SyntaxError as e:
                out["syntax_warnings"].append("%s: %s" % (m.relpath, e))
                continue
        try:
            top = symtable.symtable(m.source, m.relpath, "exec")
        except SyntaxError:
            continue
        module_names = {s.get_name() for s in top.get_symbols() if s.is_assigned() or s.is_imported() or s.is_namespace()}

        def visit(tab, enclosing):
            bound = {s.get_name() for s in tab.get_symbols() if s.is_assigned() or s.is_imported() or s.is_parameter() or s.is_namespace()}
            for s in tab.get_symbols():
                n = s.get_name()
                if s.is_referenced() and not (s.is_assigned() or s.is_imported() or s.is_parameter() or s.is_namespace()):
                    if n not in enclosing and n not in module_names and not hasattr(builtins, n) and n not in ("__file__", "__name__", "__doc__", "__class__"):
                        out["possibly_undefined_names"].append("%s:%s %s" % (m.relpath, tab.get_name(), n))
            for ch in tab.get_children():
                visit(ch, enclosing | bound)

        visit(top, set())
    out["possibly_undefined_names"] = sorted(set(out["possibly_undefined_names"]))
    return out
