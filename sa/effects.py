"""E6 - effect analysis: write sets on parameters (interprocedural), module-level state,
caching constructs, ambient reads.  Built on the walker's events (stores, dels, mutating
method calls, global declarations, ambient calls) closed over resolved repo calls."""
from __future__ import annotations

import ast

from .terms import access_path, is_lit, root_of, show
from .walker import flatten_events

DECORATOR_WHITELIST = {"classmethod", "staticmethod", "property", "abstractmethod", "abc.abstractmethod", "overload", "typing.overload", "conda.plugins.hookimpl", "contextmanager", "contextlib.contextmanager", "dataclass", "dataclasses.dataclass", "functools.wraps", "wraps", "enum.unique", "unique", "functools.total_ordering", "total_ordering", "typing.final", "final", "typing.runtime_checkable", "runtime_checkable"}
MUTATING_EXTERNALS = {"ext:random.shuffle": [0], "ext:json.dump": [1], "ext:heapq.heappush": [0], "ext:heapq.heappop": [0], "ext:bisect.insort": [0]}


def all_events(events):
    """every event of a path, descending into loop bodies and inlined callees"""
    for ev, _d in flatten_events(events):
        yield ev
        if ev[0] in ("loop", "while"):
            bodies = ev[4] if ev[0] == "loop" else ev[2]
            for bp in bodies:
                yield from all_events(bp[2])


def summary_events(sm):
    seen = set()
    for p in sm.paths:
        for ev in all_events(p.events):
            k = (ev[0], ev[1] if len(ev) > 1 else None, repr(ev[2:4])[:200])
            if k in seen:
                continue
            seen.add(k)
            yield ev


class Effects:
    def __init__(self, eng):
        self.eng = eng
        self.prog = eng.prog
        self._pw = {}
        self._amb = {}
        self._gw = {}
        self._stack = set()

    # ------------------------------------------------------------------ helpers
    def bindings(self, fi):
        """class bindings to analyse a function under: [None] or the concrete subclasses"""
        if fi.cls is None or not fi.is_classmethod:
            return [None]
        cq = fi.mod.short + "." + fi.cls
        subs = [q for q in self.prog.classes if ("repo", cq) in self.prog.mro(q)]
        leaves = [q for q in subs if not any(q != o and ("repo", q) in self.prog.mro(o) for o in subs)]
        return leaves or [cq]

    def _callee(self, ev):
        c = ev[2]
        if c.startswith("repo:") and c in self.eng.callee_index:
            return self.eng.callee_index[c]
        return None

    # ------------------------------------------------------------------ parameter write sets
    def param_writes(self, fi, clsbind=None):
        """set of (param name, steps tuple, kind, Site, via) written by fi (transitively)"""
        key = (fi.qualname, clsbind)
        if key in self._pw:
            return self._pw[key]
        if key in self._stack:
            return set()
        self._stack.add(key)
        out = set()
        sm = self.eng.summary(fi, clsbind)
        params = set(sm.params) | {a.arg for a in fi.node.args.kwonlyargs}
        for ev in summary_events(sm):
            k = ev[0]
            if k in ("store", "del"):
                self._record(out, ev[2], k, ev[1], params, None)
            elif k == "mutcall":
                self._record(out, ev[2], "." + ev[3] + "()", ev[1], params, None)
            elif k == "call":
                callee = self._callee(ev)
                if callee is not None:
                    cfi, cbind, order = callee
                    for (pname, steps, kind, site, via) in self.param_writes(cfi, cbind):
                        if pname in order and order.index(pname) < len(ev[3]):
                            arg = ev[3][order.index(pname)]
                            self._record(out, arg, kind, ev[1], params, (cfi.qualname, site), steps)
                elif ev[2] in MUTATING_EXTERNALS:
                    for i in MUTATING_EXTERNALS[ev[2]]:
                        if i < len(ev[3]):
                            self._record(out, ev[3][i], "mutating external " + ev[2][4:], ev[1], params, None)
        self._stack.discard(key)
        self._pw[key] = out
        return out

    def _record(self, out, target, kind, site, params, via, extra_steps=()):
        root, steps = access_path(target)
        if root[0] == "param" and root[1] in params:
            out.add((root[1], tuple(steps) + tuple(extra_steps), kind, site, via))

    # ------------------------------------------------------------------ module-level state
    def global_writes(self, fi, clsbind=None):
        """(target description, kind, Site) for stores whose root is a module / class / function /
        module constant, or a name declared global (own events only)"""
        key = (fi.qualname, clsbind)
        if key in self._gw:
            return self._gw[key]
        out = []
        sm = self.eng.summary(fi, clsbind)
        for ev in summary_events(sm):
            k = ev[0]
            tgt = None
            if k in ("store", "del"):
                tgt, kind = ev[2], k
            elif k == "mutcall":
                tgt, kind = ev[2], "." + ev[3] + "()"
            elif k == "global-decl":
                out.append(("global " + ", ".join(ev[2]), "global declaration", ev[1]))
                continue
            if tgt is None:
                continue
            root = root_of(tgt)
            if root[0] == "global" and root[1].startswith(("module:", "const:", "class:", "func:", "ext:")):
                out.append((show(tgt), kind, ev[1]))
            elif root[0] == "closure":
                out.append((show(tgt), kind, ev[1]))
        self._gw[key] = out
        return out

    # ------------------------------------------------------------------ ambient reads
    def ambient(self, fi, clsbind=None):
        """(what, Site, via chain) for ambient reads reachable from fi: clock, environment,
        randomness, locale, filesystem reads (open / file read), stdin"""
        key = (fi.qualname, clsbind)
        if key in self._amb:
            return self._amb[key]
        if key in self._stack:
            return []
        self._stack.add(key)
        out = []
        sm = self.eng.summary(fi, clsbind)
        for ev in summary_events(sm):
            if ev[0] == "ambient" and ev[2] == "ext:warnings.filters" and not any(p.kind == "raise" and p.value.origin == "ambient-filter" and ev[1] in p.value.chain for p in sm.paths):
                # warnings.warn(): the filter decides between printing, nothing, and raising the
                # category - and here the raise never leaves the function (caught on the spot):
                # nothing the caller can observe in the result depends on the filter
                continue
            if ev[0] == "ambient":
                out.append((ev[2], ev[1], (fi.qualname,)))
            elif ev[0] == "call" and ev[2] == "builtin:open":
                out.append(("builtin:open", ev[1], (fi.qualname,)))
            elif ev[0] == "call":
                callee = self._callee(ev)
                if callee is not None:
                    for what, site, via in self.ambient(callee[0], callee[1]):
                        out.append((what, site, (fi.qualname,) + via))
        self._stack.discard(key)
        # dedupe
        seen, res = set(), []
        for what, site, via in out:
            if (what, site) not in seen:
                seen.add((what, site))
                res.append((what, site, via))
        self._amb[key] = res
        return res


# ---------------------------------------------------------------------- syntactic scans
def decorators(prog, modules):
    """(FuncInfo, decorator text, resolved dotted or None)"""
    out = []
    for q, fi in prog.funcs.items():
        if fi.mod.short not in modules:
            continue
        for d in fi.node.decorator_list:
            node = d.func if isinstance(d, ast.Call) else d
            txt = ast.unparse(node)
            r = prog.resolve_expr_static(fi.mod, node)
            dotted = r[1] if r and r[0] in ("ext", "builtin", "repo") else None
            out.append((fi, txt, dotted))
    for q, ci in prog.classes.items():
        if ci.mod.short not in modules:
            continue
        for d in ci.node.decorator_list:
            node = d.func if isinstance(d, ast.Call) else d
            out.append((ci, ast.unparse(node), None))
    return out


def repo_decorator_is_stateless(prog, mod, node):
    """is the decorator expression `node` (a repo function, or a call of a repo decorator factory)
    free of state shared between calls of the decorated function?  The wrapper(s) it builds may
    keep no container created in an enclosing scope that they also modify, declare nothing
    nonlocal/global, and have no mutable default.  None: not a repo-defined decorator."""
    target = node.func if isinstance(node, ast.Call) else node
    r = prog.resolve_expr_static(mod, target)
    if not r or r[0] != "func" or r[1] not in prog.funcs:
        return None
    fi = prog.funcs[r[1]]
    muts = {"append", "extend", "insert", "pop", "popitem", "remove", "clear", "update", "setdefault", "add", "discard", "sort", "reverse", "__setitem__", "move_to_end"}
    outer_mut = set()  # names bound to fresh mutable containers in an enclosing function
    bad = []

    def scan(fn_node, enclosing):
        own = set()
        for x in ast.walk(fn_node):
            if isinstance(x, (ast.Nonlocal, ast.Global)):
                bad.append("declares %s" % ", ".join(x.names))
        a = fn_node.args
        for d in list(a.defaults) + [k for k in a.kw_defaults if k is not None]:
            if isinstance(d, (ast.List, ast.Dict, ast.Set)):
                bad.append("mutable default argument")
        for st in ast.walk(fn_node):
            if isinstance(st, ast.Assign) and len(st.targets) == 1 and isinstance(st.targets[0], ast.Name):
                v = st.value
                if isinstance(v, (ast.List, ast.Dict, ast.Set, ast.ListComp, ast.DictComp, ast.SetComp)) or (isinstance(v, ast.Call) and ast.unparse(v.func) in ("dict", "list", "set", "defaultdict", "collections.defaultdict", "OrderedDict", "collections.OrderedDict", "deque", "collections.deque")):
                    own.add(st.targets[0].id)
        for inner in [n for n in ast.walk(fn_node) if isinstance(n, (ast.FunctionDef, ast.Lambda)) and n is not fn_node]:
            local = {x.arg for x in inner.args.args + inner.args.kwonlyargs}
            for x in ast.walk(inner):
                nm = None
                if isinstance(x, ast.Subscript) and isinstance(x.ctx, (ast.Store, ast.Del)) and isinstance(x.value, ast.Name):
                    nm = x.value.id
                elif isinstance(x, ast.Call) and isinstance(x.func, ast.Attribute) and x.func.attr in muts and isinstance(x.func.value, ast.Name):
                    nm = x.func.value.id
                elif isinstance(x, ast.AugAssign) and isinstance(x.target, ast.Name):
                    nm = x.target.id
                if nm and nm not in local and nm in (own | enclosing):
                    bad.append("a wrapper modifies %s, which lives across calls" % nm)

    scan(fi.node, set())
    return (not bad, "; ".join(sorted(set(bad))))


def mutable_defaults(prog, modules):
    out = []
    for q, fi in prog.funcs.items():
        if fi.mod.short not in modules:
            continue
        a = fi.node.args
        for d in list(a.defaults) + [x for x in a.kw_defaults if x is not None]:
            if isinstance(d, (ast.List, ast.Dict, ast.Set, ast.ListComp, ast.DictComp, ast.SetComp)) or (isinstance(d, ast.Call) and ast.unparse(d.func) in ("dict", "list", "set", "collections.defaultdict", "defaultdict", "OrderedDict", "collections.OrderedDict")):
                out.append((fi, prog.site(fi.mod, d, q)))
    return out


_MUTATORS = ("append", "extend", "insert", "add", "update", "clear", "pop", "popitem", "remove", "discard", "setdefault", "sort", "reverse", "appendleft", "__setitem__", "__delitem__")


def shared_class_attributes(prog, modules):
    """class-level names bound to a mutable display / constructor in a class body that some code of
    the package changes *in place* through an attribute access (x.name.append(..), x.name[k] = v,
    x.name += ..), while __init__ never rebinds self.name: one object shared by every instance of
    the class (and by every thread).  -> [(class qualname, name, Site of the mutation, text)]"""
    out = []
    for short in modules:
        m = prog.by_short.get(short)
        if m is None:
            continue
        for cnode in [n for n in ast.walk(m.tree) if isinstance(n, ast.ClassDef)]:
            shared = {}
            for st in cnode.body:
                tg = None
                if isinstance(st, ast.Assign) and len(st.targets) == 1 and isinstance(st.targets[0], ast.Name):
                    tg, v = st.targets[0].id, st.value
                elif isinstance(st, ast.AnnAssign) and isinstance(st.target, ast.Name) and st.value is not None:
                    tg, v = st.target.id, st.value
                if tg and (isinstance(v, (ast.List, ast.Dict, ast.Set, ast.ListComp, ast.DictComp, ast.SetComp)) or (isinstance(v, ast.Call) and ast.unparse(v.func) in ("dict", "list", "set", "bytearray", "collections.defaultdict", "defaultdict", "OrderedDict", "collections.OrderedDict", "collections.deque", "deque", "Counter", "collections.Counter"))):
                    shared[tg] = st
            if not shared:
                continue
            rebound = set()
            for fn in cnode.body:
                if isinstance(fn, ast.FunctionDef) and fn.name in ("__init__", "__post_init__", "__new__"):
                    for x in ast.walk(fn):
                        if isinstance(x, (ast.Assign, ast.AnnAssign)):
                            for t in (x.targets if isinstance(x, ast.Assign) else [x.target]):
                                if isinstance(t, ast.Attribute) and isinstance(t.value, ast.Name) and t.attr in shared:
                                    rebound.add(t.attr)
            for name in sorted(set(shared) - rebound):
                for x in ast.walk(m.tree):
                    hit = None
                    if isinstance(x, ast.Call) and isinstance(x.func, ast.Attribute) and x.func.attr in _MUTATORS and isinstance(x.func.value, ast.Attribute) and x.func.value.attr == name:
                        hit = x
                    elif isinstance(x, (ast.Assign, ast.AugAssign, ast.Delete)):
                        for t in (x.targets if isinstance(x, (ast.Assign, ast.Delete)) else [x.target]):
                            if isinstance(t, ast.Subscript) and isinstance(t.value, ast.Attribute) and t.value.attr == name:
                                hit = x
                            elif isinstance(x, ast.AugAssign) and isinstance(t, ast.Attribute) and t.attr == name:
                                hit = x
                    if hit is not None:
                        out.append((cnode.name, name, prog.site(m, hit, m.short + "." + cnode.name), ast.unparse(hit)[:70]))
    return out


def module_mutables(prog, modules):
    """module-level names bound to mutable displays / constructor calls: (module, name, Site, kind)"""
    out = []
    for short in modules:
        m = prog.by_short.get(short)
        if m is None:
            continue
        for name, vals in m.consts.items():
            for v in vals:
                kind = None
                if isinstance(v, (ast.List, ast.ListComp)):
                    kind = "list"
                elif isinstance(v, (ast.Dict, ast.DictComp)):
                    kind = "dict"
                elif isinstance(v, (ast.Set, ast.SetComp)):
                    kind = "set"
                elif isinstance(v, ast.Call) and ast.unparse(v.func) in ("dict", "list", "set", "bytearray", "array", "array.array", "deque", "collections.deque", "Counter", "collections.Counter", "defaultdict", "collections.defaultdict", "OrderedDict", "collections.OrderedDict", "WeakValueDictionary", "weakref.WeakValueDictionary", "threading.local", "local", "io.BytesIO", "BytesIO", "io.StringIO", "StringIO"):
                    kind = ast.unparse(v.func)
                elif isinstance(v, ast.GeneratorExp):
                    kind = "one-shot iterator (generator expression)"
                elif isinstance(v, ast.Call) and ast.unparse(v.func) in ONE_SHOT:
                    kind = "one-shot iterator (%s)" % ast.unparse(v.func)
                if kind:
                    out.append((m, name, prog.site(m, v, short + ".<module>"), kind))
    return out


# constructors whose result is consumed by iterating it: a module-level value of this kind is
# state that the first use changes for every later use
ONE_SHOT = {"zip", "map", "filter", "iter", "enumerate", "reversed", "open", "itertools.chain", "chain", "itertools.islice", "islice", "itertools.product", "product", "itertools.zip_longest", "zip_longest", "itertools.starmap", "starmap", "itertools.cycle", "cycle", "itertools.count", "count"}


def name_uses(prog, modname, name):
    """every syntactic use of module-level `name` of module `modname` across the package:
    (module, function qualname or None, node, context) with context in
    read-membership / read-other / mutated"""
    out = []
    muts = {"append", "extend", "insert", "pop", "popitem", "remove", "clear", "update", "setdefault", "add", "discard", "sort", "reverse", "__setitem__"}
    for m in prog.modules.values():
        r = prog.resolve_name(m, name)
        if not (r[0] == "const" and r[1] == modname and r[2] == name):
            continue
        parents = {}
        for n in ast.walk(m.tree):
            for ch in ast.iter_child_nodes(n):
                parents[ch] = n
        for n in ast.walk(m.tree):
            if isinstance(n, ast.Name) and n.id == name:
                par = parents.get(n)
                ctx = "read-other"
                if isinstance(n.ctx, ast.Store):
                    if isinstance(par, (ast.Assign, ast.AnnAssign)) and parents.get(par) is m.tree:
                        continue  # the defining assignment
                    ctx = "mutated"
                elif isinstance(par, ast.Compare) and n in par.comparators and all(isinstance(o, (ast.In, ast.NotIn)) for o in par.ops):
                    ctx = "read-membership"
                elif isinstance(par, ast.Subscript) and par.value is n and isinstance(par.ctx, (ast.Store, ast.Del)):
                    ctx = "mutated"
                elif isinstance(par, ast.Attribute) and par.value is n and par.attr in muts and isinstance(parents.get(par), ast.Call):
                    ctx = "mutated"
                elif isinstance(par, ast.AugAssign) and par.target is n:
                    ctx = "mutated"
                elif isinstance(par, ast.Call) and n in par.args and isinstance(par.func, ast.Attribute) and par.func.attr in ("pack_into", "readinto", "readinto1", "recv_into", "recvfrom_into", "shuffle", "heappush", "heappop", "heapify", "insort", "dump"):
                    ctx = "mutated"  # handed to a call that writes into its argument
                elif isinstance(par, ast.alias):
                    continue
                out.append((m, n, ctx))
    return out
