"""Engine facade: program + summary cache + helpers shared by rules."""
from __future__ import annotations

import ast

from . import AnalysisError
from .calls import build_summary
from .model import Program
from .terms import C, Fresh, G
from .walker import State, Walker


class Engine:
    def __init__(self, root="/repo", overlay=None):
        self.prog = Program(root, overlay)
        self._summaries = {}
        self._in_progress = []
        self._const_lit = {}
        self.stats = {"functions_walked": 0, "paths": 0, "calls_resolved": 0}
        self._imports = None
        self.callee_index = {}
        self.unknown_calls = {}

    @property
    def imports(self):
        if self._imports is None:
            from .imports import ImportClosure

            self._imports = ImportClosure(self.prog)
        return self._imports

    # -- summaries (bottom-up on demand; recursion is an analysis error)
    def summary(self, fi, clsbind=None, inline=frozenset()):
        key = (fi.qualname, clsbind, frozenset(inline))
        sm = self._summaries.get(key)
        if sm is not None:
            return sm
        if key in self._in_progress:
            raise AnalysisError("recursive call cycle through %s: %s" % (fi.qualname, " -> ".join(k[0] for k in self._in_progress)))
        self._in_progress.append(key)
        try:
            sm = build_summary(self, fi, clsbind, frozenset(inline))
        finally:
            self._in_progress.pop()
        self._summaries[key] = sm
        self.stats["functions_walked"] += 1
        self.stats["paths"] += sm.npaths
        return sm

    def walk(self, qualname, clsbind=None, inline=frozenset()):
        """summary of an anchor function by qualified name (vanished anchor -> AnalysisError)"""
        return self.summary(self.prog.func(qualname), clsbind, inline)

    def repo_call(self, qualname, *args, clsbind=None):
        """the term of a call of an anchor function (registers it for expand())"""
        from .terms import CallT

        fi = self.prog.func(qualname)
        callee = "repo:" + qualname + ("[" + clsbind.split(".")[-1] + "]" if clsbind else "")
        names = fi.params()
        if fi.cls and not fi.is_staticmethod and fi.is_classmethod:
            names = names[1:]
        self.callee_index.setdefault(callee, (fi, clsbind, tuple(names)))
        return CallT(callee, args)

    # -- expansion of repo call terms to primitive level
    def expand(self, t, depth=0):
        """replace every repo call term whose callee returns one param-rooted value on all
        its normal paths by that value (recursively): rules can then be stated over
        primitives (json.dumps, unhexlify, from_public_bytes ...) instead of helper names"""
        from .terms import P, is_call, subst

        if depth > 8 or not isinstance(t, tuple):
            return t
        if is_call(t) and t[1].startswith("repo:") and t[1] in self.callee_index:
            fi, clsbind, order = self.callee_index[t[1]]
            sm = self.summary(fi, clsbind)
            g = sm.groups.get("other")
            args = tuple(self.expand(a, depth + 1) for a in t[2])
            if g is not None and g["value"] is not None and len(sm.groups) == 1:
                v = subst(g["value"], {P(n): a for n, a in zip(order, args)})
                return self.expand(v, depth + 1)
            pg = [rk for rk in sm.groups if isinstance(rk, tuple) and rk[0] == "param"]
            if len(sm.groups) == 1 and pg:
                return args[order.index(pg[0][1])]
            return ("call", t[1], args, t[3])
        if t and t[0] in ("lit",) and len(t) == 4:
            if t[1] == "dict":
                return ("lit", "dict", tuple((self.expand(k, depth + 1), self.expand(v, depth + 1)) for k, v in t[2]), t[3])
            return ("lit", t[1], tuple(self.expand(x, depth + 1) for x in t[2]), t[3])
        if t and t[0] in ("sub", "attr", "call", "binop", "elem"):
            return tuple(self.expand(x, depth + 1) if isinstance(x, tuple) else x for x in t)
        return t

    # -- module constants
    def const_literal(self, dotted):
        """term of the value assigned to module constant 'mod.NAME' (exactly one assignment)"""
        if dotted in self._const_lit:
            return self._const_lit[dotted]
        short, name = dotted.split(".", 1)
        m = self.prog.by_short.get(short)
        t = None
        if m is not None:
            vals = m.consts.get(name, [])
            if len(vals) == 1:
                t = self.static_term(m, vals[0])
        self._const_lit[dotted] = t
        return t

    def static_term(self, mod, node):
        """term of a module-level expression (constants, displays, names, simple calls)"""
        fi = _PseudoFunc(mod)
        w = Walker(self, fi)
        try:
            outs = w.expr(node, State())
        except AnalysisError:
            return None
        vals = [t for _s, k, t in outs if k == "val"]
        if len(vals) != 1:
            return None
        return vals[0]

    def default_term(self, fi, node):
        if isinstance(node, ast.Constant):
            return C(node.value)
        t = self.static_term(fi.mod, node)
        return t if t is not None else Fresh("default")


class _PseudoFunc:
    """stands for 'module level' when evaluating constant expressions"""

    def __init__(self, mod):
        self.mod = mod
        self.qualname = mod.short + ".<module>"
        self.cls = None
        self.parent = None
        self.is_classmethod = False
        self.is_staticmethod = False
        self.node = ast.parse("def _m(): pass").body[0]

    def params(self):
        return []
