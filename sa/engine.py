"""Engine facade: program + summary cache + helpers shared by rules."""
from __future__ import annotations

import ast

from . import AnalysisError
from .calls import build_summary
from .model import Program
from .terms import C, Fresh, G
from .walker import State, Walker


class Engine:
    def __init__(self, root="/repo", overlay=None):
        self.prog = Program(root, overlay)
        self._summaries = {}
        self._in_progress = []
        self._const_lit = {}
        self.stats = {"functions_walked": 0, "paths": 0, "calls_resolved": 0}
        self._imports = None
        self.callee_index = {}
        self.unknown_calls = {}

    @property
    def imports(self):
        if self._imports is None:
            from .imports import ImportClosure

            self._imports = ImportClosure(self.prog)
        return self._imports

    # -- summaries (bottom-up on demand; recursion is an analysis error)
    def summary(self, fi, clsbind=None, inline=frozenset(), funargs=(), raw=False):
        if not raw and getattr(fi, "parent", None) is None and not getattr(fi, "is_proxy", False):
            proxy = self._decorated_proxy(fi)
            if proxy is not None:
                fi = proxy
        key = (fi.qualname + ("@decorated" if getattr(fi, "is_proxy", False) else ""), clsbind, frozenset(inline), tuple(funargs))
        sm = self._summaries.get(key)
        if sm is not None:
            return sm
        if key in self._in_progress or any((k[0], k[1], k[3]) == (fi.qualname, clsbind, tuple(funargs)) for k in self._in_progress):
            # a recursive call: not summarised (the walker has no fixpoint); the call is treated as
            # opaque and the run settles as "definite violations, else no verdict"
            from .calls import _structural_recursion

            if _structural_recursion(fi):
                return None  # (a traversal of nested data: modelled by calls.apply_repo)
            self.unknown_calls.setdefault(("recursive:" + fi.qualname, fi.qualname), "recursive call of %s (cycle: %s)" % (fi.qualname, " -> ".join(k[0] for k in self._in_progress) + " -> " + fi.qualname))
            return None
        self._in_progress.append(key)
        try:
            sm = build_summary(self, fi, clsbind, frozenset(inline), tuple(funargs))
        finally:
            self._in_progress.pop()
        self._summaries[key] = sm
        self.stats["functions_walked"] += 1
        self.stats["paths"] += sm.npaths
        return sm

    def _decorated_proxy(self, fi):
        """a function with repository-defined decorators is, to its callers and to the rules, what
        the decorators make of it: a stand-in `def f(<same parameters>): return <decorated>(...)`"""
        from .calls import active_decorators, decorated_value
        from .model import FuncInfo

        cache = self.__dict__.setdefault("_proxies", {})
        if fi.qualname in cache:
            return cache[fi.qualname]
        cache[fi.qualname] = None
        if not isinstance(fi, FuncInfo) or not active_decorators(fi):
            return None
        dv = decorated_value(Walker(self, _PseudoFunc(fi.mod)), fi)
        if dv is None:
            return None
        a = fi.node.args
        args = [ast.Name(id=x.arg, ctx=ast.Load()) for x in a.posonlyargs + a.args]
        if a.vararg:
            args.append(ast.Starred(value=ast.Name(id=a.vararg.arg, ctx=ast.Load()), ctx=ast.Load()))
        kws = [ast.keyword(arg=x.arg, value=ast.Name(id=x.arg, ctx=ast.Load())) for x in a.kwonlyargs]
        if a.kwarg:
            kws.append(ast.keyword(arg=None, value=ast.Name(id=a.kwarg.arg, ctx=ast.Load())))
        ret = ast.Return(value=ast.Call(func=ast.Name(id="$decorated", ctx=ast.Load()), args=args, keywords=kws))
        keep = [d for d in fi.node.decorator_list if d not in active_decorators(fi)]
        node = ast.FunctionDef(name=fi.node.name, args=a, body=[ret], decorator_list=keep, returns=None, type_comment=None)
        for x in ast.walk(node):
            if not hasattr(x, "lineno"):
                ast.copy_location(x, fi.node)
        ast.fix_missing_locations(node)
        node.lineno, node.col_offset = fi.node.lineno, fi.node.col_offset
        proxy = FuncInfo(fi.qualname, fi.mod, node, cls=fi.cls, parent=None)
        proxy.is_proxy = True
        proxy.extra_env = {"$decorated": dv}
        cache[fi.qualname] = proxy
        return proxy

    def walk(self, qualname, clsbind=None, inline=None):
        """summary of an anchor function by qualified name (vanished anchor -> AnalysisError).
        Unless the caller names the inlined callees itself, private helpers of the anchor's own
        module (leading underscore) are inlined path by path, so that extracting part of an anchor
        into a helper does not hide its events and guards from the rules."""
        fi = self.prog.func(qualname)
        if inline is None:
            inline = self.private_helpers(fi.mod.short) - {qualname}
        return self.summary(fi, clsbind, inline)

    def walk_whole(self, qualname, parts=()):
        """walk(), and then once more with those functions of the anchor's module inlined to which
        the anchor hands one of its parameters as a whole (or one of the named parts of it): a
        checker that passes its argument on to a second, public checker for "the rest of the
        schema" keeps its path-wise facts; validators of single fields are left as calls"""
        from .terms import P, SubC
        from .walker import flatten_events

        fi = self.prog.func(qualname)
        inline = set(self.private_helpers(fi.mod.short) - {qualname})
        sm = self.summary(fi, None, frozenset(inline))
        for _round in range(3):
            whole = {P(n) for n in sm.params}
            whole |= {SubC(w, k) for w in set(whole) for k in parts}
            extra = set()
            for p in sm.paths:
                for ev, _d in flatten_events(p.events):
                    if ev[0] == "call" and isinstance(ev[2], str) and ev[2].startswith("repo:" + fi.mod.short + ".") and ev[3] and any(a in whole for a in ev[3]):
                        q2 = ev[2][5:].split("[")[0].split("<")[0]
                        if q2 in self.prog.funcs and q2 != qualname and q2 not in inline:
                            extra.add(q2)
            if not extra:
                break
            inline |= extra
            sm = self.summary(fi, None, frozenset(inline))
        sm.inlined_whole = frozenset(inline)
        self.__dict__.setdefault("_whole", {})[qualname] = frozenset(inline)
        return sm

    def private_helpers(self, short):
        c = self.__dict__.setdefault("_priv", {})
        if short not in c:
            out = set()
            for q, f in self.prog.funcs.items():
                if f.mod.short != short or f.parent is not None:
                    continue
                last = q.split(".")[-1]
                if f.cls is None and last.startswith("_") and not last.startswith("__"):
                    out.add(q)
                elif f.cls is None and getattr(f, "module_internal", False):
                    out.add(q)  # a helper that lives in a private module and is not re-exported
                elif f.cls is not None and f.cls.startswith("_") and not f.cls.startswith("__"):
                    out.add(q)  # methods of a private class (a record / book-keeping object)
            c[short] = frozenset(out)
        return c[short]

    def internal_helpers(self):
        """helpers that live in a private module and are not re-exported by a public one: internal
        glue of a module split, analysed in place wherever they are called"""
        c = self.__dict__.get("_internal")
        if c is None:
            c = self.__dict__["_internal"] = frozenset(q for q, f in self.prog.funcs.items() if getattr(f, "module_internal", False) and f.parent is None and f.cls is None and q == f.qualname)
        return c

    def repo_call(self, qualname, *args, clsbind=None):
        """the term of a call of an anchor function (registers it for expand())"""
        from .terms import CallT

        fi = self.prog.func(qualname)
        callee = "repo:" + qualname + ("[" + clsbind.split(".")[-1] + "]" if clsbind else "")
        names = fi.params()
        if fi.cls and not fi.is_staticmethod and fi.is_classmethod:
            names = names[1:]
        self.callee_index.setdefault(callee, (fi, clsbind, tuple(names)))
        return CallT(callee, args)

    # -- expansion of repo call terms to primitive level
    def expand(self, t, depth=0):
        """replace every repo call term whose callee returns one param-rooted value on all
        its normal paths by that value (recursively): rules can then be stated over
        primitives (json.dumps, unhexlify, from_public_bytes ...) instead of helper names"""
        from .terms import P, is_call, subst

        if depth > 8 or not isinstance(t, tuple):
            return t
        if is_call(t) and t[1].startswith("repo:") and t[1] in self.callee_index:
            fi, clsbind, order = self.callee_index[t[1]]
            sm = self.summary(fi, clsbind)
            g = sm.groups.get("other")
            args = tuple(self.expand(a, depth + 1) for a in t[2])
            if g is not None and g["value"] is not None and len(sm.groups) == 1:
                v = subst(g["value"], {P(n): a for n, a in zip(order, args)})
                return self.expand(v, depth + 1)
            pg = [rk for rk in sm.groups if isinstance(rk, tuple) and rk[0] == "param"]
            if len(sm.groups) == 1 and pg:
                return args[order.index(pg[0][1])]
            return ("call", t[1], args, t[3])
        if t and t[0] in ("lit",) and len(t) == 4:
            if t[1] == "dict":
                return ("lit", "dict", tuple((self.expand(k, depth + 1), self.expand(v, depth + 1)) for k, v in t[2]), t[3])
            return ("lit", t[1], tuple(self.expand(x, depth + 1) for x in t[2]), t[3])
        if t and t[0] in ("sub", "attr", "call", "binop", "elem"):
            return tuple(self.expand(x, depth + 1) if isinstance(x, tuple) else x for x in t)
        return t

    # -- module constants
    def const_literal(self, dotted):
        """term of the value assigned to module constant 'mod.NAME' (exactly one assignment)"""
        if dotted in self._const_lit:
            return self._const_lit[dotted]
        short, name = dotted.split(".", 1)
        m = self.prog.by_short.get(short)
        t = None
        if m is not None:
            vals = m.consts.get(name, [])
            if len(vals) == 1 and not any(isinstance(g, ast.Global) and name in g.names for g in ast.walk(m.tree)):
                # (a constant of a private module that is analysed as part of this one is
                # evaluated in the namespace it was written in)
                t = self.static_term(m.__dict__.get("const_origin", {}).get(name, m), vals[0])
        self._const_lit[dotted] = t
        return t

    def immutable_const(self, short, name):
        """constant-fold a module constant bound exactly once to an immutable literal (int, str,
        bytes, float, bool, None, or a tuple of such) and never declared global in a function"""
        key = (short, name)
        cache = self.__dict__.setdefault("_imm", {})
        if key in cache:
            return cache[key]
        out = None
        m = self.prog.by_short.get(short)
        vals = m.consts.get(name, []) if m else []
        if len(vals) == 1:
            try:
                v = ast.literal_eval(vals[0])
            except Exception:
                v = self
            def imm(x):
                return isinstance(x, (int, str, bytes, float, bool, type(None))) or (isinstance(x, tuple) and all(imm(y) for y in x))
            rebound = any(isinstance(g, ast.Global) and name in g.names for g in ast.walk(m.tree))
            if v is not self and imm(v) and not isinstance(v, tuple):
                if not rebound:
                    out = C(v)
            elif v is self and not rebound and isinstance(vals[0], (ast.BinOp, ast.UnaryOp)):
                # arithmetic on other constants (HEX_KEY_LENGTH = 2 * KEY_LENGTH): folded by the walker
                cache[key] = None
                t = self.static_term(m.__dict__.get("const_origin", {}).get(name, m), vals[0])
                if t is not None and len(t) == 3 and t[0] == "const" and isinstance(t[2], (int, str, bytes)) and not isinstance(t[2], bool):
                    out = t
            elif v is self and not rebound and isinstance(vals[0], (ast.Call, ast.Tuple, ast.Lambda)):
                # an immutable record built once at import time: a NamedTuple instance, a
                # functools.partial, an operator.itemgetter - the value itself is used
                cache[key] = None  # (guards against cycles while evaluating)
                t = self.static_term(m.__dict__.get("const_origin", {}).get(name, m), vals[0])
                if t is not None and self._immutable_value(t):
                    out = t
        cache[key] = out
        return out

    def is_rebound(self, short, name):
        """is the module-level name assigned more than once, or declared `global` in a function
        (then its value at a use is not the one bound at import time)"""
        cache = self.__dict__.setdefault("_rebound", {})
        key = (short, name)
        if key not in cache:
            m = self.prog.by_short.get(short)
            vals = m.consts.get(name, []) if m else []
            cache[key] = m is None or len(vals) != 1 or any(isinstance(g, ast.Global) and name in g.names for g in ast.walk(m.tree))
        return cache[key]

    def stable_table(self, gterm):
        """a module-level dict display {constant: value, ...} bound exactly once, whose every use in
        the package is a lookup, a membership test, an iteration or one of .get/.items/.keys/
        .values (never stored into, never handed on as a value): its display, else None"""
        if not (isinstance(gterm, tuple) and len(gterm) == 2 and gterm[0] == "global" and gterm[1].startswith("const:")):
            return None
        cache = self.__dict__.setdefault("_stable_tables", {})
        if gterm in cache:
            return cache[gterm]
        cache[gterm] = None
        short, name = gterm[1][6:].rsplit(".", 1)
        m = self.prog.by_short.get(short)
        vals = m.consts.get(name, []) if m else []
        out = None
        if len(vals) == 1 and isinstance(vals[0], ast.Dict) and all(isinstance(k, ast.Constant) for k in vals[0].keys):
            ok = not any(isinstance(g, ast.Global) and name in g.names for g in ast.walk(m.tree))
            for mod in self.prog.modules.values():
                r = self.prog.resolve_name(mod, name)
                if not (r[0] == "const" and r[1] == short and r[2] == name):
                    continue
                parents = {}
                for n in ast.walk(mod.tree):
                    for ch in ast.iter_child_nodes(n):
                        parents[ch] = n
                for n in ast.walk(mod.tree):
                    if not (isinstance(n, ast.Name) and n.id == name):
                        continue
                    par = parents.get(n)
                    if isinstance(n.ctx, ast.Store):
                        if isinstance(par, (ast.Assign, ast.AnnAssign)) and parents.get(par) is mod.tree:
                            continue
                        ok = False
                    elif isinstance(par, ast.Subscript) and par.value is n and isinstance(par.ctx, ast.Load):
                        continue
                    elif isinstance(par, ast.Compare) and n in par.comparators and all(isinstance(o, (ast.In, ast.NotIn)) for o in par.ops):
                        continue
                    elif isinstance(par, (ast.For, ast.comprehension)) and par.iter is n:
                        continue
                    elif isinstance(par, ast.Attribute) and par.value is n and par.attr in ("get", "items", "keys", "values") and isinstance(parents.get(par), ast.Call):
                        continue
                    elif isinstance(par, ast.alias):
                        continue
                    else:
                        ok = False
            if ok:
                t = self.static_term(m.__dict__.get("const_origin", {}).get(name, m), vals[0])
                if t is not None and len(t) == 4 and t[0] == "lit" and t[1] == "dict":
                    out = t
        cache[gterm] = out
        return out

    def _immutable_value(self, t):
        from .terms import is_const as _is_const

        if not isinstance(t, tuple) or not t:
            return False
        if _is_const(t):
            return True
        if t[0] == "global" and len(t) == 2 and not t[1].startswith("const:"):
            return True
        if t[0] == "global" and len(t) == 2 and t[1].startswith("const:"):
            # a reference to another module constant: immutable if that one is
            busy = self.__dict__.setdefault("_imm_busy", set())
            if t[1] in busy:
                return False
            busy.add(t[1])
            try:
                short, name = t[1][6:].split(".", 1)
                return self.immutable_const(short, name) is not None or self._immutable_value(self.const_literal(t[1][6:]) or ())
            finally:
                busy.discard(t[1])
        if t[0] == "nt" and len(t) == 3:
            return all(self._immutable_value(x) for x in t[2])
        if t[0] == "partial" and len(t) == 4:
            return self._immutable_value(t[1]) and all(self._immutable_value(x) for x in t[2]) and all(self._immutable_value(v) for _n, v in t[3])
        if t[0] == "closure" and len(t) == 3:
            return not t[2]
        if t[0] == "lit" and len(t) == 4 and t[1] == "tuple":
            return all(self._immutable_value(x) for x in t[2])
        return False

    def static_term(self, mod, node):
        """term of a module-level expression (constants, displays, names, simple calls)"""
        fi = _PseudoFunc(mod)
        w = Walker(self, fi)
        try:
            outs = w.expr(node, State())
        except AnalysisError:
            return None
        vals = [t for _s, k, t in outs if k == "val"]
        if len(vals) != 1:
            return None
        return vals[0]

    def default_term(self, fi, node):
        if isinstance(node, ast.Constant):
            return C(node.value)
        t = self.static_term(fi.mod, node)
        if isinstance(t, tuple) and len(t) == 4 and t[0] == "lit" and t[1] in ("dict", "list", "set") and t[3] is not None:
            # a mutable default: one object, created when the function is defined, shared by all calls
            t = ("lit", t[1], t[2], tuple(t[3]) + ("@default",))
        if isinstance(t, tuple) and len(t) == 2 and t[0] == "global" and t[1] in ("ext:sys.stdout", "ext:sys.stderr", "ext:sys.stdin"):
            # def f(..., file=sys.stdout): the stream object of the moment the function was defined
            # (import time), not the process's current one
            t = ("call", "captured-at-definition", (t,), ())
        return t if t is not None else Fresh("default")


class _PseudoFunc:
    """stands for 'module level' when evaluating constant expressions"""

    def __init__(self, mod):
        self.mod = mod
        self.qualname = mod.short + ".<module>"
        self.cls = None
        self.parent = None
        self.is_classmethod = False
        self.is_staticmethod = False
        self.node = ast.parse("def _m(): pass").body[0]

    def params(self):
        return []
