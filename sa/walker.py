"""E3 + E5 - path-sensitive fact walker and function summaries.

For a function, every control-flow path through its structured AST is enumerated while
carrying (env: variable -> term, facts: set of literals, events: ordered tuple).  Branch
conditions are not solved: they become literals added to the fact set of the branch
taken, and a branch is pruned only when its literal is the syntactic negation of a
fact already held.  Repo calls are applied through summaries (grouped by return kind,
or path by path for callees listed in `inline`).  No repo code is executed.
"""
from __future__ import annotations

import ast

from . import AnalysisError
from .model import dotted_chain
from .terms import (
    C,
    CallT,
    Elem,
    Fresh,
    G,
    P,
    Sub,
    is_call,
    is_const,
    is_lit,
    is_param_rooted,
    lit_const_values,
    show,
    subst,
)

PATH_CAP = 20000
NUM = frozenset(["int", "float", "bool"])
JSON_TYPES = frozenset(["dict", "list", "tuple", "str", "int", "float", "bool", "NoneType"])
CONTAINERS = frozenset(["dict", "list", "tuple", "str", "set", "bytes", "frozenset"])


class Exc(tuple):
    """a raised exception on a path: (cls, chain of Sites outermost first, conds, origin, why)"""

    __slots__ = ()

    def __new__(cls, exc, chain, conds=frozenset(), origin="implicit", why=""):
        return tuple.__new__(cls, (exc, tuple(chain), frozenset(conds), origin, why))

    exc = property(lambda s: s[0])
    chain = property(lambda s: s[1])
    conds = property(lambda s: s[2])
    origin = property(lambda s: s[3])
    why = property(lambda s: s[4])

    def site(self):
        return self[1][-1] if self[1] else None

    def top(self):
        return self[1][0] if self[1] else None


_INTLIKE = frozenset(["int", "bool"])


class State:
    __slots__ = ("env", "facts", "events", "_cl")

    def __init__(self, env=None, facts=None, events=()):
        self.env = dict(env) if env else {}
        self.facts = set(facts) if facts else set()
        self.events = events
        self._cl = None

    def copy(self):
        s = State.__new__(State)
        s.env = dict(self.env)
        s.facts = set(self.facts)
        s.events = self.events
        s._cl = self._cl
        return s

    def add(self, *fs):
        for f in fs:
            if f not in self.facts:
                self.facts.add(f)
                self._cl = None
                if f[0] == "eq" and is_const(f[2]):
                    self.facts.add(("type", f[1], frozenset([f[2][1]])))
                if f[0] == "type" and f[2] and f[2] <= _INTLIKE and not is_const(f[1]):
                    self.facts.add(("integral", f[1]))  # an int/bool equals its integer part

    def ev(self, *event):
        self.events = self.events + (event,)

    # -- closure under modus ponens (imp) and forall instantiation
    def closure(self):
        if self._cl is not None:
            return self._cl
        facts = set(self.facts)
        for _round in range(6):
            new = set()
            for f in facts:
                k = f[0]
                if k == "imp":
                    if f[2] not in facts and self._lit_in(f[1], facts):
                        new.add(f[2])
                elif k == "forall":
                    it, uid, body = f[1], f[2], f[3]
                    el = Elem(it, uid)
                    for g in facts:
                        if g[0] == "has" and g[1] == it and g[2] != el:
                            mp = {el: g[2]}
                            for bf in body:
                                nf = subst(bf, mp)
                                if nf not in facts:
                                    new.add(nf)
            # x == y and y == <constant>  =>  x == <constant> (chained comparisons a == b == "root")
            eqs = [f for f in facts if f[0] == "eq"]
            consts = {}
            for f in eqs:
                if is_const(f[2]) and not is_const(f[1]):
                    consts.setdefault(f[1], f[2])
                elif is_const(f[1]) and not is_const(f[2]):
                    consts.setdefault(f[2], f[1])
            if consts:
                for f in eqs:
                    a, b = f[1], f[2]
                    if is_const(a) or is_const(b):
                        continue
                    for x, y in ((a, b), (b, a)):
                        if y in consts and ("eq", x, consts[y]) not in facts:
                            new.add(("eq", x, consts[y]))
            if not new:
                break
            facts |= new
        self._cl = facts
        return facts

    @staticmethod
    def _lit_in(lit, facts):
        if lit in facts:
            return True
        if lit[0] == "type":
            ts = None
            for f in facts:
                if f[0] == "type" and f[1] == lit[1]:
                    ts = f[2] if ts is None else ts & f[2]
            return ts is not None and ts <= lit[2]
        return False

    def holds(self, f):
        cl = self.closure()
        if f in cl:
            return True
        k = f[0]
        if k == "type":
            ts = self.types(f[1])
            return ts is not None and ts <= f[2]
        if k == "nottype":
            ts = self.types(f[1])
            return ts is not None and not (ts & f[2])
        if k == "anyof":
            return any(self.holds(x) for x in f[1])
        if k == "truthy":
            return self.truth_value(f[1]) is True
        if k == "falsy":
            return self.truth_value(f[1]) is False
        return False

    def truth_value(self, t):
        if is_const(t):
            return bool(t[2])
        if is_lit(t):
            if t[3] is not None and t[1] in ("dict", "list", "set"):
                # a mutable display that was filled or emptied since it was created
                for ev in _deep_events(self.events):
                    if ev[0] in ("store", "del", "mutcall") and _root_term(ev[2]) == t:
                        return None
            return len(t[2]) > 0
        cl = self.closure()
        if ("truthy", t) in cl:
            return True
        if ("falsy", t) in cl:
            return False
        ts = self.types(t)
        if ts is not None and ts <= {"NoneType"}:
            return False
        if ts is not None and all(x.startswith("obj:") or x in ("function", "type") for x in ts):
            return True
        return None

    def types(self, t):
        ts = structural_type(t)
        if ts is None and isinstance(t, tuple) and len(t) == 2 and t[0] == "global" and t[1].startswith("const:"):
            # a module constant: the type of the display / constructor call it is bound to
            try:
                from rules.hexlang import current

                w_ = current()
            except ImportError:
                w_ = None
            lit = w_.const_literal(t) if w_ is not None else None
            if lit is not None and w_.eng.is_rebound(*t[1][6:].rsplit(".", 1)):
                lit = None
            if lit is not None and lit != t:
                ts = structural_type(lit)
                if ts is None and is_call(lit, ("builtin:frozenset", "builtin:set", "builtin:dict", "builtin:list", "builtin:tuple")):
                    ts = frozenset([lit[1][8:]])
        if ts is None and isinstance(t, tuple) and len(t) == 4 and t[0] == "binop" and t[1] == "+":
            tl, tr = self.types(t[2]), self.types(t[3])
            if tl is not None and tr is not None and len(tl) == 1 and tl == tr and tl <= {"str", "bytes", "list", "tuple"}:
                ts = tl
            elif tl and tr and all(x.startswith("obj:datetime.") for x in tl | tr) and any("datetime.datetime" in x for x in tl | tr):
                ts = frozenset(["obj:datetime.datetime"])  # a datetime moved by a timedelta
        for f in self.closure():
            if f[0] == "type" and f[1] == t:
                ts = f[2] if ts is None else ts & f[2]
        if ts is None and isinstance(t, tuple) and len(t) == 3 and t[0] == "sub" and is_call(t[1], "ext:collections.Counter"):
            ts = frozenset(["int"])  # the values of a Counter are counts
        if ts is None and isinstance(t, tuple) and len(t) == 3 and t[0] == "elem":
            # the elements of a str are one-character strs, those of bytes are ints
            bt = self.types(t[1])
            if bt is not None and bt <= {"str"}:
                ts = frozenset(["str"])
            elif bt is not None and bt <= {"bytes"}:
                ts = frozenset(["int"])
        return ts

    def contradicts(self, c):
        """is literal c the negation of something held (so a path requiring c is infeasible)"""
        k = c[0]
        if k == "ret":
            return self.holds(("ret", c[1], not c[2]))
        if k == "notok":
            return self.holds(("ok", c[1]))
        if k == "ok":
            return self.holds(("notok", c[1]))
        if k == "has":
            return self.holds(("nothas", c[1], c[2]))
        if k == "nothas":
            return self.holds(("has", c[1], c[2]))
        if k == "truthy":
            return self.truth_value(c[1]) is False
        if k == "falsy":
            return self.truth_value(c[1]) is True
        if k == "eq":
            if self.holds(("ne", c[1], c[2])) or self.holds(("ne", c[2], c[1])):
                return True
            if is_const(c[2]):
                for f in self.closure():
                    if f[0] == "eq" and f[1] == c[1] and is_const(f[2]) and f[2] != c[2]:
                        return True
                ts = self.types(c[1])
                if ts is not None and c[2][1] not in ts and not (c[2][1] in NUM and ts & NUM):
                    return True
            return False
        if k == "ne":
            return self.holds(("eq", c[1], c[2])) or self.holds(("eq", c[2], c[1]))
        if k == "nottype":
            ts = self.types(c[1])
            return ts is not None and ts <= c[2]
        if k == "type":
            ts = self.types(c[1])
            return ts is not None and not (ts & c[2])
        if k == "cmp":
            return self.holds(("cmp", NEG_CMP[c[1]], c[2], c[3])) or self.holds(("notcmp", c[1], c[2], c[3]))
        if k == "notcmp":
            return self.holds(("cmp", c[1], c[2], c[3]))
        if k in ("in", "notin"):
            if self.holds(("notin" if k == "in" else "in", c[1], c[2])):
                return True
            # both sides constant (after a call-site substitution): decided by evaluation
            if is_const(c[1]) and is_lit(c[2]) and c[2][1] in ("list", "tuple", "set"):
                from .terms import lit_const_values

                vals = lit_const_values(c[2])
                if vals is not None and not any(isinstance(v, tuple) for v in vals):
                    try:
                        res = c[1][2] in list(vals)
                    except TypeError:
                        return False
                    return res != (k == "in")
            return False
        if k == "badoperands":
            # "these two operands do not go with this operator": refuted once both types are known
            # and fit (numbers for arithmetic, two strs / bytes / lists for +, str % anything)
            op, l, r = c[1], c[2], c[3]
            tl, tr = self.types(l), self.types(r)
            if tl is None or tr is None:
                return False
            if tl <= NUM and tr <= NUM and op in ("+", "-", "*", "%", "//", "/", "**"):
                return True
            if tl <= {"int", "bool"} and tr <= {"int", "bool"} and op in ("|", "&", "^", "<<", ">>"):
                return True
            if op == "+" and len(tl) == 1 and tl == tr and tl <= {"str", "bytes", "list", "tuple"}:
                return True
            if op == "%" and tl <= {"str"}:
                # "template" % values: fails when the template's conversion specifiers and the values
                # do not go together - decided for a constant template and a display of values only
                if not (is_const(l) and isinstance(l[2], str)):
                    return False
                import re as _re

                specs = _re.findall(r"%(?:\([^)]*\))?[#0\- +]*(?:\*|\d+)?(?:\.(?:\*|\d+))?[hlL]?(.)", l[2])
                if any(ch not in "diouxXeEfFgGcrsa%" for ch in specs) or "(" in l[2] or "*" in l[2]:
                    return False
                need = len([ch for ch in specs if ch != "%"])
                have = len(r[2]) if is_lit(r, "tuple") else 1
                if any(ch in "diouxXeEfFgGc" for ch in specs):
                    return False  # (numeric conversions also need numbers)
                return need == have and l[2].count("%") == len(specs) + l[2].count("%%")
            if op == "*" and ((tl <= {"str", "bytes", "list", "tuple"} and tr <= {"int", "bool"}) or (tr <= {"str", "bytes", "list", "tuple"} and tl <= {"int", "bool"})):
                return True
            return False
        if k in ("nonstr-elements", "mixed-elements", "unhashable-elements"):
            # "the elements of this collection may not all be str / mutually comparable / hashable":
            # refuted by what is known about them where the collection is built
            from .tables import HASHABLE, elements_type

            x = c[1]
            if isinstance(x, tuple) and x and x[0] == "param":
                return False
            et = elements_type(self, x)
            if et is None:
                return False
            if k == "nonstr-elements":
                return et <= {"str"}
            if k == "mixed-elements":
                return len(et) <= 1
            return et <= HASHABLE
        if k == "captured-stream":
            # "this stream is one that was captured when a function was defined": holds for such a
            # default value, undecided for a parameter, refuted for anything else
            t = c[1]
            return not (is_call(t, "captured-at-definition") or (isinstance(t, tuple) and t and t[0] == "param"))
        if k == "unsafe-text":
            # "this text may not be encodable": refuted when every piece it is built from is ASCII-safe
            from .tables import ascii_safe_leaf
            from .terms import string_leaves

            try:
                from rules.hexlang import current
            except ImportError:
                return False
            w_ = current()
            if w_ is None or (isinstance(c[1], tuple) and c[1] and c[1][0] == "param"):
                return False

            class _Ctx:
                pass

            cx = _Ctx()
            cx.s, cx.w = self, w_
            return all(ascii_safe_leaf(cx, lf) for lf in string_leaves(c[1]))
        if k == "anyof":
            return all(self.contradicts(x) for x in c[1])
        if k == "keys":
            for f in self.closure():
                if f[0] == "keys" and f[1] == c[1] and f[2] != c[2]:
                    return True
            return False
        if k == "notkeys":
            return self.holds(("keys", c[1], c[2]))
        if k == "nonempty":
            return is_lit(c[1]) and len(c[1][2]) == 0
        if k in ("hasattr", "nohasattr"):
            if self.holds(("nohasattr" if k == "hasattr" else "hasattr", c[1], c[2])):
                return True
            ts = self.types(c[1])
            if ts is not None and ts and all(t in _ATTRS for t in ts):
                has = [c[2] in _ATTRS[t] for t in ts]
                return all(has) if k == "nohasattr" else not any(has)
            return False
        return False


NEG_CMP = {"<": ">=", ">=": "<", ">": "<=", "<=": ">"}

RET_TYPES = {
    "builtin:len": "int",
    "builtin:str": "str",
    "builtin:repr": "str",
    "builtin:ascii": "str",
    "builtin:int": "int",
    "builtin:sorted": "list",
    "builtin:list": "list",
    "builtin:set": "set",
    "builtin:frozenset": "frozenset",
    "builtin:dict": "dict",
    "builtin:tuple": "tuple",
    "builtin:bool": "bool",
    "builtin:isinstance": "bool",
    "builtin:hasattr": "bool",
    "builtin:input": "str",
    "builtin:bytes": "bytes",
    "builtin:type": "type",
    "ext:bytes.fromhex": "bytes",
    "ext:binascii.unhexlify": "bytes",
    "ext:binascii.hexlify": "bytes",
    "ext:json.dumps": "str",
    "ext:struct.pack": "bytes",
    "method:hex": "str",
    "method:isalnum": "bool",
    "method:isdigit": "bool",
    "method:startswith": "bool",
    "method:endswith": "bool",
    "method:finalize": "bytes",
    "method:digest": "bytes",
    "method:sign": "bytes",
    "method:public_bytes": "bytes",
    "method:private_bytes": "bytes",
    "method:public_bytes_raw": "bytes",
    "method:private_bytes_raw": "bytes",
    "method:isoformat": "str",
    "method:to_bytes": "bytes",
}


def is_argparse_term(t):
    """ArgumentParser(...) and what its add_subparsers()/add_parser()/add_argument_group() return"""
    while isinstance(t, tuple) and len(t) == 4 and t[0] == "call":
        if t[1] == "ext:argparse.ArgumentParser":
            return True
        if t[1] in ("method:add_subparsers", "method:add_parser", "method:add_argument_group", "method:add_mutually_exclusive_group") and t[2]:
            t = t[2][0]
            continue
        return False
    return False


def structural_type(t):
    if not isinstance(t, tuple) or not t:
        return None
    k = t[0]
    if k == "const":
        return frozenset([t[1]])
    if k == "lit":
        return frozenset([t[1]])
    if k == "fstr":
        return frozenset(["str"])
    if k == "global" and len(t) == 2 and isinstance(t[1], str) and t[1].startswith(("ext:os.O_", "ext:stat.S_", "ext:os.SEEK_", "ext:errno.E")):
        return frozenset(["int"])  # flag / mode / errno constants of the os, stat and errno modules
    if k == "comp":
        return frozenset([{"list": "list", "set": "set", "dict": "dict", "gen": "generator"}[t[1]]])
    if k == "closure" or k == "partial":
        return frozenset(["function"])
    if k == "nt" or (k in ("obj", "enum") and len(t) == 3):
        return frozenset(["obj:" + t[1]])
    if k == "excobj":
        return frozenset(["exception"])
    if k == "call":
        r = RET_TYPES.get(t[1])
        if r:
            return frozenset([r])
        if is_argparse_term(t):
            return frozenset(["obj:argparse"])
        if t[1] == "method:read" and len(t[2]) >= 1 and isinstance(t[2][0], tuple) and len(t[2][0]) == 4 and t[2][0][0] == "call" and t[2][0][1] == "builtin:open":
            # <open(path, mode)>.read(): bytes in binary mode, str in text mode
            h = t[2][0]
            mode = h[2][1] if len(h[2]) > 1 else dict(h[3]).get("mode", ("const", "str", "r"))
            if isinstance(mode, tuple) and len(mode) == 3 and mode[0] == "const" and isinstance(mode[2], str):
                return frozenset(["bytes" if "b" in mode[2] else "str"])
        return None
    if k == "global":
        q = t[1]
        if q.startswith(("class:", "builtin:")) and q != "builtin:None":
            return frozenset(["type"])
        if q.startswith("func:"):
            return frozenset(["function"])
    return None


class Path:
    __slots__ = ("kind", "value", "state")

    def __init__(self, kind, value, state):
        self.kind = kind  # "return" | "raise"
        self.value = value  # term | Exc
        self.state = state

    @property
    def facts(self):
        return self.state.facts

    @property
    def events(self):
        return self.state.events


class Summary:
    def __init__(self, fi, clsbind):
        self.fi = fi
        self.clsbind = clsbind
        self.paths = []
        self.groups = {}  # retkind -> {"facts": frozenset, "value": term|None, "n": int}
        self.escapes = []  # list of (Exc, conds)
        self.params = []


def flatten_events(events, depth=0):
    """yield (event, depth) with inlined callee events expanded in place"""
    for ev in events:
        if ev[0] == "inlined":
            yield (("enter",) + ev[1:3], depth)
            yield from flatten_events(ev[3], depth + 1)
            yield (("exit",) + ev[1:3], depth)
        else:
            yield (ev, depth)


class Walker:
    """walks one function; `eng` provides the program, the tables and summaries"""

    def __init__(self, eng, fi, clsbind=None, inline=frozenset()):
        self.eng = eng
        self.prog = eng.prog
        self.fi = fi
        self.mod = fi.mod
        self.clsbind = clsbind
        self.inline = inline
        self.comp_facts = {}
        self.comp_alts = {}
        self.npaths = 0

    # ------------------------------------------------------------------ helpers
    def site(self, node):
        return self.prog.site(self.mod, node, self.fi.qualname)

    def unsupported(self, node, what="construct"):
        raise AnalysisError("unsupported %s at %s: %s" % (what, self.site(node), ast.dump(node)[:120]))

    def rz(self, outs, st, node, exc, why, conds=(), origin="implicit"):
        s = st.copy()
        e = Exc(exc, [self.site(node)], conds, origin, why)
        outs.append((s, "raise", e))

    # ------------------------------------------------------------------ entry
    def run(self):
        st = State()
        a = self.fi.node.args
        params = a.posonlyargs + a.args + a.kwonlyargs
        first = True
        fa = getattr(self, "funargs", None)
        for arg in params:
            if first and self.fi.cls and self.fi.is_classmethod:
                st.env[arg.arg] = G("class:" + (self.clsbind or self.fi.mod.short + "." + self.fi.cls))
            elif first and self.fi.cls and not self.fi.is_staticmethod:
                st.env[arg.arg] = P(arg.arg)
            else:
                st.env[arg.arg] = P(arg.arg)
            fa = getattr(self, "funargs", None)
            if fa and arg.arg in fa:
                st.env[arg.arg] = fa[arg.arg]  # specialised on a function-valued argument
            for k_fa, v_fa in (fa or {}).items():
                # specialised on a function-valued attribute of an object argument (self._action)
                if k_fa.startswith(arg.arg + ".") and st.env[arg.arg] == P(arg.arg):
                    heap_store(st, P(arg.arg), k_fa[len(arg.arg) + 1 :], v_fa)
            first = False
        if a.vararg:
            st.env[a.vararg.arg] = fa["*" + a.vararg.arg] if fa and ("*" + a.vararg.arg) in fa else P("*" + a.vararg.arg)
        if a.kwarg:
            st.env[a.kwarg.arg] = fa["**" + a.kwarg.arg] if fa and ("**" + a.kwarg.arg) in fa else P("**" + a.kwarg.arg)
        st.env.update(getattr(self.fi, "extra_env", {}))
        if self.fi.parent is not None:
            st.env["$closure"] = C(True)
            # free variables are implicit parameters, bound by the call (see calls.apply_repo)
            for nm in self.fi.free_vars():
                st.env[nm] = fa[nm] if fa and nm in fa else P(nm)
                sib = self.fi.parent.qualname + "." + nm
                if not (fa and nm in fa) and sib in self.prog.funcs and self.prog.funcs[sib].parent is self.fi.parent:
                    # a sibling function of the enclosing function (bound once, by its def)
                    binds = [x for x in ast.walk(self.fi.parent.node) if (isinstance(x, ast.Name) and x.id == nm and isinstance(x.ctx, ast.Store)) or (isinstance(x, (ast.FunctionDef, ast.AsyncFunctionDef, ast.ClassDef)) and x.name == nm)]
                    if len(binds) == 1:
                        st.env[nm] = ("closure", sib, ())
        outs = self.block(self.fi.node.body, st)
        res = []
        for s, k, p in outs:
            if k == "fall":
                s.ev("return", self.site(self.fi.node), C(None), "implicit")
                res.append(Path("return", C(None), s))
            elif k == "return":
                res.append(Path("return", p, s))
            elif k == "raise":
                res.append(Path("raise", p, s))
            else:
                raise AnalysisError("break/continue outside loop in %s" % self.fi.qualname)
        self.npaths = len(res)
        return res

    # ------------------------------------------------------------------ statements
    def block(self, stmts, st):
        cur = [(st, "fall", None)]
        for stmt in stmts:
            nxt = []
            for s, k, p in cur:
                if k != "fall":
                    nxt.append((s, k, p))
                else:
                    nxt.extend(self.stmt(stmt, s))
            cur = nxt
            if len(cur) > PATH_CAP:
                raise AnalysisError("path cap exceeded in %s (%d paths)" % (self.fi.qualname, len(cur)))
        return cur

    def stmt(self, n, st):
        m = getattr(self, "s_" + type(n).__name__, None)
        if m is None:
            self.unsupported(n, "statement")
        return m(n, st)

    def s_Expr(self, n, st):
        if isinstance(n.value, ast.Constant):
            return [(st, "fall", None)]
        if isinstance(n.value, ast.Yield) and getattr(self, "yield_hook", None) is not None:
            outs = []
            if n.value.value is None:
                return self.yield_hook(st, C(None))
            for s, k, p in self.expr(n.value.value, st):
                if k != "val":
                    outs.append((s, k, p))
                else:
                    outs.extend(self.yield_hook(s, p))
            return outs
        if isinstance(n.value, ast.YieldFrom) and getattr(self, "yield_hook", None) is not None:
            outs = []
            for s, k, p in self.expr(n.value.value, st):
                if k != "val":
                    outs.append((s, k, p))
                elif isinstance(p, tuple) and len(p) == 3 and p[0] == "gen":
                    # delegate to the inner generator: each of its values is yielded by this one
                    for s2, k2, p2 in self._run_generator(p, s, lambda s_c, v: self.yield_hook(s_c, v), n):
                        outs.append((s2, "fall", None) if k2 == "exhausted" else (s2, k2, p2))
                else:
                    # yield from <iterable>  ==  for v in <iterable>: yield v
                    s = s.copy()
                    s.env["$yf_it"] = p
                    loop = ast.For(target=ast.Name(id="$yf", ctx=ast.Store()), iter=ast.Name(id="$yf_it", ctx=ast.Load()), body=[ast.Expr(value=ast.Yield(value=ast.Name(id="$yf", ctx=ast.Load())))], orelse=[])
                    for x in ast.walk(loop):
                        ast.copy_location(x, n)
                    for s2, k2, p2 in self.s_For(loop, s):
                        s2.env.pop("$yf_it", None)
                        s2.env.pop("$yf", None)
                        outs.append((s2, k2, p2))
            return outs
        return [(s, "fall", None) if k == "val" else (s, k, p) for s, k, p in self.expr(n.value, st)]

    # ---- generators
    def _run_generator(self, gen, s, on_yield, node, assigned=(), raw_kinds=False):
        """walk the body of generator `gen` = ("gen", qualname, bindings) in place; every value it
        yields is handed to on_yield(state in the consumer's scope, value) -> outcomes of the
        consumer's code for that value (fall / continue: the generator resumes; break / raise /
        return: the generator is abandoned).  -> [(state in the consumer's scope, kind, payload)]
        with kind in exhausted | break | raise | return"""
        fi = self.prog.funcs.get(gen[1])
        if fi is None:
            raise AnalysisError("generator %s is not a function of the repository" % gen[1])
        depth = getattr(self, "_gen_depth", 0)
        if depth > 6:
            raise AnalysisError("generators nested too deeply at %s" % self.site(node))
        w2 = Walker(self.eng, fi, None, self.inline)
        w2._gen_depth = depth + 1
        st = s.copy()
        caller_env = st.env
        st.env = dict(gen[2])
        st.env["$caller_env"] = caller_env
        if "$heap" in caller_env:
            st.env["$heap"] = caller_env["$heap"]  # object attributes are per-path state, not per-frame
        if fi.parent is not None:
            st.env["$closure"] = C(True)
        st.ev("gen-enter", self.site(node), gen[1])

        def hook(s_y, yielded):
            gen_env = s_y.env
            s_c = s_y.copy()
            s_c.env = dict(gen_env.get("$caller_env", caller_env))
            if "$heap" in gen_env:
                s_c.env["$heap"] = gen_env["$heap"]
            res = []
            for s1, k1, p1 in on_yield(s_c, yielded):
                s1 = s1.copy()
                s1.env = dict(gen_env, **{"$caller_env": s1.env})
                if "$heap" in s1.env["$caller_env"]:
                    s1.env["$heap"] = s1.env["$caller_env"]["$heap"]
                if k1 in ("fall", "continue"):
                    res.append((s1, "fall", None))
                else:
                    res.append((s1, "body-" + k1, p1))
            return res

        w2.yield_hook = hook
        outs = []
        for s3, k3, p3 in w2.block(fi.node.body, st):
            s3 = s3.copy()
            heap3 = s3.env.get("$heap")
            s3.env = dict(s3.env.get("$caller_env", caller_env))
            if heap3 is not None:
                s3.env["$heap"] = heap3
            if k3 in ("fall", "return"):
                if fi.yields_in_loops:
                    # values of the names the consumer assigns per element are those of an unknown
                    # number of iterations
                    for nm in assigned:
                        if nm in s3.env or nm in caller_env:
                            s3.env[nm] = Fresh("aftergen_" + nm)
                outs.append((s3, "exhausted", None))
            elif k3.startswith("body-"):
                outs.append((s3, k3 if raw_kinds else k3[5:], p3))
            else:
                outs.append((s3, k3, p3))
        return outs

    def _next_loop(self, n, st):
        """while True:
               try: X = next(G)
               except StopIteration: break
               [except E: H]
               [else: B]
               REST
        with G a generator object of the repository: the generator's body is walked in place, B and
        REST run for every value it yields.  An exception that leaves the generator's own code
        finishes the generator: after a handler H that carries on with the loop, the following
        next(G) raises StopIteration - the loop ends, the remaining elements are never produced."""
        if not (isinstance(n.test, ast.Constant) and n.test.value in (True, 1)) or n.orelse or not n.body:
            return None
        t = n.body[0]
        if not (isinstance(t, ast.Try) and len(t.body) == 1 and not t.finalbody and isinstance(t.body[0], ast.Assign) and len(t.body[0].targets) == 1):
            return None
        call = t.body[0].value
        if not (isinstance(call, ast.Call) and isinstance(call.func, ast.Name) and call.func.id == "next" and len(call.args) == 1 and not call.keywords and isinstance(call.args[0], ast.Name)):
            return None
        g = call.args[0].id
        gen = st.env.get(g)
        if "next" in st.env or not (isinstance(gen, tuple) and len(gen) == 3 and gen[0] == "gen"):
            return None
        stop = [h for h in t.handlers if isinstance(h.type, ast.Name) and h.type.id == "StopIteration"]
        if len(stop) != 1 or not (len(stop[0].body) == 1 and isinstance(stop[0].body[0], ast.Break)) or t.handlers[0] is not stop[0]:
            return None
        uses = [x for x in ast.walk(n) if isinstance(x, ast.Name) and x.id == g]
        if len(uses) != 1:
            return None
        others = [h for h in t.handlers if h is not stop[0]]
        target = t.body[0].targets[0]
        rest = list(t.orelse) + list(n.body[1:])
        assigned = self._assigned_names(n.body)

        def on_yield(s_c, value):
            res = []
            for s0, k0, p0 in self._assign_target(target, value, s_c, n):
                if k0 != "fall":
                    res.append((s0, k0, p0))
                else:
                    res.extend(self.block(rest, s0))
            return res

        s = st.copy()
        s.env[g] = Fresh("consumed_generator")
        outs = []
        for s2, k2, p2 in self._run_generator(gen, s, on_yield, n, assigned, raw_kinds=True):
            if k2 in ("exhausted", "body-break"):
                outs.append((s2, "fall", None))
            elif k2.startswith("body-"):
                outs.append((s2, k2[5:], p2))
            elif k2 == "raise":
                handled = False
                for h in others:
                    names = [nm for nm in self.handler_classes(h, s2) if nm != "?dynamic"]
                    if any(self.prog.exc_is_sub(p2.exc, nm) for nm in names):
                        hs = s2.copy()
                        hs.env["$exc"] = p2
                        if h.name:
                            hs.env[h.name] = ("excobj", p2.exc)
                        hs.ev("caught", self.site(h), p2.exc, tuple(names), p2.site(), p2.conds, p2.chain)
                        for s3, k3, p3 in self.block(h.body, hs):
                            s3.env.pop("$exc", None)
                            if h.name:
                                s3.env.pop(h.name, None)
                            if k3 in ("fall", "continue"):
                                # the generator is finished: the next next() raises StopIteration
                                s3 = s3.copy()
                                s3.ev("generator-finished", self.site(h), gen[1], p2.exc)
                                outs.append((s3, "fall", None))
                            elif k3 == "break":
                                outs.append((s3, "fall", None))
                            else:
                                outs.append((s3, k3, p3))
                        handled = True
                        break
                if not handled:
                    outs.append((s2, k2, p2))
            else:
                outs.append((s2, k2, p2))
        return outs

    def _iterate_generator(self, gen, s, node, target, body, orelse):
        assigned = self._assigned_names(body) | set(_names_of_target(target))

        def on_yield(s_c, value):
            res = []
            for s0, k0, p0 in self._assign_target(target, value, s_c, node):
                if k0 != "fall":
                    res.append((s0, k0, p0))
                else:
                    res.extend(self.block(body, s0))
            return res

        outs = []
        for s2, k2, p2 in self._run_generator(gen, s, on_yield, node, assigned):
            if k2 == "exhausted":
                outs.extend(self.block(orelse, s2) if orelse else [(s2, "fall", None)])
            elif k2 == "break":
                outs.append((s2, "fall", None))
            else:
                outs.append((s2, k2, p2))
        return outs

    def _collect_exact(self, gen, s, node):
        """the values a generator yields, as a tuple per path - only when no value is yielded from
        inside a loop of unknown length (None otherwise)"""
        base = getattr(self.eng, "symloop_depth", 0)
        symbolic = [False]

        def on_yield(s_c, v):
            if getattr(self.eng, "symloop_depth", 0) > base:
                symbolic[0] = True
            s_c.env["$coll"] = s_c.env.get("$coll", ()) + (v,)
            return [(s_c, "fall", None)]

        s = s.copy()
        s.env.pop("$coll", None)
        outs = []
        for s2, k2, p2 in self._run_generator(gen, s, on_yield, node):
            if k2 == "exhausted":
                vals = s2.env.pop("$coll", ())
                outs.append((s2, "val", ("lit", "tuple", tuple(vals), None)))
            else:
                s2.env.pop("$coll", None)
                outs.append((s2, k2, p2))
        return None if symbolic[0] else outs

    def _collect_generator(self, gen, s, node, kind):
        """list(gen) / tuple(gen) / set(gen) / dict(gen) / sorted(gen): an accumulator filled by a
        loop over the generator -> [(state, 'val', accumulator term) | other outcomes]"""
        acc = "$acc_%d_%d" % (getattr(node, "lineno", 0), getattr(node, "col_offset", 0))
        s = s.copy()
        init = {"dict": ast.Dict(keys=[], values=[]), "list": ast.List(elts=[], ctx=ast.Load()), "set": ast.Call(func=ast.Name(id="set", ctx=ast.Load()), args=[], keywords=[])}[kind]
        ast.copy_location(init, node)
        ast.fix_missing_locations(init)
        outs = []
        for s0, k0, t0 in self.expr(init, s):
            if k0 != "val":
                outs.append((s0, k0, t0))
                continue
            s0 = s0.copy()
            s0.env[acc] = t0
            if kind == "dict":
                target = ast.Tuple(elts=[ast.Name(id="$k", ctx=ast.Store()), ast.Name(id="$v", ctx=ast.Store())], ctx=ast.Store())
                store = ast.Assign(targets=[ast.Subscript(value=ast.Name(id=acc, ctx=ast.Load()), slice=ast.Name(id="$k", ctx=ast.Load()), ctx=ast.Store())], value=ast.Name(id="$v", ctx=ast.Load()))
            else:
                target = ast.Name(id="$v", ctx=ast.Store())
                store = ast.Expr(value=ast.Call(func=ast.Attribute(value=ast.Name(id=acc, ctx=ast.Load()), attr="append" if kind == "list" else "add", ctx=ast.Load()), args=[ast.Name(id="$v", ctx=ast.Load())], keywords=[]))
            for x in list(ast.walk(target)) + list(ast.walk(store)):
                ast.copy_location(x, node)
            ast.fix_missing_locations(store)
            for s2, k2, p2 in self._iterate_generator(gen, s0, node, target, [store], []):
                if k2 == "fall":
                    val = s2.env.get(acc, t0)
                    for nm in (acc, "$k", "$v"):
                        s2.env.pop(nm, None)
                    outs.append((s2, "val", val))
                else:
                    outs.append((s2, k2, p2))
        return outs

    def s_Pass(self, n, st):
        return [(st, "fall", None)]

    def s_Import(self, n, st):
        st = st.copy()
        for a in n.names:
            name = a.asname or a.name.split(".")[0]
            st.env[name] = G("ext:" + (a.name if a.asname else a.name.split(".")[0]))
        st.ev("import", self.site(n), tuple(a.name for a in n.names))
        return [(st, "fall", None)]

    def s_ImportFrom(self, n, st):
        st = st.copy()
        for a in n.names:
            st.env[a.asname or a.name] = G("ext:" + (n.module or "") + "." + a.name)
        st.ev("import", self.site(n), tuple((n.module or "") + "." + a.name for a in n.names))
        return [(st, "fall", None)]

    def s_FunctionDef(self, n, st):
        st = st.copy()
        st.env[n.name] = self._closure_value(self.fi.qualname + "." + n.name, st)
        return [(st, "fall", None)]

    def _closure_value(self, qualname, st):
        """closure term with a snapshot of the free variables that are bound right now (used when
        the closure is called outside the frame that created it)"""
        fi = self.prog.funcs.get(qualname)
        caps = ()
        if fi is not None:
            caps = tuple((nm, st.env[nm]) for nm in fi.free_vars() if nm in st.env and not nm.startswith("$"))
        return ("closure", qualname, caps)

    def s_Global(self, n, st):
        st = st.copy()
        st.ev("global-decl", self.site(n), tuple(n.names))
        for nm in n.names:
            st.env.pop(nm, None)
            st.env["$global:" + nm] = C(True)
        return [(st, "fall", None)]

    def s_Nonlocal(self, n, st):
        st = st.copy()
        st.ev("nonlocal-decl", self.site(n), tuple(n.names))
        return [(st, "fall", None)]

    def _assign_target(self, t, val, s, node):
        """returns list of outcomes after binding/storing val to target t"""
        if isinstance(t, ast.Name):
            if "$global:" + t.id in s.env:
                s.ev("store", self.site(node), ("attr", G("module:" + self.mod.short), t.id), val)
            else:
                s.env[t.id] = val
            return [(s, "fall", None)]
        if isinstance(t, (ast.Tuple, ast.List)) and isinstance(val, tuple) and len(val) == 3 and val[0] == "gen":
            exact = self._collect_exact(val, s, node)
            if exact is not None:
                outs = []
                for s2, k2, v2 in exact:
                    if k2 != "val":
                        outs.append((s2, k2, v2))
                    elif len(v2[2]) != len(t.elts) and not any(isinstance(x, ast.Starred) for x in t.elts):
                        self.rz(outs, s2, node, "ValueError", "unpacking %d values into %d names" % (len(v2[2]), len(t.elts)), [])
                    else:
                        outs.extend(self._assign_target(t, v2, s2, node))
                return outs
        if isinstance(t, (ast.Tuple, ast.List)) and isinstance(val, tuple) and len(val) == 2 and val[0] == "global" and val[1].startswith("const:"):
            lit0 = self.eng.const_literal(val[1][6:])
            if lit0 is not None and ((is_lit(lit0) and lit0[1] == "tuple") or lit0[0] == "nt"):
                val = lit0  # unpacking a module-level tuple / record
        if isinstance(t, (ast.Tuple, ast.List)):
            outs = [(s, "fall", None)]
            for i, e in enumerate(t.elts):
                nxt = []
                for s2, k2, p2 in outs:
                    if k2 != "fall":
                        nxt.append((s2, k2, p2))
                        continue
                    if is_lit(val) and val[1] in ("tuple", "list") and len(val[2]) == len(t.elts):
                        item = val[2][i]
                    elif isinstance(val, tuple) and len(val) == 3 and val[0] == "nt" and len(val[2]) == len(t.elts):
                        item = val[2][i]
                    else:
                        item = Sub(val, C(i))
                    nxt.extend(self._assign_target(e, item, s2, node))
                outs = nxt
            return outs
        if isinstance(t, ast.Subscript):
            outs = []
            cur, bad = self.seq([t.value, t.slice], s)
            outs.extend(bad)
            for s2, (b, k) in cur:
                ts = s2.types(b)
                if ts is None or not ts <= {"dict", "list"}:
                    self.rz(outs, s2, t, "TypeError", "item assignment on a value that may not support it", [("nottype", b, frozenset(["dict", "list"]))])
                if ts is None or "list" in ts:
                    self.rz(outs, s2, t, "IndexError", "list assignment index out of range", [("nottype", b, frozenset(["dict"]))])
                s3 = s2.copy()
                s3.ev("store", self.site(node), Sub(b, k), val)
                if is_lit(val) and val[1] in ("dict", "list", "set") and val[3] is not None:
                    # a fresh mutable display stored into a container: a local name still bound to
                    # it is from now on an alias of that slot (signatures = doc["signatures"] = {})
                    s3.env["$alias"] = {**s3.env.get("$alias", {}), val: Sub(b, k)}
                s3.facts.discard(("nothas", b, k))
                s3.add(("has", b, k), ("ok", Sub(b, k)))
                vt = s3.types(val)
                if vt is not None:
                    # forget older type facts of the overwritten slot, then record the new one
                    for f in [f for f in s3.facts if f[0] == "type" and f[1] == Sub(b, k)]:
                        s3.facts.discard(f)
                    s3._cl = None
                    s3.add(("type", Sub(b, k), vt))
                outs.append((s3, "fall", None))
            return outs
        if isinstance(t, ast.Attribute):
            outs = []
            for s2, k2, b in self.expr(t.value, s):
                if k2 != "val":
                    outs.append((s2, k2, b))
                    continue
                s3 = s2.copy()
                s3.ev("store", self.site(node), ("attr", b, t.attr), val)
                if isinstance(b, tuple) and ((len(b) == 3 and b[0] == "obj") or (b, t.attr) in s3.env.get("$heap", {}) or (b[0] == "param" and self.fi.cls and "$caller_env" not in s3.env)):
                    # (attributes of a parameter of a method: later reads in this walk see the store)
                    heap_store(s3, b, t.attr, val)
                outs.append((s3, "fall", None))
            return outs
        if isinstance(t, ast.Starred):
            return self._assign_target(t.value, Fresh("starred"), s, node)
        self.unsupported(t, "assignment target")

    def s_Assign(self, n, st):
        outs = []
        for s, k, p in self.expr(n.value, st):
            if k != "val":
                outs.append((s, k, p))
                continue
            cur = [(s.copy(), "fall", None)]
            for t in n.targets:
                nxt = []
                for s2, k2, p2 in cur:
                    if k2 != "fall":
                        nxt.append((s2, k2, p2))
                    else:
                        nxt.extend(self._assign_target(t, p, s2, n))
                cur = nxt
            outs.extend(cur)
        return outs

    def s_AnnAssign(self, n, st):
        if n.value is None:
            return [(st, "fall", None)]
        outs = []
        for s, k, p in self.expr(n.value, st):
            if k != "val":
                outs.append((s, k, p))
            else:
                outs.extend(self._assign_target(n.target, p, s.copy(), n))
        return outs

    def s_AugAssign(self, n, st):
        load = _as_load(n.target)
        binop = ast.BinOp(left=load, op=n.op, right=n.value)
        ast.copy_location(binop, n)
        ast.fix_missing_locations(binop)
        outs = []
        # x += y on a list / bytearray / set / dict (|=) changes the object x names in place - every
        # other name of that object (a parameter it was copied from) sees the change
        old_vals = []
        if isinstance(n.target, ast.Name) and n.target.id in st.env and isinstance(n.op, (ast.Add, ast.BitOr, ast.BitAnd, ast.Sub, ast.BitXor, ast.Mult)):
            old_vals = [st.env[n.target.id]]
        for s, k, p in self.expr(binop, st):
            if k != "val":
                outs.append((s, k, p))
            else:
                s = s.copy()
                s.ev("augassign", self.site(n), type(n.op).__name__)
                for ov in old_vals:
                    ts = s.types(ov)
                    immutable = ts is not None and ts <= (NUM | {"str", "bytes", "tuple", "NoneType", "frozenset"})
                    rooted = isinstance(ov, tuple) and ov and (ov[0] in ("param", "sub", "attr", "global") or (ov[0] == "lit" and ov[1] in ("list", "dict", "set")))
                    if rooted and not immutable and not is_const(ov):
                        s.ev("mutcall", self.site(n), ov, "__iadd__", (p,))
                outs.extend(self._assign_target(n.target, p, s, n))
        return outs

    def s_Delete(self, n, st):
        cur = [(st, "fall", None)]
        for t in n.targets:
            nxt = []
            for s, k, p in cur:
                if k != "fall":
                    nxt.append((s, k, p))
                    continue
                if isinstance(t, ast.Name):
                    s = s.copy()
                    s.env.pop(t.id, None)
                    nxt.append((s, "fall", None))
                elif isinstance(t, ast.Subscript):
                    ok, bad = self.seq([t.value, t.slice], s)
                    nxt.extend(bad)
                    for s2, (b, key) in ok:
                        ts = s2.types(b)
                        if ts is None or not ts <= {"dict", "list"}:
                            self.rz(nxt, s2, t, "TypeError", "item deletion on a value that may not support it", [("nottype", b, frozenset(["dict", "list"]))])
                        if (ts is None or "dict" in ts) and not s2.holds(("has", b, key)):
                            self.rz(nxt, s2, t, "KeyError", "del of a key that may be absent", [("nothas", b, key)])
                        s3 = s2.copy()
                        s3.ev("del", self.site(n), Sub(b, key))
                        s3.facts.discard(("has", b, key))
                        s3._cl = None
                        nxt.append((s3, "fall", None))
                elif isinstance(t, ast.Attribute):
                    for s2, k2, b in self.expr(t.value, s):
                        if k2 != "val":
                            nxt.append((s2, k2, b))
                        else:
                            s3 = s2.copy()
                            s3.ev("del", self.site(n), ("attr", b, t.attr))
                            nxt.append((s3, "fall", None))
                else:
                    self.unsupported(t, "del target")
            cur = nxt
        return cur

    def s_Return(self, n, st):
        if n.value is None:
            s = st.copy()
            s.ev("return", self.site(n), C(None), "bare")
            return [(s, "return", C(None))]
        outs = []
        for s, k, p in self.expr(n.value, st):
            if k == "val":
                s = s.copy()
                s.ev("return", self.site(n), p, "value")
                outs.append((s, "return", p))
            else:
                outs.append((s, k, p))
        return outs

    def s_Raise(self, n, st):
        if n.exc is None:
            cur = st.env.get("$exc")
            if cur is None:
                self.unsupported(n, "bare raise outside handler")
            s = st.copy()
            s.ev("raise", self.site(n), cur.exc, "reraise")
            return [(s, "raise", Exc(cur.exc, cur.chain, cur.conds, cur.origin, cur.why))]
        e = n.exc
        outs = []
        if isinstance(e, ast.Call):
            cls_node, args = e.func, e.args
        else:
            cls_node, args = e, []
        # a caught exception object re-raised by name
        if isinstance(e, ast.Name) and e.id in st.env and st.env[e.id][0] == "excobj":
            s = st.copy()
            s.ev("raise", self.site(n), st.env[e.id][1], "reraise")
            return [(s, "raise", Exc(st.env[e.id][1], [self.site(n)], (), "explicit", "re-raise of caught exception"))]
        try:
            exc = self.exc_class_name(cls_node, st)
        except AnalysisError:
            exc = None
        if exc is None or (exc not in self.prog.exc_parents() and not self._is_builtin_exception(exc)):
            # raise <expression>: an exception object built elsewhere (a stored instance, a factory
            # call, a field of a record) - evaluate it and raise what it denotes
            for s, k, v in self.expr(e, st):
                if k != "val":
                    outs.append((s, k, v))
                    continue
                name = None
                if isinstance(v, tuple) and v and v[0] == "excobj":
                    name = v[1]
                elif isinstance(v, tuple) and len(v) == 2 and v[0] == "global" and v[1].startswith(("builtin:", "class:")):
                    name = v[1].split(":", 1)[1].split(".")[-1]
                if name is None:
                    # a value the analysis cannot see through (a parameter of a helper analysed on
                    # its own): some exception is raised
                    s = s.copy()
                    s.ev("raise", self.site(n), "Exception", "dynamic", ())
                    outs.append((s, "raise", Exc("Exception", [self.site(n)], (), "dynamic", "raise of a value that is not statically known")))
                    continue
                s = s.copy()
                s.ev("raise", self.site(n), name, "explicit", ())
                outs.append((s, "raise", Exc(name, [self.site(n)], (), "explicit", "raise " + name)))
            return outs
        cur, bad = self.seq(args + [k.value for k in (e.keywords if isinstance(e, ast.Call) else [])], st)
        for s_b, k_b, p_b in bad:
            if k_b == "raise":
                # an error while building the exception object replaces the intended one
                p_b = Exc(p_b.exc, p_b.chain, p_b.conds, "raise-args:" + exc, p_b.why + " (while building the %s raised at %s)" % (exc, self.site(n).loc()))
            outs.append((s_b, k_b, p_b))
        for s, ts in cur:
            s = s.copy()
            s.ev("raise", self.site(n), exc, "explicit", tuple(ts))
            outs.append((s, "raise", Exc(exc, [self.site(n)], (), "explicit", "raise " + exc)))
        return outs

    @staticmethod
    def _is_builtin_exception(name):
        import builtins as _b

        o = getattr(_b, name, None)
        return isinstance(o, type) and issubclass(o, BaseException)

    def exc_class_name(self, node, st):
        chain = dotted_chain(node)
        if chain is None:
            self.unsupported(node, "exception class expression")
        if chain[0] in st.env:
            t = st.env[chain[0]]
            if len(chain) == 1 and isinstance(t, tuple) and len(t) == 2 and t[0] == "global" and t[1].startswith(("builtin:", "class:")):
                # a parameter / local bound to an exception class (except unwelcome: ...)
                return t[1].split(":", 1)[1].split(".")[-1]
            if t[0] == "global" and t[1].startswith("ext:"):
                full = t[1][4:] + ("." + ".".join(chain[1:]) if chain[1:] else "")
                nm = self.prog.exc_name_of_resolution(("ext", full))
                if nm:
                    return nm
            raise AnalysisError("cannot resolve raised class %s at %s" % (ast.unparse(node), self.site(node)))
        r, rest = self.prog.resolve_dotted(self.mod, chain)
        if r[0] == "class":
            return r[1].split(".")[-1]
        if r[0] == "builtin" and not rest:
            return r[1]
        if r[0] == "ext":
            nm = self.prog.exc_name_of_resolution(("ext", r[1]))
            if nm:
                return nm
            return r[1]
        raise AnalysisError("cannot resolve raised class %s at %s" % (ast.unparse(node), self.site(node)))

    def s_If(self, n, st):
        outs = []
        for s, k, p in self.cond(n.test, st):
            if k == "true":
                outs.extend(self.block(n.body, s))
            elif k == "false":
                outs.extend(self.block(n.orelse, s))
            else:
                outs.append((s, k, p))
        return outs

    def s_Assert(self, n, st):
        outs = []
        can_matter = False
        n_ev = len(st.events)
        for s, k, p in self.cond(n.test, st):
            if k == "true":
                outs.append((s, "fall", None))
                if any(ev[0] in ("write", "store", "mutcall", "del", "fs-mutation") for ev in s.events[n_ev:]):
                    can_matter = True  # the test itself does something (assert f.write(b) == len(b))
            elif k == "false":
                can_matter = True
                s = s.copy()
                s.ev("raise", self.site(n), "AssertionError", "assert")
                outs.append((s, "raise", Exc("AssertionError", [self.site(n)], (), "assert", "assert " + ast.unparse(n.test)[:60])))
            else:
                can_matter = True
                outs.append((s, k, p))
        if can_matter:
            # python -O / PYTHONOPTIMIZE: the statement is not compiled at all - neither the test nor
            # the failure happens
            s = st.copy()
            s.ev("assert-skipped", self.site(n), "python -O")
            outs.append((s, "fall", None))
        return outs

    def s_Match(self, n, st):
        """match subject: case ...  - the cases are tried in order; the patterns supported are
        literals, `cls()` / `cls(name)` for the builtin scalar types, captures, `_`, `|` and `as`;
        with no matching case the statement does nothing"""
        subj = "$match_%d_%d" % (n.lineno, n.col_offset)

        def load():
            return ast.Name(id=subj, ctx=ast.Load())

        def test_of(pat, binds):
            if isinstance(pat, ast.MatchValue):
                return ast.Compare(left=load(), ops=[ast.Eq()], comparators=[pat.value])
            if isinstance(pat, ast.MatchSingleton):
                return ast.Compare(left=load(), ops=[ast.Is()], comparators=[ast.Constant(value=pat.value)])
            if isinstance(pat, ast.MatchAs):
                inner = test_of(pat.pattern, binds) if pat.pattern is not None else ast.Constant(value=True)
                if pat.name:
                    binds.append(pat.name)
                return inner
            if isinstance(pat, ast.MatchOr):
                return ast.BoolOp(op=ast.Or(), values=[test_of(p, []) for p in pat.patterns])
            if isinstance(pat, ast.MatchClass) and isinstance(pat.cls, ast.Name) and pat.cls.id in ("str", "int", "float", "bool", "bytes", "list", "dict", "tuple", "set") and not pat.kwd_patterns and len(pat.patterns) <= 1:
                t = ast.Call(func=ast.Name(id="isinstance", ctx=ast.Load()), args=[load(), ast.Name(id=pat.cls.id, ctx=ast.Load())], keywords=[])
                if pat.patterns:
                    sub = pat.patterns[0]
                    if not (isinstance(sub, ast.MatchAs) and sub.pattern is None):
                        self.unsupported(n, "class pattern with a nested pattern")
                    if sub.name:
                        binds.append(sub.name)
                return t
            self.unsupported(n, "match pattern")

        outs = []
        for s0, k0, v0 in self.expr(n.subject, st):
            if k0 != "val":
                outs.append((s0, k0, v0))
                continue
            s0 = s0.copy()
            s0.env[subj] = v0
            chain = None
            for case in reversed(n.cases):
                binds = []
                test = test_of(case.pattern, binds)
                if case.guard is not None:
                    # (the guard sees the captured names)
                    test = ast.BoolOp(op=ast.And(), values=[test, case.guard]) if not binds else None
                    if test is None:
                        self.unsupported(n, "guard on a capturing pattern")
                body = [ast.Assign(targets=[ast.Name(id=b, ctx=ast.Store())], value=load()) for b in binds] + list(case.body)
                node = ast.If(test=test, body=body, orelse=[chain] if chain is not None else [])
                chain = node
            for x in ast.walk(chain):
                if not hasattr(x, "lineno"):
                    ast.copy_location(x, n)
            ast.fix_missing_locations(chain)
            for s2, k2, p2 in self.stmt(chain, s0):
                s2.env.pop(subj, None)
                outs.append((s2, k2, p2))
        return outs

    def s_Continue(self, n, st):
        return [(st, "continue", None)]

    def s_Break(self, n, st):
        return [(st, "break", None)]

    def _generator_cm(self, item, st):
        """(FuncInfo, call node) if the with-item is a call of a repo function decorated with
        contextlib.contextmanager whose body has exactly one `yield` statement, else None"""
        e = item.context_expr
        if not isinstance(e, ast.Call):
            return None
        chain = dotted_chain(e.func)
        if not chain or not self._is_module_level(chain[0], st):
            return None
        r, rest = self.prog.resolve_dotted(self.mod, chain)
        if r[0] != "func" or rest:
            return None
        fi = self.prog.funcs[r[1]]
        deco = False
        for d in fi.node.decorator_list:
            rr = self.prog.resolve_expr_static(fi.mod, d.func if isinstance(d, ast.Call) else d)
            if rr and rr[0] == "ext" and rr[1] in ("contextlib.contextmanager",):
                deco = True
        yields = [x for x in ast.walk(fi.node) if isinstance(x, (ast.Yield, ast.YieldFrom))]
        if not deco or len(yields) != 1 or isinstance(yields[0], ast.YieldFrom):
            return None
        return fi

    def _with_generator_cm(self, n, item, fi, st):
        """`with cm(args) as x: BODY` for a @contextmanager generator: the generator's code up to its
        yield, BODY (x bound to the yielded value), then the rest of the generator - an exception or
        an early exit of BODY resumes the generator at the yield (so its finally/except clauses run)"""
        from .calls import bind_params

        e = item.context_expr
        outs = []
        cur, bad = self.seq(list(e.args) + [k.value for k in e.keywords], st)
        outs.extend(bad)
        for s, ts in cur:
            args = ts[: len(e.args)]
            kwargs = tuple((k.arg or "**", v) for k, v in zip(e.keywords, ts[len(e.args) :]))
            w2 = Walker(self.eng, fi, None, self.inline)
            mp, order = bind_params(w2, e, fi, list(args), kwargs, skip_first=False)
            if mp is None:
                self.rz(outs, s, e, "TypeError", "call does not match signature: " + order, [])
                continue
            caller_env = s.env
            s = s.copy()
            s.env = dict(mp)
            s.ev("with-enter", self.site(e), CallT("repo:" + fi.qualname, [mp[x] for x in order]))
            box = {"env": caller_env}

            def hook(s_y, yielded):
                gen_env = s_y.env
                s_b = s_y.copy()
                s_b.env = dict(box["env"])
                res = []
                starts = self._assign_target(item.optional_vars, yielded, s_b, n) if item.optional_vars is not None else [(s_b, "fall", None)]
                for s0, k0, p0 in starts:
                    body_outs = [(s0, k0, p0)] if k0 != "fall" else self.block(n.body, s0)
                    for s1, k1, p1 in body_outs:
                        s1 = s1.copy()
                        box["env"] = s1.env  # (last completed body path: an approximation for names bound in BODY)
                        s1.env = dict(gen_env, **{"$caller_env": s1.env})
                        if k1 == "fall":
                            res.append((s1, "fall", None))
                        elif k1 == "raise":
                            res.append((s1, "raise", p1))
                        else:
                            res.append((s1, "body-" + k1, p1))
                return res

            w2.yield_hook = hook
            for s3, k3, p3 in w2.block(fi.node.body, s):
                s3 = s3.copy()
                env_back = s3.env.pop("$caller_env", None) or box["env"]
                s3.env = dict(env_back)
                s3.ev("with-exit", self.site(n), k3)
                if k3 in ("fall", "return"):
                    outs.append((s3, "fall", None))  # the generator finished: the with statement completes
                elif k3.startswith("body-"):
                    outs.append((s3, k3[5:], p3))
                else:
                    outs.append((s3, k3, p3))
        return outs

    def s_With(self, n, st):
        if len(n.items) == 1:
            gfi = self._generator_cm(n.items[0], st)
            if gfi is not None:
                return self._with_generator_cm(n, n.items[0], gfi, st)
            ce = n.items[0].context_expr
            if isinstance(ce, ast.Call) and not ce.keywords and n.items[0].optional_vars is None:
                chain = dotted_chain(ce.func)
                r = self.prog.resolve_dotted(self.mod, chain) if chain and chain[0] not in st.env else None
                if r and r[0][0] == "ext" and (r[0][1] + ("." + ".".join(r[1]) if r[1] else "")) == "contextlib.suppress" and ce.args:
                    # with suppress(E1, E2): body   ==   try: body / except (E1, E2): pass
                    typ = ce.args[0] if len(ce.args) == 1 else ast.Tuple(elts=list(ce.args), ctx=ast.Load())
                    h = ast.ExceptHandler(type=typ, name=None, body=[ast.Pass()])
                    t = ast.Try(body=n.body, handlers=[h], orelse=[], finalbody=[])
                    for x in (t, h, h.body[0], typ):
                        ast.copy_location(x, ce)
                    return self.s_Try(t, st)
        if len(n.items) == 1:
            r_cm = self._with_object_cm(n, st)
            if r_cm is not None:
                return r_cm
        cur = [(st, "fall", None)]
        for item in n.items:
            nxt = []
            for s, k, p in cur:
                if k != "fall":
                    nxt.append((s, k, p))
                    continue
                for s2, k2, p2 in self.expr(item.context_expr, s):
                    if k2 == "val":
                        s2 = s2.copy()
                        s2.ev("with-enter", self.site(item.context_expr), p2)
                        if item.optional_vars is not None:
                            nxt.extend(self._assign_target(item.optional_vars, p2, s2, n))
                        else:
                            nxt.append((s2, "fall", None))
                    else:
                        nxt.append((s2, k2, p2))
            cur = nxt
        outs = []
        for s, k, p in cur:
            if k != "fall":
                outs.append((s, k, p))
                continue
            for s2, k2, p2 in self.block(n.body, s):
                s2 = s2.copy()
                s2.ev("with-exit", self.site(n), k2)
                outs.append((s2, k2, p2))
        return outs

    def _with_object_cm(self, n, st):
        """`with <instance of a repository class with __enter__/__exit__> [as x]: BODY`:
        __enter__ runs, BODY runs, then __exit__(None, None, None) - or, when BODY raised,
        __exit__(class, exception, traceback), whose truthy result swallows the exception"""
        from .calls import apply_repo

        item = n.items[0]
        outs = []
        any_obj = False
        pending = []
        for s, k, v in self.expr(item.context_expr, st):
            if k != "val":
                outs.append((s, k, v))
                continue
            if not (isinstance(v, tuple) and len(v) == 3 and v[0] == "obj"):
                pending.append((s, v))
                continue
            m_en = self.prog.find_method(v[1], "__enter__")
            m_ex = self.prog.find_method(v[1], "__exit__")
            if m_en is None or m_ex is None or m_en[0] != "repo" or m_ex[0] != "repo":
                pending.append((s, v))
                continue
            any_obj = True
            for s1, k1, ent in apply_repo(self, item.context_expr, m_en[1], None, (v,), (), s):
                if k1 != "val":
                    outs.append((s1, k1, ent))
                    continue
                starts = self._assign_target(item.optional_vars, ent, s1.copy(), n) if item.optional_vars is not None else [(s1, "fall", None)]
                for s2, k2, p2 in starts:
                    body_outs = [(s2, k2, p2)] if k2 != "fall" else self.block(n.body, s2)
                    for s3, k3, p3 in body_outs:
                        if k3 == "raise":
                            exargs = (v, G("builtin:" + p3.exc) if self._is_builtin_exception(p3.exc) else G("class:" + p3.exc), ("excobj", p3.exc), Fresh("traceback"))
                            for s4, k4, r4 in apply_repo(self, n, m_ex[1], None, exargs, (), s3):
                                if k4 != "val":
                                    outs.append((s4, k4, r4))
                                    continue
                                for s5, k5, _p5 in self.truth(r4, s4):
                                    if k5 == "true":
                                        s5 = s5.copy()
                                        s5.ev("caught", self.site(n), p3.exc, ("BaseException",), p3.site(), p3.conds, p3.chain)
                                        outs.append((s5, "fall", None))
                                    elif k5 == "false":
                                        outs.append((s5, "raise", p3))
                                    else:
                                        outs.append((s5, k5, _p5))
                        else:
                            none3 = (v, C(None), C(None), C(None))
                            for s4, k4, r4 in apply_repo(self, n, m_ex[1], None, none3, (), s3):
                                outs.append((s4, k3, p3) if k4 == "val" else (s4, k4, r4))
        if not any_obj:
            return None
        if pending:
            return None  # mixed shapes: let the generic rule handle the statement
        return outs

    # ---- loops
    def _assigned_names(self, body):
        names = set()
        for stmt in body:
            for x in ast.walk(stmt):
                if isinstance(x, ast.Name) and isinstance(x.ctx, (ast.Store, ast.Del)):
                    names.add(x.id)
        return names

    # -- one-shot iterators: zip/map/filter/iter/reversed/enumerate objects, generator
    # expressions and generators yield their items once; a second pass over the same object
    # finds nothing.  After a consumer that runs an iterator held in a variable to its end, the
    # variable holds an exhausted iterator (an empty sequence for every later consumer).
    _ONE_SHOT = ("builtin:zip", "builtin:map", "builtin:filter", "builtin:iter", "builtin:reversed", "builtin:enumerate")
    EXHAUSTED = ("lit", "tuple", (), ("exhausted-iterator", 0, 0))

    def _one_shot(self, t):
        if is_call(t, self._ONE_SHOT) or (is_call(t) and t[1].startswith("ext:itertools.")):
            return True
        if isinstance(t, tuple) and len(t) == 3 and t[0] == "gen":
            return True
        return isinstance(t, tuple) and len(t) == 5 and t[0] == "comp" and t[1] == "gen"

    def _exhaust_names(self, names, st, outs, kinds=("fall", "val", "true", "false")):
        held = {nm: st.env[nm] for nm in names if nm in st.env and self._one_shot(st.env[nm])}
        if not held:
            return outs
        res = []
        for s, k, p in outs:
            if k in kinds and any(s.env.get(nm) == v for nm, v in held.items()):
                s = s.copy()
                for nm, v in held.items():
                    if s.env.get(nm) == v:
                        s.env[nm] = self.EXHAUSTED
            res.append((s, k, p))
        return res

    def s_For(self, n, st):
        outs = self._s_For(n, st)
        if isinstance(n.iter, ast.Name) and not any(isinstance(x, (ast.Break, ast.Return)) for b in n.body for x in ast.walk(b)):
            outs = self._exhaust_names([n.iter.id], st, outs)
        return outs

    def _s_For(self, n, st):
        outs = []
        # literal list of constants: unrolled
        if isinstance(n.iter, (ast.List, ast.Tuple)) and all(isinstance(e, ast.Constant) for e in n.iter.elts) and isinstance(n.target, ast.Name):
            cur = [(st, "fall", None)]
            done = []
            for e in n.iter.elts:
                nxt = []
                for s, k, p in cur:
                    if k != "fall":
                        nxt.append((s, k, p))
                        continue
                    s = s.copy()
                    s.env[n.target.id] = C(e.value)
                    for s2, k2, p2 in self.block(n.body, s):
                        if k2 in ("fall", "continue"):
                            nxt.append((s2, "fall", None))
                        elif k2 == "break":
                            done.append((s2, "fall", None))
                        else:
                            nxt.append((s2, k2, p2))
                cur = nxt
            res = []
            for s, k, p in cur:
                if k == "fall" and n.orelse:
                    res.extend(self.block(n.orelse, s))
                else:
                    res.append((s, k, p))
            return res + done
        lazy = self._lazy_map_loop(n, st)
        if lazy is not None:
            return lazy
        for s, k, it in self.expr(n.iter, st):
            if k != "val":
                outs.append((s, k, it))
                continue
            if isinstance(it, tuple) and len(it) == 3 and it[0] == "gen":
                outs.extend(self._iterate_generator(it, s, n, n.target, n.body, n.orelse))
                continue
            items = self.literal_items(it, s)
            if items is None and is_call(it, "ext:itertools.chain") and it[2] and not it[3] and not n.orelse and not any(isinstance(x, ast.Break) for x in ast.walk(n)):
                # for x in chain(A, B): body  ==  for x in A: body; for x in B: body
                cur = [(s, "fall", None)]
                for k_i, part in enumerate(it[2]):
                    nxt = []
                    for s1, k1, p1 in cur:
                        if k1 != "fall":
                            nxt.append((s1, k1, p1))
                            continue
                        s1 = s1.copy()
                        nm = "$chain_%d" % k_i
                        s1.env[nm] = part
                        sub = ast.For(target=n.target, iter=ast.Name(id=nm, ctx=ast.Load()), body=n.body, orelse=[])
                        ast.copy_location(sub, n)
                        ast.copy_location(sub.iter, n.iter)
                        sub.col_offset = n.col_offset + 1000 * (k_i + 1)  # a loop identity of its own
                        for s2, k2, p2 in self.s_For(sub, s1):
                            s2.env.pop(nm, None)
                            nxt.append((s2, k2, p2))
                    cur = nxt
                outs.extend(cur)
                continue
            if items is not None:
                outs.extend(self._unrolled(n, s, items))
            else:
                outs.extend(self._loop(n, s, it, n.target, n.body, n.orelse))
        return outs

    UNROLL_MAX = 16

    def literal_items(self, it, s):
        """element terms of an iterable that is a fresh literal display (list/tuple/set display, a
        dict display through items()/keys()/values() or directly, zip()/enumerate() of displays) -
        such loops are unrolled, so tables of validators or of (suffix, class, key) triples are
        analysed element by element.  None if `it` is not of that shape."""
        def untouched(lit):
            for ev in _deep_events(s.events):
                if ev[0] in ("store", "del", "mutcall") and _root_term(ev[2]) == lit:
                    return False
            return True

        if isinstance(it, tuple) and len(it) == 2 and it[0] == "global" and it[1].startswith("const:"):
            # a module-level table: a tuple display bound once (tuples cannot be modified in place)
            lit = self.eng.const_literal(it[1][6:])
            if lit is not None and is_lit(lit, "tuple") and len(lit[2]) <= self.UNROLL_MAX:
                return list(lit[2])
            tab = self.eng.stable_table(it)
            if tab is not None and len(tab[2]) <= self.UNROLL_MAX:
                return [k for k, _v in tab[2]]  # iterating a table of constants: its keys, in order
            return None
        if isinstance(it, tuple) and len(it) == 3 and it[0] == "nt":
            return list(it[2])
        if is_const(it) and isinstance(it[2], str) and 0 < len(it[2]) <= self.UNROLL_MAX:
            return [C(ch) for ch in it[2]]  # a constant string: its characters
        if isinstance(it, tuple) and len(it) == 2 and it[0] == "global" and it[1].startswith("class:") and it[1][6:] in self.prog.classes and self.prog.classes[it[1][6:]].is_enum:
            ci_e = self.prog.classes[it[1][6:]]
            return [("enum", ci_e.qualname, nm) for nm in ci_e.enum_members()]
        if is_lit(it) and it[1] in ("list", "tuple", "set") and len(it[2]) <= self.UNROLL_MAX and untouched(it):
            if it[1] == "set" and len(it[2]) > 1:
                return None  # iteration order of a set display is not the source order
            return list(it[2])
        def distinct_keys(d):
            # a display with keys that may be equal collapses them (the later entry wins): only
            # displays whose keys are pairwise different constants have one entry per pair
            ks = [k for k, _v in d[2]]
            return all(is_const(k) for k in ks) and len({(k[1], k[2]) for k in ks}) == len(ks)

        if is_lit(it, "dict") and len(it[2]) <= self.UNROLL_MAX and untouched(it) and distinct_keys(it):
            return [k for k, _v in it[2]]
        if is_call(it, ("method:items", "method:keys", "method:values")) and len(it[2]) == 1 and is_lit(it[2][0], "dict") and len(it[2][0][2]) <= self.UNROLL_MAX and untouched(it[2][0]) and distinct_keys(it[2][0]):
            d = it[2][0]
            if it[1] == "method:items":
                return [("lit", "tuple", (k, v), None) for k, v in d[2]]
            if it[1] == "method:keys":
                return [k for k, _v in d[2]]
            return [v for _k, v in d[2]]
        if is_call(it, "builtin:zip") and it[2] and not it[3]:
            cols = [self.literal_items(a, s) for a in it[2]]
            if all(c is not None for c in cols):
                n = min(len(c) for c in cols)
                return [("lit", "tuple", tuple(c[i] for c in cols), None) for i in range(n)]
        if is_call(it, "ext:itertools.chain") and it[2] and not it[3]:
            cols = [self.literal_items(a, s) for a in it[2]]
            if all(c is not None for c in cols):
                return [x for c in cols for x in c]
        if is_call(it, "builtin:enumerate") and len(it[2]) == 1 and not it[3]:
            col = self.literal_items(it[2][0], s)
            if col is not None:
                return [("lit", "tuple", (C(i), x), None) for i, x in enumerate(col)]
        if is_call(it, ("builtin:list", "builtin:tuple", "builtin:sorted", "builtin:reversed", "builtin:iter")) and len(it[2]) == 1 and not it[3] and it[1] != "builtin:sorted":
            col = self.literal_items(it[2][0], s)
            if col is not None:
                return col[::-1] if it[1] == "builtin:reversed" else col
        return None

    def _unrolled(self, n, s, items):
        cur = [(s, "fall", None)]
        done = []
        for item in items:
            nxt = []
            for s1, k1, p1 in cur:
                if k1 != "fall":
                    nxt.append((s1, k1, p1))
                    continue
                for s0, k0, p0 in self._assign_target(n.target, item, s1.copy(), n):
                    if k0 != "fall":
                        nxt.append((s0, k0, p0))
                        continue
                    for s2, k2, p2 in self.block(n.body, s0):
                        if k2 in ("fall", "continue"):
                            nxt.append((s2, "fall", None))
                        elif k2 == "break":
                            done.append((s2, "fall", None))
                        else:
                            nxt.append((s2, k2, p2))
            cur = nxt
            if len(cur) > PATH_CAP:
                raise AnalysisError("path cap exceeded while unrolling a loop in %s" % self.fi.qualname)
        res = []
        for s1, k1, p1 in cur:
            if k1 == "fall" and n.orelse:
                res.extend(self.block(n.orelse, s1))
            else:
                res.append((s1, k1, p1))
        return res + done

    def iter_shape(self, it, s, node, outs):
        """-> (base container term, mode) where mode in items/values/keys/plain; may add a
        TypeError outcome if `it` may not be iterable"""
        base, mode = it, "plain"
        if is_call(it, "method:items") and len(it[2]) == 1:
            base, mode = it[2][0], "items"
        elif is_call(it, "method:keys") and len(it[2]) == 1:
            base, mode = it[2][0], "keys"
        elif is_call(it, "method:values") and len(it[2]) == 1:
            base, mode = it[2][0], "values"
        elif is_call(it, ("builtin:sorted", "builtin:list", "builtin:tuple", "builtin:set", "builtin:reversed")) and len(it[2]) == 1:
            inner, m2 = self.iter_shape(it[2][0], s, node, [])
            return inner, m2
        if mode == "plain":
            ts = s.types(it)
            if ts is None or not ts <= (CONTAINERS | {"generator"}):
                self.rz(outs, s, node, "TypeError", "iteration over a value that may not be iterable", [("nottype", it, CONTAINERS)])
        return base, mode

    def _int_constant(self, t):
        """the value of an int constant, or of a module-level name bound once to one"""
        for _ in range(4):
            if is_const(t):
                return t[2] if isinstance(t[2], int) and not isinstance(t[2], bool) else None
            if isinstance(t, tuple) and len(t) == 2 and t[0] == "global" and t[1].startswith("const:"):
                if self.eng.is_rebound(*t[1][6:].rsplit(".", 1)):
                    return None
                t = self.eng.const_literal(t[1][6:])
                if t is None:
                    return None
                continue
            return None
        return None

    def _elem_of_class_table(self, b):
        """b is an element of a module-level display all of whose items are classes / builtin types"""
        if not (isinstance(b, tuple) and len(b) == 3 and b[0] == "elem"):
            return False
        base = b[1]
        if not (isinstance(base, tuple) and len(base) == 2 and base[0] == "global" and base[1].startswith("const:")):
            return False
        lit = self.eng.const_literal(base[1][6:])
        return lit is not None and is_lit(lit) and lit[1] in ("list", "tuple", "set") and bool(lit[2]) and all(isinstance(i, tuple) and len(i) == 2 and i[0] == "global" and i[1].startswith(("builtin:", "class:")) for i in lit[2]) and not self.eng.is_rebound(*base[1][6:].rsplit(".", 1))

    def _certainly_nonempty(self, base, s):
        if is_lit(base) and base[2]:
            return True
        ln = CallT("builtin:len", [base])
        return bool(s.holds(("nonempty", base)) or s.holds(("truthy", base)) or s.holds(("cmp", ">", ln, C(0))) or s.holds(("cmp", ">=", ln, C(1))) or s.holds(("ne", ln, C(0))))

    def _lazy_map_loop(self, n, st):
        """for y in map(f, xs): body  is  for x in xs: y = f(x); body  (map is lazy: f runs on
        each element right before the body does).  f is evaluated once, before the loop."""
        it = n.iter
        if not (isinstance(it, ast.Call) and isinstance(it.func, ast.Name) and it.func.id == "map" and len(it.args) == 2 and not it.keywords and not any(isinstance(a, ast.Starred) for a in it.args)):
            return None
        if "map" in st.env or self.prog.resolve_dotted(self.mod, ["map"])[0][0] != "builtin":
            return None
        outs = []
        fn_name, el_name = "$mapf_%d_%d" % (n.lineno, n.col_offset), "$mapx_%d_%d" % (n.lineno, n.col_offset)
        for s, k, fv in self.expr(it.args[0], st):
            if k != "val":
                outs.append((s, k, fv))
                continue
            s = s.copy()
            s.env[fn_name] = fv
            call = ast.Call(func=ast.Name(id=fn_name, ctx=ast.Load()), args=[ast.Name(id=el_name, ctx=ast.Load())], keywords=[])
            assign = ast.Assign(targets=[n.target], value=call)
            sub = ast.For(target=ast.Name(id=el_name, ctx=ast.Store()), iter=it.args[1], body=[assign] + list(n.body), orelse=n.orelse)
            for x in ast.walk(sub):
                if not hasattr(x, "lineno"):
                    ast.copy_location(x, it)
            ast.copy_location(sub, n)
            ast.fix_missing_locations(sub)
            for s2, k2, p2 in self.s_For(sub, s):
                s2.env.pop(fn_name, None)
                s2.env.pop(el_name, None)
                outs.append((s2, k2, p2))
        return outs

    def _loop(self, n, s, it, target, body, orelse):
        outs = []
        base, mode = self.iter_shape(it, s, n, outs)
        loop_id = (self.fi.qualname, getattr(n, "lineno", 0), getattr(n, "col_offset", 0))
        el = Elem(base, loop_id)
        body_st = s.copy()
        for nm in self._assigned_names(body):
            if nm in body_st.env and not (isinstance(target, ast.Name) and target.id == nm):
                body_st.env[nm] = Fresh("loopvar_" + nm)
        bts = s.types(base)
        is_dict = bts is not None and bts <= {"dict"}
        if mode == "items":
            tv = ("lit", "tuple", (el, Sub(base, el)), None)
            body_st.add(("has", base, el), ("ok", Sub(base, el)))
        elif mode == "values":
            tv = Sub(base, el)
            body_st.add(("has", base, el), ("ok", Sub(base, el)))
        else:
            tv = el
            if is_dict or mode == "keys":
                body_st.add(("has", base, el), ("ok", Sub(base, el)))
            else:
                body_st.add(("has", base, el))  # membership: el is an element of the sequence
                if bts is not None and bts <= {"str"}:
                    body_st.add(("type", el, frozenset(["str"])))
        body_st.events = ()
        body_outs = []
        for s0, k0, p0 in self._assign_target(target, tv, body_st, n):
            if k0 != "fall":
                body_outs.append((s0, k0, p0))
            else:
                self.eng.symloop_depth = getattr(self.eng, "symloop_depth", 0) + 1
                try:
                    body_outs.extend(self.block(body, s0))
                finally:
                    self.eng.symloop_depth -= 1
        normal = None
        body_paths = []
        for s2, k2, p2 in body_outs:
            delta = frozenset(f for f in s2.facts - s.facts if is_param_rooted(f))
            body_paths.append((k2, delta, s2.events, p2, frozenset(s2.facts)))
            if k2 in ("fall", "continue"):
                normal = delta if normal is None else merge_facts([normal, delta])
            elif k2 == "break":
                pass
            else:
                # raise/return inside the loop: leaves the function from an iteration
                s3 = s2.copy()
                s3.events = s.events + (("loop-iter", self.site(n), base, el),) + s2.events
                if k2 == "raise":
                    p2 = Exc(p2.exc, p2.chain, set(p2.conds) | {("nonempty", base)}, p2.origin, p2.why)
                outs.append((s3, k2, p2))
        after = s.copy()
        for nm in self._assigned_names(body) | set(_names_of_target(target)):
            after.env[nm] = Fresh("afterloop_" + nm)
        # a name that the loop binds for the first time (its target, or an assignment in its body) has
        # no value after a loop that did not run at all
        if not self._certainly_nonempty(base, s):
            for nm in self._assigned_names(body) | set(_names_of_target(target)):
                if nm not in s.env and not nm.startswith("$") and nm in after.env:
                    after.env[nm] = ("maybeunbound", after.env[nm], "the loop that binds it may not run at all (empty %s)" % show(base)[:40])
        # `except E as name:` deletes `name` when the handler is left - also a binding made before
        # the loop: after an iteration that went through the handler the name is unbound
        hnames = {h.name for b in body for h in ast.walk(b) if isinstance(h, ast.ExceptHandler) and h.name}
        for nm in hnames:
            if nm in s.env and any(k2 in ("fall", "continue", "break") and nm not in s2.env for s2, k2, _p2 in body_outs):
                after.env[nm] = ("maybeunbound", after.env.get(nm, Fresh("afterloop_" + nm)))
        if normal:
            keep = frozenset(f for f in normal if _mentions(f, el) or f[0] in ("forall",))
            if keep:
                after.add(("forall", base, loop_id, keep))
        alts = frozenset(frozenset(f for f in bp[1] if _mentions(f, el)) for bp in body_paths if bp[0] in ("fall", "continue"))
        if len(alts) > 1 and all(alts) and not any(bp[0] == "break" for bp in body_paths):
            # every element completed the body along one of these alternatives
            after.add(("forallalt", base, loop_id, alts))
        after.ev("loop", self.site(n), base, el, tuple(body_paths))
        if any(k2 == "break" for _s, k2, _p in body_outs) or not orelse:
            outs.append((after, "fall", None))
        if orelse:
            outs.extend(self.block(orelse, after.copy()))
        return outs

    def s_While(self, n, st):
        special = self._next_loop(n, st)
        if special is not None:
            return special
        s = st.copy()
        for nm in self._assigned_names(n.body):
            if nm in s.env:
                s.env[nm] = Fresh("while_" + nm)
        outs = []
        body_paths = []
        for s1, k1, p1 in self.cond(n.test, s):
            if k1 == "true":
                b = s1.copy()
                b.events = ()
                self.eng.symloop_depth = getattr(self.eng, "symloop_depth", 0) + 1
                try:
                    while_outs = self.block(n.body, b)
                finally:
                    self.eng.symloop_depth -= 1
                for s2, k2, p2 in while_outs:
                    body_paths.append((k2, frozenset(), s2.events, p2, frozenset(s2.facts)))
                    if k2 in ("raise", "return"):
                        s3 = s2.copy()
                        s3.events = s1.events + (("loop-iter", self.site(n), None, None),) + s2.events
                        outs.append((s3, k2, p2))
            elif k1 == "false":
                pass
            else:
                outs.append((s1, k1, p1))
        after = s.copy()
        for nm in self._assigned_names(n.body):
            after.env[nm] = Fresh("afterwhile_" + nm)
        after.ev("while", self.site(n), tuple(body_paths))
        outs.append((after, "fall", None))
        return outs

    # ---- try
    def s_Try(self, n, st):
        outs = []
        for s, k, p in self.block(n.body, st):
            if k == "raise":
                handled = False
                vague = p.origin in ("dynamic", "unknown-callable", "opaque")
                # a file-system primitive "may fail with OSError" stands for the whole family
                # (FileExistsError, FileNotFoundError, PermissionError, IsADirectoryError, ...):
                # a handler for one member possibly catches it, and it possibly passes the handler
                vague = vague or (p.exc == "OSError" and p.origin in ("implicit", "io-write"))
                for h in n.handlers:
                    names = self.handler_classes(h, s)
                    dyn = "?dynamic" in names
                    names = [nm for nm in names if nm != "?dynamic"]
                    certain = any(self.prog.exc_is_sub(p.exc, nm) for nm in names)
                    # an exception from code the analysis does not see ("may raise anything") may be
                    # any subclass: a narrower handler possibly catches it, and it possibly escapes
                    possible = dyn or (vague and any(self.prog.exc_is_sub(nm, p.exc) for nm in names))
                    if possible and not certain:
                        hs = s.copy()
                        sub_names = [nm for nm in names if self.prog.exc_is_sub(nm, p.exc)]
                        narrowed = Exc(sub_names[0], p.chain, p.conds, p.origin, p.why) if sub_names and vague else p
                        hs.env["$exc"] = narrowed
                        if h.name:
                            hs.env[h.name] = ("excobj", narrowed.exc)
                        hs.ev("caught", self.site(h), narrowed.exc, tuple(names), p.site(), p.conds, p.chain)
                        for s2, k2, p2 in self.block(h.body, hs):
                            s2.env.pop("$exc", None)
                            if h.name:
                                s2.env.pop(h.name, None)
                            outs.append((s2, k2, p2))
                        continue
                    if certain:
                        hs = s.copy()
                        hs.env["$exc"] = p
                        if h.name:
                            hs.env[h.name] = ("excobj", p.exc)
                        for c in p.conds:
                            if is_param_rooted(c):
                                hs.add(c)
                        hs.ev("caught", self.site(h), p.exc, tuple(names), p.site(), p.conds, p.chain)
                        for s2, k2, p2 in self.block(h.body, hs):
                            s2.env.pop("$exc", None)
                            if h.name:
                                s2.env.pop(h.name, None)
                            outs.append((s2, k2, p2))
                        handled = True
                        break
                if not handled:
                    outs.append((s, k, p))
            elif k == "fall":
                outs.extend(self.block(n.orelse, s))
            else:
                outs.append((s, k, p))
        # resource exhaustion (deep recursion, memory) can strike inside any call: a handler written
        # for it is reachable, from a state in which nothing of the body is known to have happened
        for h in n.handlers:
            if h.type is None:
                continue
            names = [nm for nm in self.handler_classes(h, st) if nm != "?dynamic"]
            res_names = [nm for nm in names if nm in ("RecursionError", "MemoryError")]
            if res_names and any(isinstance(x, ast.Call) for b in n.body for x in ast.walk(b)):
                hs = st.copy()
                x = Exc(res_names[0], [self.site(n)], (), "resource", "resource exhaustion inside the try block")
                hs.env["$exc"] = x
                if h.name:
                    hs.env[h.name] = ("excobj", res_names[0])
                hs.ev("caught", self.site(h), res_names[0], tuple(names), self.site(n), (), (self.site(n),))
                for s2, k2, p2 in self.block(h.body, hs):
                    s2.env.pop("$exc", None)
                    if h.name:
                        s2.env.pop(h.name, None)
                    outs.append((s2, k2, p2))
        if n.finalbody:
            res = []
            for s, k, p in outs:
                for s2, k2, p2 in self.block(n.finalbody, s):
                    if k2 == "fall":
                        res.append((s2, k, p))
                    else:
                        res.append((s2, k2, p2))
            return res
        return outs

    s_TryStar = None

    def handler_classes(self, h, st):
        if h.type is None:
            return ["BaseException"]
        def value_of(x):
            # `except A or B:` - the expression is evaluated like any other: classes are truthy,
            # so `A or B` is A and `A and B` is B (a tuple `(A, B)` was meant)
            while isinstance(x, ast.BoolOp) and x.values:
                x = x.values[0] if isinstance(x.op, ast.Or) else x.values[-1]
            return x

        t0 = value_of(h.type)
        nodes = [value_of(x) for x in t0.elts] if isinstance(t0, ast.Tuple) else [t0]
        out = []
        for x in nodes:
            if isinstance(x, ast.Name) and x.id in st.env and is_lit(st.env[x.id]) and st.env[x.id][1] == "tuple" and all(isinstance(it, tuple) and len(it) == 2 and it[0] == "global" for it in st.env[x.id][2]):
                out.extend(it[1].split(":", 1)[1].split(".")[-1] for it in st.env[x.id][2])
                continue
            names = self._exc_tuple_constant(x, st)
            if names is not None:
                out.extend(names)
            elif isinstance(x, ast.Name) and x.id in st.env and isinstance(st.env[x.id], tuple) and st.env[x.id][0] == "param":
                # `except unwelcome:` in a helper analysed on its own: the class is whatever a
                # caller passes - the handler possibly catches, and the exception possibly escapes
                out.append("?dynamic")
            else:
                out.append(self.exc_class_name(x, st))
        return out

    def _exc_tuple_constant(self, node, st):
        """except ERRORS: where ERRORS is a module-level tuple of exception classes"""
        chain = dotted_chain(node)
        if not chain or not self._is_module_level(chain[0], st):
            return None
        r, rest = self.prog.resolve_dotted(self.mod, chain)
        if r[0] != "const" or rest:
            return None
        lit = self.eng.const_literal("%s.%s" % (r[1], r[2]))
        if lit is None or not (is_lit(lit) and lit[1] == "tuple"):
            return None
        names = []
        for it in lit[2]:
            if isinstance(it, tuple) and len(it) == 2 and it[0] == "global" and it[1].startswith(("builtin:", "class:", "ext:")):
                nm = it[1].split(":", 1)[1]
                if it[1].startswith("ext:"):
                    nm = self.prog.exc_name_of_resolution(("ext", nm)) or nm
                names.append(nm.split(".")[-1] if it[1].startswith("class:") else nm)
            else:
                return None
        return names

    # ------------------------------------------------------------------ conditions
    def cond(self, e, st):
        """-> list of (state, 'true'|'false'|'raise', payload)"""
        outs = []
        for s, k, t in self.expr(e, st):
            if k != "val":
                outs.append((s, k, t))
            else:
                outs.extend(self.truth(t, s))
        return outs

    def truth(self, t, s):
        tv = s.truth_value(t)
        if tv is True:
            return [(s, "true", None)]
        if tv is False:
            return [(s, "false", None)]
        if is_call(t, "builtin:all") and t[2] and t[2][0][0] == "comp":
            comp = t[2][0]
            a = s.copy()
            a.add(("truthy", t))
            cf = self._comp_lookup("facts", comp)
            if cf:
                a.add(("forall", self._comp_base(comp), comp[4], cf))
            alts = self._comp_lookup("alts", comp)
            if alts and len(alts[0]) > 1 and all(alts[0]):
                a.add(("forallalt", self._comp_base(comp), comp[4], alts[0]))
            b = s.copy()
            b.add(("falsy", t), ("nonempty", comp[2]))
            if alts and alts[1]:
                # not all(...): some element makes the element expression false
                b.add(("exists", self._comp_base(comp), comp[4], alts[1]))
            return [(a, "true", None), (b, "false", None)]
        if is_call(t, "builtin:any") and t[2] and t[2][0][0] == "comp":
            comp = t[2][0]
            a = s.copy()
            a.add(("truthy", t), ("nonempty", comp[2]))
            b = s.copy()
            b.add(("falsy", t))
            alts = self._comp_lookup("alts", comp)
            if alts:
                if alts[0]:
                    a.add(("exists", self._comp_base(comp), comp[4], alts[0]))
                if alts[1]:
                    common = merge_facts(list(alts[1]))
                    if common:
                        # not any(...): the element expression is false for every element
                        b.add(("forall", self._comp_base(comp), comp[4], frozenset(common)))
            return [(a, "true", None), (b, "false", None)]
        a = s.copy()
        a.add(("truthy", t))
        b = s.copy()
        b.add(("falsy", t))
        return [(a, "true", None), (b, "false", None)]

    def exhaust(self, t, s):
        """a consumer ran the generator expression `t` to its end: every element was evaluated"""
        if isinstance(t, tuple) and len(t) == 5 and t[0] == "comp" and t[1] == "gen":
            hit = self.eng.__dict__.get("_comp_store", {}).get(("body", t[4]))
            if hit is not None:
                base0, keepf = hit
                base = self._comp_base(t)
                if base0 != base:
                    from .terms import _subst

                    keepf = _subst(keepf, {base0: base})
                s.add(("forall", base, t[4], keepf))

    def _comp_lookup(self, what, comp):
        """per-element facts of the comprehension a comp term came from - also when the
        comprehension was evaluated in a callee (a predicate returning all(...)) and the result is
        tested here: the facts are re-expressed over this caller's iterable term"""
        local = (self.comp_facts if what == "facts" else self.comp_alts).get((comp[2], comp[4]))
        if local is not None:
            return local
        hit = self.eng.__dict__.get("_comp_store", {}).get((what, comp[4]))
        if hit is None:
            return None
        it0, val = hit
        if it0 == comp[2]:
            return val
        from .terms import _subst

        return _subst(val, {it0: comp[2]})

    def _comp_base(self, comp):
        it = comp[2]
        if is_call(it, ("method:items", "method:keys", "method:values")):
            return it[2][0]
        return it

    # ------------------------------------------------------------------ expressions
    def seq(self, exprs, st):
        """evaluate expressions left to right -> ([(state, [terms])], [raise outcomes])"""
        cur = [(st, [])]
        outs = []
        for e in exprs:
            nxt = []
            for s, acc in cur:
                for s2, k, t in self.expr(e, s):
                    if k == "val":
                        nxt.append((s2, acc + [t]))
                    else:
                        outs.append((s2, k, t))
            cur = nxt
        return cur, outs

    def expr(self, e, st):
        m = getattr(self, "e_" + type(e).__name__, None)
        if m is None:
            self.unsupported(e, "expression")
        return m(e, st)

    def e_Constant(self, e, st):
        return [(st, "val", C(e.value))]

    def e_Name(self, e, st):
        if e.id in st.env and "$global:" + e.id not in st.env:
            t = st.env[e.id]
            if isinstance(t, tuple) and len(t) in (2, 3) and t[0] == "maybeunbound":
                outs = []
                self.rz(outs, st, e, "UnboundLocalError", ("'%s': %s" % (e.id, t[2])) if len(t) == 3 else "'%s' is deleted when an `except ... as %s` clause inside the loop is left" % (e.id, e.id), [])
                s2 = st.copy()
                s2.env[e.id] = t[1]
                outs.append((s2, "val", t[1]))
                return outs
            alias = st.env.get("$alias")
            if alias:
                try:
                    t = alias.get(t, t)
                except TypeError:
                    pass
            return [(st, "val", t)]
        if "$global:" + e.id not in st.env and e.id in self._local_names():
            # a local variable that is not bound on this path (assigned later / on another branch)
            outs = []
            self.rz(outs, st, e, "UnboundLocalError", "local variable '%s' may be read before assignment" % e.id, [])
            return outs
        return [(st, "val", self.global_term(e.id, e))]

    def _local_names(self):
        ln = getattr(self, "_locals", None)
        if ln is None:
            node = self.fi.node
            ln = set()
            for x in ast.walk(node):
                if isinstance(x, (ast.FunctionDef, ast.AsyncFunctionDef, ast.Lambda)) and x is not node:
                    continue
                if isinstance(x, ast.Name) and isinstance(x.ctx, (ast.Store, ast.Del)):
                    ln.add(x.id)
            self._locals = ln
        return ln

    def global_term(self, name, node):
        fi = self.fi.parent
        if fi is not None:
            # free variable of a closure: belongs to the enclosing function
            names = {a.arg for a in fi.node.args.args} | self._assigned_names(fi.node.body)
            if name in names:
                return ("free", name)
        r = self.prog.resolve_name(self.mod, name)
        return self.resolution_term(r, [], node)

    def resolution_term(self, r, rest, node):
        k = r[0]
        if k == "func":
            t = G("func:" + r[1])
        elif k == "class":
            t = G("class:" + r[1])
        elif k == "const":
            t = G("const:%s.%s" % (r[1], r[2]))
            folded = self.eng.immutable_const(r[1], r[2])
            if folded is not None:
                if not rest:
                    return folded
                t = folded
        elif k == "ext":
            t = G("ext:" + r[1])
        elif k == "extmod":
            t = G("ext:" + r[1])
        elif k == "pkg":
            t = G("ext:" + r[1])
        elif k == "repomod":
            t = G("module:" + r[1])
        elif k == "builtin":
            if r[1] in ("True", "False", "None"):
                return C({"True": True, "False": False, "None": None}[r[1]])
            t = G("builtin:" + r[1])
        else:
            raise AnalysisError("unresolved name %s at %s" % (r[1], self.site(node)))
        rest = list(rest)
        if k == "class" and rest and r[1] in self.prog.classes and not self.prog.classes[r[1]].is_enum and self.prog.find_method(r[1], rest[0]) is None:
            cv = self._class_constant(self.prog.classes[r[1]], rest[0])
            if cv is not None:
                t, rest = cv, rest[1:]
        if k == "class" and rest:
            ci_e = self.prog.classes.get(r[1])
            if ci_e is not None and ci_e.is_enum and rest[0] in ci_e.enum_members():
                t = ("enum", ci_e.qualname, rest.pop(0))
                if rest and rest[0] == "name":
                    t, rest = C(t[2]), rest[1:]
                elif rest and rest[0] == "value":
                    v = self.eng.static_term(ci_e.mod, ci_e.enum_members()[t[2]])
                    if v is not None:
                        t, rest = v, rest[1:]
        for a in rest:
            t = ("attr", t, a)
        return t

    def const_literal(self, gterm, st):
        """literal term of a module constant G('const:mod.NAME') (single assignment), else None"""
        if not (isinstance(gterm, tuple) and gterm[0] == "global" and gterm[1].startswith("const:")):
            return None
        return self.eng.const_literal(gterm[1][6:])

    def _is_module_level(self, name, st):
        if name in st.env and "$global:" + name not in st.env:
            return False
        if self.fi.parent is not None and self.global_term_is_free(name):
            return False
        return True

    def e_Attribute(self, e, st):
        chain = dotted_chain(e)
        if chain and chain[0] == "super()" and len(chain) == 2 and self.fi.cls:
            # super().name taken as a value (passed to a helper): the next implementation in the MRO
            cur_cls = self.fi.mod.short + "." + self.fi.cls
            m = self.prog.find_method(self.clsbind or cur_cls, chain[1], after=cur_cls)
            if m is not None and m[0] != "repo":
                return [(st, "val", G("ext:" + m[1]))]
        deep = False
        if chain and chain[0] != "super()" and self._is_module_level(chain[0], st):
            r0, rest0 = self.prog.resolve_dotted(self.mod, chain)
            # Class.MEMBER.attr / CONST.field.attr: the last step is an attribute of a value
            deep = r0[0] in ("class", "const") and len(rest0) >= 2
        if chain and chain[0] != "super()" and self._is_module_level(chain[0], st) and not deep:
            r, rest = self.prog.resolve_dotted(self.mod, chain)
            if r[0] == "unknown":
                raise AnalysisError("unresolved name %s at %s" % (".".join(chain), self.site(e)))
            s = st
            outs = []
            if chain[0] in self.mod.imports and len(chain) > 1:
                s = st.copy()
                missing = self.eng.imports.check_chain(self.mod, chain)
                s.ev("attrchain", self.site(e), tuple(chain), r, missing)
                if missing is not None:
                    self.rz(outs, st, e, "AttributeError", "submodule %s is used without being imported and is not in the static import closure of %s" % (missing, self.mod.name), [], origin="import-closure")
            outs.append((s, "val", self.resolution_term(r, rest, e)))
            return outs
        outs = []
        for s, k, b in self.expr(e.value, st):
            if k != "val":
                outs.append((s, k, b))
                continue
            if isinstance(b, tuple) and b[0] == "param" and (b, e.attr) in s.env.get("$heap", {}):
                outs.append((s, "val", s.env["$heap"][(b, e.attr)]))
                continue
            if e.attr == "args" and isinstance(b, tuple) and b and b[0] == "excobj":
                t_args = ("attr", b, "args")  # the arguments an exception was made with: a tuple
                s = s.copy()
                s.add(("type", t_args, frozenset(["tuple"])))
                outs.append((s, "val", t_args))
                continue
            if e.attr in ("__name__", "__qualname__", "__module__") and (is_call(b, "builtin:type") or (isinstance(b, tuple) and len(b) == 2 and b[0] == "global" and b[1].startswith(("builtin:", "class:", "func:"))) or b[0] == "excobj" or self._elem_of_class_table(b)):
                # the name of a class (type(x).__name__, dict.__name__, an exception's class): a str
                t_nm = ("attr", b, e.attr)
                s = s.copy()
                s.add(("type", t_nm, frozenset(["str"])))
                outs.append((s, "val", t_nm))
                continue
            if isinstance(b, tuple) and len(b) == 3 and b[0] == "nt" and b[1] == "inspect.BoundArguments":
                outs.append((s, "val", b[2][0] if e.attr == "arguments" else ("attr", b, e.attr)))
                continue
            if isinstance(b, tuple) and len(b) == 3 and b[0] in ("obj", "nt", "enum") and not (b[0] == "nt" and b[1] in self.prog.classes and e.attr in [n_ for n_, _d in self.prog.classes[b[1]].nt_fields()]):
                m_p0 = self.prog.find_method(b[1], e.attr)
                if m_p0 is not None and m_p0[0] == "repo" and any(ast.unparse(d) in ("property", "functools.cached_property", "cached_property") for d in m_p0[1].node.decorator_list):
                    from .calls import apply_repo

                    outs.extend(apply_repo(self, e, m_p0[1], None, (b,), (), s))
                    continue
            if b[0] == "global" and b[1].startswith("ext:"):
                outs.append((s, "val", G(b[1] + "." + e.attr)))
                continue
            if b[0] == "global" and b[1].startswith("module:"):
                r = self.prog.resolve_name(self.prog.by_short[b[1][7:]], e.attr)
                outs.append((s, "val", self.resolution_term(r, [], e)))
                continue
            if b[0] == "global" and b[1].startswith("class:"):
                ci_e = self.prog.classes.get(b[1][6:])
                if ci_e is not None and ci_e.is_enum and e.attr in ci_e.enum_members():
                    outs.append((s, "val", ("enum", ci_e.qualname, e.attr)))
                    continue
            if b[0] == "enum" and len(b) == 3:
                ci_e = self.prog.classes.get(b[1])
                if e.attr == "name":
                    outs.append((s, "val", C(b[2])))
                    continue
                if e.attr == "value" and ci_e is not None:
                    v = self.eng.static_term(ci_e.mod, ci_e.enum_members()[b[2]])
                    outs.append((s, "val", v if v is not None else ("attr", b, "value")))
                    continue
                if ci_e is not None:
                    iv = self._enum_init_attr(ci_e, b[2], e.attr)
                    if iv is not None:
                        outs.append((s, "val", iv))
                        continue
                m_e = self.prog.find_method(b[1], e.attr) if ci_e is not None else None
                if m_e is not None and m_e[0] == "repo" and any(ast.unparse(d) in ("property", "functools.cached_property", "cached_property") for d in m_e[1].node.decorator_list):
                    from .calls import apply_repo

                    outs.extend(apply_repo(self, e, m_e[1], None, (b,), (), s))
                    continue
                if m_e is not None:
                    outs.append((s, "val", ("attr", b, e.attr)))
                    continue
            nt = b
            if b[0] == "global" and b[1].startswith("const:"):
                lit = self.eng.const_literal(b[1][6:])
                if lit is not None and lit[0] == "nt":
                    nt = lit
            if b[0] in ("obj", "nt", "enum") and len(b) == 3:
                m_p = self.prog.find_method(b[1], e.attr)
                if m_p is not None and m_p[0] == "repo" and any(isinstance(d, ast.Name) and d.id in ("property", "cached_property") or ast.unparse(d) in ("functools.cached_property",) for d in m_p[1].node.decorator_list):
                    # a property: reading the attribute runs the method
                    from .calls import apply_repo

                    outs.extend(apply_repo(self, e, m_p[1], None, (b,), (), s))
                    continue
            if b[0] == "global" and b[1].startswith("class:") and b[1][6:] in self.prog.classes:
                cv = self._class_constant(self.prog.classes[b[1][6:]], e.attr)
                if cv is not None:
                    outs.append((s, "val", cv))
                    continue
            if b[0] in ("obj", "nt") and len(b) == 3 and b[1] in self.prog.classes and not (b[0] == "obj" and (b, e.attr) in s.env.get("$heap", {})):
                names_nt = [n for n, _d in self.prog.classes[b[1]].nt_fields()] if b[0] == "nt" else []
                if e.attr not in names_nt:
                    cv = self._class_constant(self.prog.classes[b[1]], e.attr)
                    if cv is not None:
                        outs.append((s, "val", cv))
                        continue
            if b[0] == "obj" and len(b) == 3:
                heap = s.env.get("$heap", {})
                if (b, e.attr) in heap:
                    outs.append((s, "val", heap[(b, e.attr)]))
                    continue
                if self.prog.find_method(b[1], e.attr) is not None:
                    outs.append((s, "val", ("attr", b, e.attr)))
                    continue
                self.rz(outs, s, e, "AttributeError", "attribute %s of a %s object may not be set" % (e.attr, b[1]), [("nohasattr", b, e.attr)])
                outs.append((s, "val", ("attr", b, e.attr)))
                continue
            if nt[0] == "nt" and len(nt) == 3:
                ci = self.prog.classes.get(nt[1])
                names = [n for n, _d in ci.nt_fields()] if ci is not None else []
                if e.attr in names:
                    outs.append((s, "val", nt[2][names.index(e.attr)]))
                    continue
                if ci is not None and self.prog.find_method(nt[1], e.attr) is not None:
                    outs.append((s, "val", ("attr", nt, e.attr)))
                    continue
                self.rz(outs, s, e, "AttributeError", "attribute %s on a %s" % (e.attr, nt[1]), [])
                continue
            ts = s.types(b)
            if ts is not None and all(x in _ATTRS for x in ts):
                if not _has_attr(ts, e.attr):
                    self.rz(outs, s, e, "AttributeError", "attribute %s on %s" % (e.attr, sorted(ts)), [("type", b, ts)])
                    if not any(e.attr in _ATTRS[x] for x in ts):
                        continue
            elif ts is None and b[0] != "global":
                self.rz(outs, s, e, "AttributeError", "attribute %s on a value of unknown type" % e.attr, [("nohasattr", b, e.attr)])
            outs.append((s, "val", ("attr", b, e.attr)))
        return outs

    def _enum_init_attr(self, ci, member, attr):
        """an Enum whose __init__(self, a, b) stores the unpacked member value in attributes
        (`self.suffix = a` as a top-level statement, assigned once): the attribute of a member"""
        init = ci.methods.get("__init__")
        if init is None:
            return None
        params = [a.arg for a in init.node.args.args][1:]
        if init.node.args.vararg or init.node.args.kwarg or init.node.args.kwonlyargs or init.node.args.defaults:
            return None
        hits = []
        for st_ in ast.walk(init.node):
            if isinstance(st_, (ast.Assign, ast.AugAssign, ast.AnnAssign)):
                tgts = st_.targets if isinstance(st_, ast.Assign) else [st_.target]
                for tg in tgts:
                    for x in ast.walk(tg):
                        if isinstance(x, ast.Attribute) and x.attr == attr and isinstance(x.value, ast.Name) and x.value.id == init.node.args.args[0].arg:
                            hits.append(st_)
        if len(hits) != 1 or hits[0] not in init.node.body or not isinstance(hits[0], ast.Assign) or len(hits[0].targets) != 1 or not isinstance(hits[0].targets[0], ast.Attribute):
            return None
        val = hits[0].value
        if not (isinstance(val, ast.Name) and val.id in params):
            return None
        # the parameter must not be rebound before the store
        for st_ in init.node.body[: init.node.body.index(hits[0])]:
            if any(isinstance(x, ast.Name) and x.id == val.id and isinstance(x.ctx, ast.Store) for x in ast.walk(st_)):
                return None
        mv = self.eng.static_term(ci.mod, ci.enum_members()[member])
        if mv is None:
            return None
        items = mv[2] if is_lit(mv, "tuple") else (tuple(C(x) for x in mv[2]) if is_const(mv) and isinstance(mv[2], tuple) else (mv,))
        if len(items) != len(params):
            return None
        return items[params.index(val.id)]

    def _class_constant(self, ci, name):
        """value of a class-level constant `NAME = <static expression>` (no annotation-only fields)"""
        if ci.is_enum:
            return None
        if name == "_fields" and ci.is_namedtuple and not ci.is_dataclass:
            return ("lit", "tuple", tuple(C(n) for n, _d in ci.nt_fields()), None)
        for st_ in ci.node.body:
            tgt = None
            if isinstance(st_, ast.Assign) and len(st_.targets) == 1 and isinstance(st_.targets[0], ast.Name):
                tgt, val = st_.targets[0].id, st_.value
            elif isinstance(st_, ast.AnnAssign) and isinstance(st_.target, ast.Name) and st_.value is not None and not ci.is_namedtuple:
                tgt, val = st_.target.id, st_.value
            if tgt == name:
                return self.eng.static_term(ci.mod, val)
        return None

    def global_term_is_free(self, name):
        fi = self.fi.parent
        names = {a.arg for a in fi.node.args.args} | self._assigned_names(fi.node.body)
        return name in names

    def e_List(self, e, st):
        return self._display(e, "list", st)

    def e_Tuple(self, e, st):
        return self._display(e, "tuple", st)

    def e_Set(self, e, st):
        return self._display(e, "set", st)

    def _display(self, e, kind, st):
        starred = [isinstance(x, ast.Starred) for x in e.elts]
        cur, outs = self.seq([x.value if isinstance(x, ast.Starred) else x for x in e.elts], st)
        for s, ts in cur:
            items = []
            unknown = False
            for t, st_ in zip(ts, starred):
                if not st_:
                    items.append(t)
                    continue
                spliced = self.literal_items(t, s)  # (*display,) / (*dict_display,): splice its items
                if spliced is None:
                    unknown = True
                    break
                items.extend(spliced)
            if unknown:
                outs.append((s, "val", Fresh("starred-display")))
                continue
            site = None if kind == "tuple" else self.site(e)[:3]
            outs.append((s, "val", ("lit", kind, tuple(items), site)))
        return outs

    def e_Dict(self, e, st):
        nodes = []
        for k, v in zip(e.keys, e.values):
            nodes += [ast.Constant(value="**") if k is None else k, v]
        cur, outs = self.seq(nodes, st)
        for s, ts in cur:
            items = tuple((("unpack",) if e.keys[i // 2] is None else ts[i], ts[i + 1]) for i in range(0, len(ts), 2))
            # {**{...literal...}, k: v}: splice literal dict displays; other mappings stay as ("unpack",) items
            flat_items = []
            for kk, vv in items:
                if kk == ("unpack",) and is_lit(vv, "dict") and not any(k2 == ("unpack",) for k2, _v2 in vv[2]):
                    flat_items.extend(vv[2])
                    continue
                ks = None
                if kk == ("unpack",):
                    # **d with a dict whose key set was established (keys(d) == {...}): its entries
                    vt = s.types(vv)
                    if vt is not None and vt <= {"dict"}:
                        for f in s.closure():
                            if f[0] == "keys" and f[1] == vv and all(isinstance(k0, str) for k0 in f[2]):
                                ks = f[2]
                if ks is not None:
                    flat_items.extend((C(k0), Sub(vv, C(k0))) for k0 in sorted(ks))
                else:
                    flat_items.append((kk, vv))
            # a later entry under the same constant key replaces the earlier one (keeping its position)
            dedup, pos = [], {}
            for kk, vv in flat_items:
                if is_const(kk) and kk in pos and not any(k2 == ("unpack",) for k2, _v in flat_items):
                    dedup[pos[kk]] = (kk, vv)
                else:
                    if is_const(kk):
                        pos[kk] = len(dedup)
                    dedup.append((kk, vv))
            items = tuple(dedup)
            t = ("lit", "dict", items, self.site(e)[:3])
            s = s.copy()
            for kk, vv in items:
                if kk != ("unpack",):
                    s.add(("has", t, kk))
            outs.append((s, "val", t))
        return outs

    def e_JoinedStr(self, e, st):
        nodes = []
        for v in e.values:
            if isinstance(v, ast.FormattedValue):
                nodes.append(v.value)
        cur, outs = self.seq(nodes, st)
        for s, ts in cur:
            parts = []
            i = 0
            for v in e.values:
                if isinstance(v, ast.Constant):
                    parts.append(C(v.value))
                else:
                    conv = {97: "builtin:ascii", 114: "builtin:repr", 115: "builtin:str", -1: "builtin:format"}[v.conversion]
                    parts.append(CallT(conv, [ts[i]]))
                    if v.format_spec is not None and v.conversion == -1:
                        self._format_spec(outs, s, v, ts[i])
                    i += 1
            outs.append((s, "val", ("fstr", tuple(parts))))
        return outs

    def _format_spec(self, outs, s, v, t):
        """format(value, spec): ValueError/TypeError unless the value's type fits the presentation type"""
        spec = v.format_spec
        text = None
        if isinstance(spec, ast.JoinedStr) and all(isinstance(x, ast.Constant) for x in spec.values):
            text = "".join(str(x.value) for x in spec.values)
        ts = s.types(t)
        if text is None or not text:
            if text is None:
                self.rz(outs, s, v, "ValueError", "format() with a computed format specification", [])
            return
        kind = text[-1]
        if kind in "dxXobcn":
            need = frozenset(["int", "bool"])
        elif kind in "eEfFgG%":
            need = frozenset(["int", "float", "bool"])
        elif kind == "s":
            need = frozenset(["str"])
        else:
            need = frozenset(["int", "float", "bool", "str"])
        if ts is None or not ts <= need:
            self.rz(outs, s, v, "ValueError", "format specification '%s' applied to a value that may not be %s" % (text, "/".join(sorted(need))), [("nottype", t, need)])

    def e_FormattedValue(self, e, st):
        return self.expr(e.value, st)

    def e_BinOp(self, e, st):
        op = _OPS.get(type(e.op))
        if op is None:
            self.unsupported(e, "operator")
        cur, outs = self.seq([e.left, e.right], st)
        for s, (l, r) in cur:
            if op == "+" and is_const(l) and is_const(r) and type(l[2]) is type(r[2]) and isinstance(l[2], (str, bytes)):
                outs.append((s, "val", C(l[2] + r[2])))  # constant folding: "r" + "b"
                continue
            nl, nr = self._int_constant(l), self._int_constant(r)
            if nl is not None and nr is not None and op in ("+", "-", "*", "//", "%", "<<", "|", "&") and not (op in ("//", "%") and nr == 0) and not (op == "<<" and not 0 <= nr <= 64):
                # integer arithmetic on constants (HEX_KEY_LENGTH = 2 * KEY_LENGTH): the number itself
                val = {"+": nl + nr, "-": nl - nr, "*": nl * nr, "//": nl // nr if nr else 0, "%": nl % nr if nr else 0, "<<": nl << nr if 0 <= nr <= 64 else 0, "|": nl | nr, "&": nl & nr}[op]
                outs.append((s, "val", C(val)))
                continue
            t = ("binop", op, l, r)
            tl, tr = s.types(l), s.types(r)
            res = None
            if tl is not None and tr is not None:
                if tl <= {"str"} and tr <= {"str"} and op == "+":
                    res = "str"
                elif tl <= {"bytes"} and tr <= {"bytes"} and op == "+":
                    res = "bytes"
                elif tl <= NUM and tr <= NUM and op in ("+", "-", "*", "%", "//", "/"):
                    res = "num"
                elif tl <= {"int", "bool"} and tr <= {"int", "bool"} and op in ("|", "&", "^"):
                    res = "num"  # bit operations on integers (flag words)
                elif tl <= {"str"} and op == "%":
                    res = "str"
                elif tl <= {"str"} and tr <= {"int", "bool"} and op == "*":
                    res = "str"
                elif tl <= {"list"} and tr <= {"list"} and op == "+":
                    res = "list"
                elif all(x.startswith("obj:datetime.") for x in tl | tr) and op in ("+", "-"):
                    res = "dt"
            if res is None:
                conds = [("badoperands", op, l, r)]
                fams = [frozenset(["str"]), frozenset(["bytes"]), frozenset(["list"]), frozenset(["tuple"]), NUM]
                if op == "+":
                    for known, other in ((tl, r), (tr, l)):
                        for fam in fams:
                            if known is not None and known <= fam:
                                # the other operand must be outside this family for the error to occur
                                conds.append(("nottype", other, fam | (frozenset(["bytearray", "memoryview"]) if fam == frozenset(["bytes"]) else frozenset())))
                self.rz(outs, s, e, "TypeError", "operator %s on operands of unknown/mixed type" % op, conds)
            nonzero = is_const(r) and isinstance(r[2], (int, float)) and r[2] != 0
            if not nonzero and is_call(r, "builtin:len") and len(r[2]) == 1:
                # len(x) with x known to be non-empty (`... if x else 0`, a guard `if not x: raise`)
                nonzero = s.truth_value(r[2][0]) is True or s.holds(("truthy", r[2][0])) or s.holds(("ne", r, C(0))) or s.holds(("cmp", ">", r, C(0))) or s.holds(("cmp", ">=", r, C(1)))
            if not nonzero and (s.holds(("ne", r, C(0))) or s.holds(("truthy", r))):
                nonzero = True
            if op in ("/", "//", "%") and res != "str" and not nonzero:
                self.rz(outs, s, e, "ZeroDivisionError", "division", [("eq", r, C(0))])
            s = s.copy()
            if res in ("str", "bytes", "list"):
                s.add(("type", t, frozenset([res])))
            elif res == "num":
                s.add(("type", t, frozenset(["int", "float"]) if op == "/" else ((tl | tr) - {"bool"} or frozenset(["int"]))))
            elif res == "dt":
                s.add(("type", t, frozenset(["obj:datetime.datetime"]) if any("datetime.datetime" in x for x in tl | tr) else tl | tr))
            outs.append((s, "val", t))
        return outs

    def e_UnaryOp(self, e, st):
        if isinstance(e.op, ast.Not):
            outs = []
            for s, k, p in self.cond(e.operand, st):
                if k == "true":
                    outs.append((s, "val", C(False)))
                elif k == "false":
                    outs.append((s, "val", C(True)))
                else:
                    outs.append((s, k, p))
            return outs
        outs = []
        for s, k, p in self.expr(e.operand, st):
            if k != "val":
                outs.append((s, k, p))
                continue
            if is_const(p) and isinstance(p[2], (int, float)) and isinstance(e.op, ast.USub):
                outs.append((s, "val", C(-p[2])))
                continue
            ts = s.types(p)
            if ts is None or not ts <= NUM:
                self.rz(outs, s, e, "TypeError", "unary operator on non-number", [("nottype", p, NUM)])
            outs.append((s, "val", ("unop", {ast.USub: "-", ast.UAdd: "+", ast.Invert: "~"}[type(e.op)], p)))
        return outs

    def e_BoolOp(self, e, st):
        is_and = isinstance(e.op, ast.And)
        outs = []
        cur = [st]
        for i, v in enumerate(e.values):
            last = i == len(e.values) - 1
            nxt = []
            for s in cur:
                for s2, k2, t2 in self.expr(v, s):
                    if k2 != "val":
                        outs.append((s2, k2, t2))
                        continue
                    if last:
                        outs.append((s2, "val", t2))
                        continue
                    for s3, k3, _p in self.truth(t2, s2):
                        if k3 == ("false" if is_and else "true"):
                            outs.append((s3, "val", t2 if not is_const(t2) else t2))
                        else:
                            nxt.append(s3)
            cur = nxt
        return outs

    def e_IfExp(self, e, st):
        outs = []
        for s, k, p in self.cond(e.test, st):
            if k == "true":
                outs.extend(self.expr(e.body, s))
            elif k == "false":
                outs.extend(self.expr(e.orelse, s))
            else:
                outs.append((s, k, p))
        return outs

    def e_NamedExpr(self, e, st):
        outs = []
        for s, k, p in self.expr(e.value, st):
            if k == "val":
                s = s.copy()
                s.env[e.target.id] = p
            outs.append((s, k, p))
        return outs

    def e_Yield(self, e, st):
        """a generator body walked on its own (not through a with statement): straight through, the
        value sent back in is unknown"""
        if e.value is None:
            s = st.copy()
            s.ev("yield", self.site(e), C(None))
            return [(s, "val", Fresh("sent"))]
        outs = []
        for s, k, p in self.expr(e.value, st):
            if k == "val":
                s = s.copy()
                s.ev("yield", self.site(e), p)
                outs.append((s, "val", Fresh("sent")))
            else:
                outs.append((s, k, p))
        return outs

    def e_YieldFrom(self, e, st):
        return self.e_Yield(e, st)

    def e_Lambda(self, e, st):
        """a lambda is a nested function whose body is `return <expr>`"""
        from .model import FuncInfo

        parent = self.fi if isinstance(self.fi, FuncInfo) else None
        q = "%s.<lambda:%d:%d>" % (self.fi.qualname, e.lineno, e.col_offset)
        if q not in self.prog.funcs:
            ret = ast.Return(value=e.body)
            node = ast.FunctionDef(name="<lambda>", args=e.args, body=[ret], decorator_list=[], returns=None, type_comment=None)
            for x in (ret, node):
                ast.copy_location(x, e)
            node.end_lineno = getattr(e, "end_lineno", e.lineno)
            fi = FuncInfo(q, self.mod, node, cls=None, parent=parent)
            fi.is_lambda = True
            self.prog.funcs[q] = fi
        return [(st, "val", self._closure_value(q, st))]

    def e_Starred(self, e, st):
        return self.expr(e.value, st)

    def e_Slice(self, e, st):
        parts = (e.lower, e.upper, e.step)
        nodes = [x for x in parts if x is not None]
        cur, outs = self.seq(nodes, st)
        for s, ts in cur:
            # positions are kept (x[1:] and x[:1] are different values): an absent bound is None
            it = iter(ts)
            full = tuple(next(it) if x is not None else C(None) for x in parts)
            outs.append((s, "val", ("lit", "slice", full, None)))
        return outs

    def e_Compare(self, e, st):
        if len(e.ops) > 1:
            # a < b < c  ==  a < b and b < c  (operands here are pure)
            parts = []
            left = e.left
            for op, right in zip(e.ops, e.comparators):
                c = ast.Compare(left=left, ops=[op], comparators=[right])
                ast.copy_location(c, e)
                parts.append(c)
                left = right
            b = ast.BoolOp(op=ast.And(), values=parts)
            ast.copy_location(b, e)
            return self.e_BoolOp(b, st)
        from .compare import compare  # local import: compare.py needs Walker helpers

        return compare(self, e, st)

    def e_Subscript(self, e, st):
        cur, outs = self.seq([e.value, e.slice], st)
        for s, (b, k) in cur:
            if isinstance(b, tuple) and len(b) == 2 and b[0] == "global" and b[1].startswith("const:"):
                lit = self.eng.const_literal(b[1][6:])
                if lit is not None and ((is_lit(lit) and lit[1] == "tuple") or lit[0] == "nt"):
                    b = lit  # a module-level tuple / record: immutable, its items are known
                elif is_const(k):
                    tab = self.eng.stable_table(b)
                    if tab is not None:
                        hit = [v for kk, v in tab[2] if kk == k]
                        if hit:
                            outs.append((s, "val", hit[-1]))
                        else:
                            self.rz(outs, s, e, "KeyError", "key %r is not in the table %s" % (k[2], b[1][6:]), [])
                        continue
            if is_const(k) and isinstance(k[2], bool):
                k = C(int(k[2]))  # a bool used as an index is 0 / 1
            t = Sub(b, k)
            # a literal dict display indexed by a constant key: the value itself
            if is_lit(b, "dict") and is_const(k):
                hit = [v for kk, v in b[2] if kk == k]
                if hit:
                    outs.append((s, "val", hit[-1]))
                    continue
            if is_lit(b) and b[1] in ("list", "tuple") and is_const(k) and isinstance(k[2], int) and -len(b[2]) <= k[2] < len(b[2]):
                outs.append((s, "val", b[2][k[2]]))
                continue
            if isinstance(b, tuple) and len(b) == 3 and b[0] == "nt" and is_const(k) and isinstance(k[2], int) and -len(b[2]) <= k[2] < len(b[2]):
                outs.append((s, "val", b[2][k[2]]))
                continue
            if s.holds(("ok", t)):
                outs.append((s, "val", t))
                continue
            ts = s.types(b)
            kt = s.types(k)
            is_slice = is_lit(k, "slice")
            subscriptable = frozenset(["dict", "list", "tuple", "str", "bytes"])
            if ts is None or not ts <= subscriptable:
                self.rz(outs, s, e, "TypeError", "subscript of a value that may not be subscriptable", [("nottype", b, frozenset(["dict"])), ("notok", t)])
            elif ts & {"list", "tuple", "str", "bytes"} and not is_slice and (kt is None or not kt <= {"int", "bool"}):
                self.rz(outs, s, e, "TypeError", "sequence index that may not be an integer", [("nottype", b, frozenset(["dict"])), ("notok", t)])
            if (ts is None or "dict" in ts) and not s.holds(("has", b, k)):
                self.rz(outs, s, e, "KeyError", "key that may be absent", [("nothas", b, k), ("notok", t)] + ([("type", b, frozenset(["dict"]))] if ts is None else []))
            in_range = False
            if is_const(k) and isinstance(k[2], int) and not isinstance(k[2], bool):
                ln = CallT("builtin:len", [b])
                need = k[2] + 1 if k[2] >= 0 else -k[2]
                in_range = any(s.holds(("eq", ln, C(n))) for n in range(need, need + 4)) or s.holds(("cmp", ">=", ln, C(need))) or s.holds(("cmp", ">", ln, C(need - 1)))
            if (ts is None or ts & {"list", "tuple", "str", "bytes"}) and not is_slice and (kt is None or kt & {"int", "bool"}) and not in_range:
                self.rz(outs, s, e, "IndexError", "index that may be out of range", [("nottype", b, frozenset(["dict"])), ("notok", t)])
            s = s.copy()
            s.add(("ok", t))
            if ts is not None and not ts <= {"dict"} and "dict" in ts and ts <= subscriptable | JSON_TYPES and kt is not None and kt <= {"str"} and not is_slice:
                # a str key: of the builtin types the value may have, only a dict can be indexed by it
                ts = frozenset(["dict"])
                s.add(("type", b, ts))
            if ts is not None and ts <= {"dict"}:
                s.add(("has", b, k))
            if ts is not None and ts <= {"str"}:
                s.add(("type", t, frozenset(["str"])))
            if ts is not None and ts <= {"bytes"}:
                s.add(("type", t, frozenset(["bytes" if is_slice else "int"])))
            outs.append((s, "val", t))
        return outs

    def _comprehension(self, e, kind, st):
        outs = self._comprehension_inner(e, kind, st)
        if kind != "gen" and isinstance(e.generators[0].iter, ast.Name):
            outs = self._exhaust_names([e.generators[0].iter.id], st, outs)
        return outs

    def _comprehension_inner(self, e, kind, st):
        if len(e.generators) > 1 and not any(g.is_async for g in e.generators) and kind in ("list", "set", "gen"):
            # [elt for a in A for b in B(a)]: walked as the nested comprehension
            # [[elt for b in B(a)] for a in A] (same evaluations, same exceptions); the flattened
            # result is a collection of which nothing but its kind is known
            inner = ast.ListComp(elt=e.elt, generators=list(e.generators[1:]))
            outer = ast.ListComp(elt=inner, generators=[e.generators[0]])
            for x in (inner, outer):
                ast.copy_location(x, e)
            inner.col_offset = e.col_offset + 1
            outs = []
            for s, k, p in self.expr(outer, st):
                if k != "val":
                    outs.append((s, k, p))
                    continue
                fl = Fresh("flattened_comprehension")
                s = s.copy()
                s.add(("type", fl, frozenset([{"list": "list", "set": "set", "gen": "generator"}[kind]])))
                outs.append((s, "val", fl))
            return outs
        if len(e.generators) != 1 or e.generators[0].is_async:
            self.unsupported(e, "comprehension with several generators")
        g = e.generators[0]
        outs = []
        for s, k, it in self.expr(g.iter, st):
            if k != "val":
                outs.append((s, k, it))
                continue
            if (isinstance(it, tuple) and len(it) == 3 and it[0] == "gen") or (is_call(it, "ext:itertools.chain") and it[2] and not it[3] and self.literal_items(it, s) is None):
                outs.extend(self._comp_over_generator(e, kind, g, s, it))
                continue
            items = self.literal_items(it, s)
            if items is not None and not (kind == "gen" and False):
                outs.extend(self._unrolled_comp(e, kind, g, s, items))
                continue
            base, mode = self.iter_shape(it, s, e, outs)
            loop_id = (self.fi.qualname, e.lineno, e.col_offset)
            el = Elem(base, loop_id)
            b = s.copy()
            b.events = ()
            if mode == "items":
                tv = ("lit", "tuple", (el, Sub(base, el)), None)
                b.add(("has", base, el), ("ok", Sub(base, el)))
            elif mode == "values":
                tv = Sub(base, el)
                b.add(("has", base, el), ("ok", Sub(base, el)))
            else:
                tv = el
                b.add(("has", base, el))
                bts = s.types(base)
                if (bts is not None and bts <= {"dict"}) or mode == "keys":
                    b.add(("ok", Sub(base, el)))
            starts = [x for x in self._assign_target(g.target, tv, b, e) if x[1] == "fall"]
            # filters
            for cnd in g.ifs:
                nxt = []
                for s0, _k0, _p0 in starts:
                    for s1, k1, p1 in self.cond(cnd, s0):
                        if k1 == "true":
                            nxt.append((s1, "fall", None))
                        elif k1 == "raise":
                            outs.append((self._leave_comp(s, s1, e, base, el), "raise", _nonempty(p1, base)))
                starts = nxt
            elt_nodes = [e.key, e.value] if kind == "dict" else [e.elt]
            truthy_facts = None
            falsy_alts, truthy_alts = [], []
            elt_term = None
            body_paths = []
            for s0, _k0, _p0 in starts:
                cur, bad = self.seq(elt_nodes, s0)
                for s1, k1, p1 in bad:
                    outs.append((self._leave_comp(s, s1, e, base, el), "raise", _nonempty(p1, base)))
                for s1, ts in cur:
                    elt_term = ts[0] if kind != "dict" else ("lit", "tuple", tuple(ts), None)
                    body_paths.append(("fall", frozenset(f for f in s1.facts - s.facts if is_param_rooted(f)), s1.events, elt_term, frozenset(s1.facts)))
                    tv_ = s1.truth_value(ts[0])
                    delta = frozenset(f for f in s1.facts - s.facts if is_param_rooted(f))
                    if tv_ is not True:
                        # an element for which the element expression is false (for not all(...) / not any(...))
                        fd = delta | {("falsy", ts[0])} if tv_ is None else delta
                        falsy_alts.append(frozenset(f for f in fd if _mentions(f, el)))
                    if tv_ is False:
                        continue
                    if tv_ is None:
                        delta = delta | {("truthy", ts[0])}
                    truthy_alts.append(frozenset(f for f in delta if _mentions(f, el)))
                    truthy_facts = delta if truthy_facts is None else merge_facts([truthy_facts, delta])
            if truthy_facts and not g.ifs:
                keep = frozenset(f for f in truthy_facts if _mentions(f, el))
                self.comp_facts[(it, loop_id)] = keep
                self.eng.__dict__.setdefault("_comp_store", {})[("facts", loop_id)] = (it, keep)
            self.eng.__dict__.setdefault("_comp_store", {})[("ifs", loop_id)] = bool(g.ifs)
            if not g.ifs and kind != "dict":
                self.comp_alts[(it, loop_id)] = (frozenset(truthy_alts), frozenset(falsy_alts))
                self.eng.__dict__.setdefault("_comp_store", {})[("alts", loop_id)] = (it, (frozenset(truthy_alts), frozenset(falsy_alts)))
            s2 = s.copy()
            s2.ev("loop", self.site(e), base, el, tuple(body_paths))
            if not g.ifs and body_paths:
                allf = merge_facts([bp[1] for bp in body_paths])
                keepf = frozenset(f for f in allf if _mentions(f, el))
                if keepf and kind != "gen":
                    s2.add(("forall", base, loop_id, keepf))
                elif keepf:
                    # a generator expression is lazy: the facts hold once something has consumed
                    # it to the end (see exhaust())
                    self.eng.__dict__.setdefault("_comp_store", {})[("body", loop_id)] = (base, keepf)
            outs.append((s2, "val", ("comp", kind, it, elt_term if elt_term is not None else Fresh("elt"), loop_id)))
        return outs

    def _comp_over_generator(self, e, kind, g, s, gen):
        """{k: v for t in GEN if c} etc.: an accumulator filled by a loop over the generator"""
        acc = "$acc_%d_%d" % (e.lineno, e.col_offset)
        k2 = "list" if kind == "gen" else kind
        init = {"dict": ast.Dict(keys=[], values=[]), "list": ast.List(elts=[], ctx=ast.Load()), "set": ast.Call(func=ast.Name(id="set", ctx=ast.Load()), args=[], keywords=[])}[k2]
        ast.copy_location(init, e)
        ast.fix_missing_locations(init)
        if k2 == "dict":
            store = ast.Assign(targets=[ast.Subscript(value=ast.Name(id=acc, ctx=ast.Load()), slice=e.key, ctx=ast.Store())], value=e.value)
        else:
            store = ast.Expr(value=ast.Call(func=ast.Attribute(value=ast.Name(id=acc, ctx=ast.Load()), attr="append" if k2 == "list" else "add", ctx=ast.Load()), args=[e.elt], keywords=[]))
        body = store
        for cnd in reversed(g.ifs):
            body = ast.If(test=cnd, body=[body], orelse=[])
        for x in ast.walk(body):
            if not hasattr(x, "lineno"):
                ast.copy_location(x, e)
        ast.fix_missing_locations(body)
        outs = []
        for s0, k0, t0 in self.expr(init, s.copy()):
            if k0 != "val":
                outs.append((s0, k0, t0))
                continue
            s0 = s0.copy()
            s0.env[acc] = t0
            if gen[0] == "gen":
                results = self._iterate_generator(gen, s0, e, g.target, [body], [])
            else:
                # a chain of iterables: consecutive loops filling the same accumulator
                s0.env["$chain_it"] = gen
                loop = ast.For(target=g.target, iter=ast.Name(id="$chain_it", ctx=ast.Load()), body=[body], orelse=[])
                ast.copy_location(loop, e)
                ast.copy_location(loop.iter, e)
                results = self.s_For(loop, s0)
            for s2, kk, p2 in results:
                s2.env.pop("$chain_it", None)
                if kk == "fall":
                    val = s2.env.get(acc, t0)
                    s2.env.pop(acc, None)
                    for nm in _names_of_target(g.target):
                        s2.env.pop(nm, None)
                    outs.append((s2, "val", val))
                else:
                    outs.append((s2, kk, p2))
        return outs

    def _unrolled_comp(self, e, kind, g, s, items):
        """comprehension over a literal display: evaluated element by element -> a display of the
        element values (filters decide per path which elements are kept)"""
        outs = []
        cur = [(s, [])]
        elt_nodes = [e.key, e.value] if kind == "dict" else [e.elt]
        for item in items:
            nxt = []
            for s1, acc in cur:
                for s0, k0, p0 in self._assign_target(g.target, item, s1.copy(), e):
                    if k0 != "fall":
                        outs.append((s0, k0, p0))
                        continue
                    states = [(s0, True)]
                    for cnd in g.ifs:
                        nx2 = []
                        for s3, keep in states:
                            if not keep:
                                nx2.append((s3, keep))
                                continue
                            for s4, k4, p4 in self.cond(cnd, s3):
                                if k4 == "true":
                                    nx2.append((s4, True))
                                elif k4 == "false":
                                    nx2.append((s4, False))
                                else:
                                    outs.append((s4, k4, p4))
                        states = nx2
                    for s3, keep in states:
                        if not keep:
                            nxt.append((s3, acc))
                            continue
                        ok, bad = self.seq(elt_nodes, s3)
                        outs.extend(bad)
                        for s5, ts in ok:
                            nxt.append((s5, acc + [ts[0] if kind != "dict" else (ts[0], ts[1])]))
            cur = nxt
            if len(cur) > PATH_CAP:
                raise AnalysisError("path cap exceeded while unrolling a comprehension in %s" % self.fi.qualname)
        for s1, acc in cur:
            lk = {"list": "list", "set": "set", "gen": "list", "dict": "dict"}[kind]
            outs.append((s1, "val", ("lit", lk, tuple(acc), self.site(e)[:3])))
        return outs

    def _leave_comp(self, s, s1, e, base, el):
        s3 = s1.copy()
        s3.events = s.events + (("loop-iter", self.site(e), base, el),) + s1.events
        return s3

    def e_ListComp(self, e, st):
        return self._comprehension(e, "list", st)

    def e_SetComp(self, e, st):
        return self._comprehension(e, "set", st)

    def e_GeneratorExp(self, e, st):
        return self._comprehension(e, "gen", st)

    def e_DictComp(self, e, st):
        return self._comprehension(e, "dict", st)

    # ------------------------------------------------------------------ calls
    def e_Call(self, e, st):
        from .calls import call

        f = e.func
        if isinstance(f, ast.Name) and f.id in ("all", "any") and len(e.args) == 1 and not e.keywords and isinstance(e.args[0], ast.GeneratorExp) and len(e.args[0].generators) == 1 and self._is_module_level(f.id, st) and self.prog.resolve_name(self.mod, f.id)[0] == "builtin":
            r = self._lazy_anyall(e, f.id, e.args[0], st)
            if r is not None:
                return r
        outs = call(self, e, st)
        if isinstance(f, ast.Name) and f.id in ("list", "tuple", "dict", "set", "frozenset", "sorted", "sum", "max", "min") and e.args and isinstance(e.args[0], ast.Name) and self._is_module_level(f.id, st):
            outs = self._exhaust_names([e.args[0].id], st, outs)
        elif isinstance(f, ast.Attribute) and f.attr in ("join", "update", "extend") and len(e.args) == 1 and isinstance(e.args[0], ast.Name):
            outs = self._exhaust_names([e.args[0].id], st, outs)
        return outs

    def _lazy_anyall(self, e, name, ge, st):
        """all(E for x in IT if C) / any(...) over a literal table or a generator object: elements
        are evaluated one after the other and evaluation stops at the first decisive one (the
        later element expressions are not evaluated at all)"""
        g = ge.generators[0]
        if g.is_async:
            return None
        outs = []
        decisive = "true" if name == "any" else "false"

        def per_element(s_c, value):
            res = []
            for s0, k0, p0 in self._assign_target(g.target, value, s_c, ge):
                if k0 != "fall":
                    res.append((s0, k0, p0))
                    continue
                states = [s0]
                for cnd in g.ifs:
                    nxt = []
                    for s1 in states:
                        for s2, k2, p2 in self.cond(cnd, s1):
                            if k2 == "true":
                                nxt.append(s2)
                            elif k2 == "false":
                                res.append((s2, "fall", None))
                            else:
                                res.append((s2, k2, p2))
                    states = nxt
                for s1 in states:
                    for s2, k2, p2 in self.cond(ge.elt, s1):
                        if k2 == decisive:
                            res.append((s2, "break", None))
                        elif k2 in ("true", "false"):
                            res.append((s2, "fall", None))
                        else:
                            res.append((s2, k2, p2))
            return res

        for s, k, it in self.expr(g.iter, st):
            if k != "val":
                outs.append((s, k, it))
                continue
            if isinstance(it, tuple) and len(it) == 3 and it[0] == "gen":
                for s2, k2, p2 in self._run_generator(it, s, per_element, ge):
                    if k2 == "break":
                        outs.append((s2, "val", C(name == "any")))
                    elif k2 == "exhausted":
                        outs.append((s2, "val", C(name != "any")))
                    else:
                        outs.append((s2, k2, p2))
                continue
            items = self.literal_items(it, s)
            if items is None:
                return None  # a symbolic iterable: the general comprehension + all()/any() rules apply
            cur = [s]
            for item in items:
                nxt = []
                for s1 in cur:
                    for s2, k2, p2 in per_element(s1.copy(), item):
                        if k2 == "fall":
                            nxt.append(s2)
                        elif k2 == "break":
                            outs.append((s2, "val", C(name == "any")))
                        else:
                            outs.append((s2, k2, p2))
                cur = nxt
                if len(cur) > PATH_CAP:
                    raise AnalysisError("path explosion in %s at %s" % (name, self.site(e)))
            for s1 in cur:
                outs.append((s1, "val", C(name != "any")))
        for s2, _k, _p in outs:
            for nm in _names_of_target(g.target):
                s2.env.pop(nm, None)
        return outs


_OPS = {
    ast.Add: "+",
    ast.Sub: "-",
    ast.Mult: "*",
    ast.Div: "/",
    ast.FloorDiv: "//",
    ast.Mod: "%",
    ast.Pow: "**",
    ast.BitOr: "|",
    ast.BitAnd: "&",
    ast.BitXor: "^",
    ast.LShift: "<<",
    ast.RShift: ">>",
}

_STR_ATTRS = set(dir(str))
_ATTRS = {
    "str": set(dir(str)),
    "bytes": set(dir(bytes)),
    "dict": set(dir(dict)),
    "list": set(dir(list)),
    "tuple": set(dir(tuple)),
    "set": set(dir(set)),
    "int": set(dir(int)),
    "float": set(dir(float)),
    "bool": set(dir(bool)),
    "NoneType": set(dir(type(None))),
}


def _has_attr(ts, attr):
    return all(attr in _ATTRS.get(t, {attr}) for t in ts)


def _as_load(t):
    t2 = ast.parse(ast.unparse(t), mode="eval").body
    ast.copy_location(t2, t)
    for x in ast.walk(t2):
        ast.copy_location(x, t)
    return t2


def heap_store(s, obj, attr, val):
    """record obj.attr = val in the path state (copy on write)"""
    heap = dict(s.env.get("$heap", {}))
    heap[(obj, attr)] = val
    s.env["$heap"] = heap
    s.add(("hasattr", obj, attr))


def _names_of_target(t):
    if isinstance(t, ast.Name):
        return [t.id]
    if isinstance(t, (ast.Tuple, ast.List)):
        out = []
        for e in t.elts:
            out += _names_of_target(e)
        return out
    return []


def _deep_events(events):
    """every event, descending into inlined callees and loop bodies"""
    for ev in events:
        if ev[0] == "inlined":
            yield from _deep_events(ev[3])
        else:
            yield ev
            if ev[0] == "loop":
                for bp in ev[4]:
                    yield from _deep_events(bp[2])
            elif ev[0] == "while":
                for bp in ev[2]:
                    yield from _deep_events(bp[2])


def _root_term(t):
    while isinstance(t, tuple) and t and t[0] in ("sub", "attr"):
        t = t[1]
    return t


def _mentions(f, el):
    if f == el:
        return True
    if isinstance(f, (tuple, frozenset)):
        return any(_mentions(x, el) for x in f)
    return False


def _nonempty(p, base):
    return Exc(p.exc, p.chain, set(p.conds) | {("nonempty", base)}, p.origin, p.why)


def merge_facts(fact_sets):
    """facts common to all sets; type facts about the same term are unioned, keys facts
    become key-set alternatives"""
    fact_sets = [frozenset(fs) for fs in fact_sets]
    if not fact_sets:
        return frozenset()
    common = frozenset.intersection(*fact_sets)
    out = set(common)
    # type union
    per = []
    for fs in fact_sets:
        d = {}
        for f in fs:
            if f[0] == "type":
                d[f[1]] = d[f[1]] & f[2] if f[1] in d else f[2]
        per.append(d)
    for t in set.intersection(*[set(d) for d in per]) if per else ():
        u = frozenset().union(*[d[t] for d in per])
        out.add(("type", t, u))
    # exact key sets -> alternatives
    perk = []
    for fs in fact_sets:
        d = {}
        for f in fs:
            if f[0] == "keys":
                d[f[1]] = frozenset([f[2]])
            elif f[0] == "keysin":
                d[f[1]] = f[2]
        perk.append(d)
    for t in set.intersection(*[set(d) for d in perk]) if perk else ():
        alts = frozenset().union(*[d[t] for d in perk])
        if len(alts) == 1:
            out.add(("keys", t, next(iter(alts))))
        else:
            out.add(("keysin", t, alts))
    return frozenset(out)
