"""E8 - small structural extractors with resolved callees: argparse registries, entry points,
effective keyword configuration of stdlib calls."""
from __future__ import annotations

import ast
import inspect

from . import AnalysisError
from .model import dotted_chain


def subparsers(prog, builder="cli.build_parser"):
    """{subcommand: {"positionals": [dest...], "optionals": [...], "func": qualname|None, "site": Site}}
    read from the function that builds the argparse parser: x = <sp>.add_parser("name"),
    x.add_argument("dest"...), x.set_defaults(func=H)"""
    from .callgraph import CallGraph

    root = prog.func(builder)
    cg = CallGraph(prog)
    scope = [prog.funcs[q] for q in sorted(cg.cone([builder])) if prog.funcs[q].mod.short == root.mod.short]
    out = {}
    for fi in scope:
        _scan_parser_function(prog, fi, out)
    return out


def _scan_parser_function(prog, fi, out):
    by_var = {}
    for n in ast.walk(fi.node):
        if isinstance(n, ast.Assign) and len(n.targets) == 1 and isinstance(n.targets[0], ast.Name) and isinstance(n.value, ast.Call):
            f = n.value.func
            if isinstance(f, ast.Attribute) and f.attr == "add_parser" and n.value.args and isinstance(n.value.args[0], ast.Constant):
                name = n.value.args[0].value
                by_var[n.targets[0].id] = name
                out[name] = {"positionals": [], "optionals": [], "func": None, "site": prog.site(fi.mod, n, fi.qualname)}
    calls = [n for n in ast.walk(fi.node) if isinstance(n, ast.Call) and isinstance(n.func, ast.Attribute) and isinstance(n.func.value, ast.Name) and n.func.value.id in by_var]
    calls.sort(key=lambda c: (c.lineno, c.col_offset))
    # a helper that receives the sub-parser and adds arguments to it: _add_x(p_sub) called with a known variable
    helper_calls = [n for n in ast.walk(fi.node) if isinstance(n, ast.Call) and any(isinstance(a, ast.Name) and a.id in by_var for a in n.args)]
    for hc in helper_calls:
        chain = dotted_chain(hc.func)
        if not chain:
            continue
        r, rest = prog.resolve_dotted(fi.mod, chain)
        if r[0] == "func" and not rest:
            hfi = prog.funcs[r[1]]
            params = hfi.params()
            for i, a in enumerate(hc.args):
                if isinstance(a, ast.Name) and a.id in by_var and i < len(params):
                    sub = out[by_var[a.id]]
                    for c2 in sorted([m for m in ast.walk(hfi.node) if isinstance(m, ast.Call) and isinstance(m.func, ast.Attribute) and isinstance(m.func.value, ast.Name) and m.func.value.id == params[i]], key=lambda c: (c.lineno, c.col_offset)):
                        _apply_parser_call(prog, hfi, c2, sub)
    for c in calls:
        _apply_parser_call(prog, fi, c, out[by_var[c.func.value.id]])


def _apply_parser_call(prog, fi, c, sub):
    if True:
        if c.func.attr == "add_argument" and c.args and isinstance(c.args[0], ast.Constant) and isinstance(c.args[0].value, str):
            flag = c.args[0].value
            dest = None
            for k in c.keywords:
                if k.arg == "dest" and isinstance(k.value, ast.Constant):
                    dest = k.value.value
            if flag.startswith("-"):
                sub["optionals"].append(dest or flag.lstrip("-").replace("-", "_"))
            else:
                sub["positionals"].append(dest or flag)
        elif c.func.attr == "set_defaults":
            for k in c.keywords:
                if k.arg == "func":
                    chain = dotted_chain(k.value)
                    if chain:
                        r, rest = prog.resolve_dotted(fi.mod, chain)
                        if r[0] == "func" and not rest:
                            sub["func"] = r[1]


def exit_flows(prog, mod, stmts, entry_qualname):
    """In a statement list (module top level or a __main__ block), does the value of every
    call of the CLI entry function reach sys.exit / exit / raise SystemExit?
    -> list of (call node, reached: bool)"""

    def is_entry_call(n):
        if not isinstance(n, ast.Call):
            return False
        chain = dotted_chain(n.func)
        if not chain:
            return False
        r, rest = prog.resolve_dotted(mod, chain)
        return r[0] == "func" and r[1] == entry_qualname and not rest

    def is_exit_call(n):
        if not isinstance(n, ast.Call):
            return False
        chain = dotted_chain(n.func)
        if not chain:
            return False
        if chain in (["exit"], ["quit"], ["SystemExit"]):
            return True
        local_sys = any(isinstance(s, ast.Import) and any(a.name == "sys" for a in s.names) for s in stmts)
        if chain == ["sys", "exit"] and (local_sys or "sys" in mod.imports):
            return True
        r, rest = prog.resolve_dotted(mod, chain) if chain[0] in mod.imports else (("unknown",), [])
        return r[0] == "ext" and r[1] in ("sys.exit", "os._exit")

    def forwarder_of(n):
        """n calls a repository function whose whole effect is sys.exit(<entry>(...)): every path
        through its body ends in an exit that receives the entry function's value"""
        if not isinstance(n, ast.Call):
            return None
        chain = dotted_chain(n.func)
        if not chain:
            return None
        r, rest = prog.resolve_dotted(mod, chain)
        if r[0] != "func" or rest or r[1] == entry_qualname:
            return None
        fi = prog.funcs.get(r[1])
        if fi is None or any(isinstance(x, ast.Return) and x.value is not None for x in ast.walk(fi.node)) or getattr(fi, "_fwd_busy", False):
            return None
        fi._fwd_busy = True
        try:
            body = [st for st in fi.node.body if not (isinstance(st, ast.Expr) and isinstance(st.value, ast.Constant))]
            inner = exit_flows(prog, fi.mod, body, entry_qualname)
        finally:
            fi._fwd_busy = False
        if inner and all(reached for _c, reached in inner) and body:
            last = body[-1]
            ends_in_exit = (isinstance(last, ast.Expr) and isinstance(last.value, ast.Call) and dotted_chain(last.value.func) in (["sys", "exit"], ["exit"], ["SystemExit"])) or isinstance(last, ast.Raise)
            if ends_in_exit:
                return n
        return None

    results = []
    holders = {}  # variable name -> entry call node whose value it holds
    reached = set()
    calls = []
    for s in stmts:
        for n in ast.walk(s):
            if is_entry_call(n):
                calls.append(n)
            elif forwarder_of(n) is not None:
                calls.append(n)
                reached.add(id(n))  # the helper itself passes the value on to sys.exit
        if isinstance(s, ast.Assign) and len(s.targets) == 1 and isinstance(s.targets[0], ast.Name):
            if is_entry_call(s.value):
                holders[s.targets[0].id] = s.value
            elif isinstance(s.value, ast.Name) and s.value.id in holders:
                holders[s.targets[0].id] = holders[s.value.id]
            else:
                holders.pop(s.targets[0].id, None)
        exits = []
        for n in ast.walk(s):
            if is_exit_call(n) and n.args:
                exits.append(n.args[0])
            if isinstance(n, ast.Raise) and isinstance(n.exc, ast.Call) and dotted_chain(n.exc.func) == ["SystemExit"] and n.exc.args:
                exits.append(n.exc.args[0])
        for a in exits:
            if is_entry_call(a):
                reached.add(id(a))
            elif isinstance(a, ast.Name) and a.id in holders:
                reached.add(id(holders[a.id]))
    for c in calls:
        results.append((c, id(c) in reached))
    return results


def effective_kwargs(callee_obj, pos_names, args, kwargs):
    """explicit arguments merged over the defaults of a stdlib callable (inspect.signature of the
    *stdlib* function only): {param: explicit value | ("default", python value)}"""
    sig = inspect.signature(callee_obj)
    out = {}
    params = list(sig.parameters.values())
    for p in params:
        if p.default is not inspect.Parameter.empty:
            out[p.name] = ("default", p.default)
    for i, a in enumerate(args):
        if i < len(params):
            out[params[i].name] = a
    for n, v in kwargs:
        if n not in sig.parameters and not any(p.kind == p.VAR_KEYWORD for p in params):
            raise AnalysisError("keyword %s is not a parameter of %s" % (n, getattr(callee_obj, "__name__", callee_obj)))
        out[n] = v
    return out


def subparsers_from_events(eng, builder="cli.build_parser"):
    """the same registry read from the *walked* parser builder: the sequence of add_parser /
    add_argument / set_defaults calls on each path, with receivers and constant arguments resolved
    by the engine (so tables, helpers and generators that drive the registration are seen through).
    -> registry common to all paths, or None when the builder cannot be read this way"""
    from .terms import is_call, is_const
    from .walker import flatten_events

    try:
        sm = eng.walk(builder)
    except Exception:
        return None
    per_path = []
    for p in sm.paths:
        if p.kind != "return":
            continue
        reg = {}
        by_term = {}
        for ev, _d in flatten_events(p.events):
            if ev[0] != "call" or not isinstance(ev[2], str) or not ev[2].startswith("method:") or ev[5][0] != "ok":
                continue
            m = ev[2][7:]
            recv = ev[3][0] if ev[3] else None
            args = ev[3][1:]
            kw = dict(ev[4])
            if m == "add_parser" and args and is_const(args[0]) and isinstance(args[0][2], str):
                name = args[0][2]
                reg[name] = {"positionals": [], "optionals": [], "func": None, "site": ev[1]}
                by_term[ev[5][1]] = name
            elif m == "add_argument" and recv in by_term and args and is_const(args[0]) and isinstance(args[0][2], str):
                flag = args[0][2]
                dest = kw.get("dest")
                dest = dest[2] if dest is not None and is_const(dest) else None
                sub = reg[by_term[recv]]
                if flag.startswith("-"):
                    sub["optionals"].append(dest or flag.lstrip("-").replace("-", "_"))
                else:
                    sub["positionals"].append(dest or flag)
            elif m == "set_defaults" and recv in by_term:
                f = kw.get("func")
                if f is not None and f[0] == "global" and f[1].startswith("func:"):
                    reg[by_term[recv]]["func"] = f[1][5:]
        per_path.append(reg)
    if not per_path:
        return None
    # what holds on every path
    common = {}
    for name in set.intersection(*[set(r) for r in per_path]):
        vals = [r[name] for r in per_path]
        if all(v["positionals"] == vals[0]["positionals"] and v["func"] == vals[0]["func"] for v in vals):
            common[name] = vals[0]
    return common
