"""E8 - small structural extractors with resolved callees: argparse registries, entry points,
effective keyword configuration of stdlib calls."""
from __future__ import annotations

import ast
import inspect

from . import AnalysisError
from .model import dotted_chain


def subparsers(prog, builder="cli.build_parser"):
    """{subcommand: {"positionals": [dest...], "optionals": [...], "func": qualname|None, "site": Site}}
    read from the function that builds the argparse parser: x = <sp>.add_parser("name"),
    x.add_argument("dest"...), x.set_defaults(func=H)"""
    from .callgraph import CallGraph

    root = prog.func(builder)
    cg = CallGraph(prog)
    scope = [prog.funcs[q] for q in sorted(cg.cone([builder])) if prog.funcs[q].mod.short == root.mod.short]
    out = {}
    for fi in scope:
        _scan_parser_function(prog, fi, out)
    return out


def _scan_parser_function(prog, fi, out):
    by_var = {}
    for n in ast.walk(fi.node):
        if isinstance(n, ast.Assign) and len(n.targets) == 1 and isinstance(n.targets[0], ast.Name) and isinstance(n.value, ast.Call):
            f = n.value.func
            if isinstance(f, ast.Attribute) and f.attr == "add_parser" and n.value.args and isinstance(n.value.args[0], ast.Constant):
                name = n.value.args[0].value
                by_var[n.targets[0].id] = name
                out[name] = {"positionals": [], "optionals": [], "func": None, "site": prog.site(fi.mod, n, fi.qualname)}
    calls = [n for n in ast.walk(fi.node) if isinstance(n, ast.Call) and isinstance(n.func, ast.Attribute) and isinstance(n.func.value, ast.Name) and n.func.value.id in by_var]
    calls.sort(key=lambda c: (c.lineno, c.col_offset))
    # a helper that receives the sub-parser and adds arguments to it: _add_x(p_sub) called with a known variable
    helper_calls = [n for n in ast.walk(fi.node) if isinstance(n, ast.Call) and any(isinstance(a, ast.Name) and a.id in by_var for a in n.args)]
    for hc in helper_calls:
        chain = dotted_chain(hc.func)
        if not chain:
            continue
        r, rest = prog.resolve_dotted(fi.mod, chain)
        if r[0] == "func" and not rest:
            hfi = prog.funcs[r[1]]
            params = hfi.params()
            for i, a in enumerate(hc.args):
                if isinstance(a, ast.Name) and a.id in by_var and i < len(params):
                    sub = out[by_var[a.id]]
                    for c2 in sorted([m for m in ast.walk(hfi.node) if isinstance(m, ast.Call) and isinstance(m.func, ast.Attribute) and isinstance(m.func.value, ast.Name) and m.func.value.id == params[i]], key=lambda c: (c.lineno, c.col_offset)):
                        _apply_parser_call(prog, hfi, c2, sub)
    for c in calls:
        _apply_parser_call(prog, fi, c, out[by_var[c.func.value.id]])


def _apply_parser_call(prog, fi, c, sub):
    if True:
        if c.func.attr == "add_argument" and c.args and isinstance(c.args[0], ast.Constant) and isinstance(c.args[0].value, str):
            flag = c.args[0].value
            dest = None
            for k in c.keywords:
                if k.arg == "dest" and isinstance(k.value, ast.Constant):
                    dest = k.value.value
            if flag.startswith("-"):
                sub["optionals"].append(dest or flag.lstrip("-").replace("-", "_"))
            else:
                sub["positionals"].append(dest or flag)
        elif c.func.attr == "set_defaults":
            for k in c.keywords:
                if k.arg == "func":
                    chain = dotted_chain(k.value)
                    if chain:
                        r, rest = prog.resolve_dotted(fi.mod, chain)
                        if r[0] == "func" and not rest:
                            sub["func"] = r[1]


def exit_flows(prog, mod, stmts, entry_qualname):
    """In a statement list (module top level or a __main__ block), does the value of every
    call of the CLI entry function reach sys.exit / exit / raise SystemExit?
    -> list of (call node, reached: bool)"""

    def is_entry_call(n):
        if not isinstance(n, ast.Call):
            return False
        chain = dotted_chain(n.func)
        if not chain:
            return False
        r, rest = prog.resolve_dotted(mod, chain)
        return r[0] == "func" and r[1] == entry_qualname and not rest

    def is_exit_call(n):
        if not isinstance(n, ast.Call):
            return False
        chain = dotted_chain(n.func)
        if not chain:
            return False
        if chain in (["exit"], ["quit"], ["SystemExit"]):
            return True
        local_sys = any(isinstance(s, ast.Import) and any(a.name == "sys" for a in s.names) for s in stmts)
        if chain == ["sys", "exit"] and (local_sys or "sys" in mod.imports):
            return True
        r, rest = prog.resolve_dotted(mod, chain) if chain[0] in mod.imports else (("unknown",), [])
        return r[0] == "ext" and r[1] in ("sys.exit", "os._exit")

    results = []
    holders = {}  # variable name -> entry call node whose value it holds
    reached = set()
    calls = []
    for s in stmts:
        for n in ast.walk(s):
            if is_entry_call(n):
                calls.append(n)
        if isinstance(s, ast.Assign) and len(s.targets) == 1 and isinstance(s.targets[0], ast.Name):
            if is_entry_call(s.value):
                holders[s.targets[0].id] = s.value
            elif isinstance(s.value, ast.Name) and s.value.id in holders:
                holders[s.targets[0].id] = holders[s.value.id]
            else:
                holders.pop(s.targets[0].id, None)
        exits = []
        for n in ast.walk(s):
            if is_exit_call(n) and n.args:
                exits.append(n.args[0])
            if isinstance(n, ast.Raise) and isinstance(n.exc, ast.Call) and dotted_chain(n.exc.func) == ["SystemExit"] and n.exc.args:
                exits.append(n.exc.args[0])
        for a in exits:
            if is_entry_call(a):
                reached.add(id(a))
            elif isinstance(a, ast.Name) and a.id in holders:
                reached.add(id(holders[a.id]))
    for c in calls:
        results.append((c, id(c) in reached))
    return results


def effective_kwargs(callee_obj, pos_names, args, kwargs):
    """explicit arguments merged over the defaults of a stdlib callable (inspect.signature of the
    *stdlib* function only): {param: explicit value | ("default", python value)}"""
    sig = inspect.signature(callee_obj)
    out = {}
    params = list(sig.parameters.values())
    for p in params:
        if p.default is not inspect.Parameter.empty:
            out[p.name] = ("default", p.default)
    for i, a in enumerate(args):
        if i < len(params):
            out[params[i].name] = a
    for n, v in kwargs:
        if n not in sig.parameters and not any(p.kind == p.VAR_KEYWORD for p in params):
            raise AnalysisError("keyword %s is not a parameter of %s" % (n, getattr(callee_obj, "__name__", callee_obj)))
        out[n] = v
    return out
