"""Syntactic, resolved call graph over the whole package (E1 output).

Every ast.Call in every function is classified
    repo | external | builtin | method-on-value | dynamic
Edges to repo functions include class-bound resolution (Class.m, cls.m, super().m) and
function values stored in registries (set_defaults(func=X), dict/list displays of
function names) so that reachability questions ("which handlers can reach an in-place
signer") do not depend on the walker.
"""
from __future__ import annotations

import ast

from .model import dotted_chain


_BUILTIN_METHOD_NAMES = frozenset(n for ty in (dict, list, str, bytes, bytearray, set, frozenset, tuple, int, float) for n in dir(ty)) | frozenset(
    ["read", "write", "close", "flush", "readline", "readlines", "writelines", "seek", "tell", "encode", "decode", "sign", "verify", "public_key", "public_bytes", "private_bytes", "parse_args", "add_argument", "add_parser", "set_defaults", "add_subparsers", "communicate", "group", "match", "search", "fullmatch"]
)


class CallGraph:
    def __init__(self, prog):
        self.prog = prog
        self.edges = {}  # qualname -> set(qualname)
        self.sites = {}  # qualname -> list of (node, kind, target string)
        self.counts = {"repo": 0, "external": 0, "builtin": 0, "method-on-value": 0, "dynamic": 0}
        self._repo_method_names = {}
        for q, fi in prog.funcs.items():
            if fi.cls and "." not in q[len(fi.mod.short) + 1 + len(fi.cls) + 1 :]:
                self._repo_method_names.setdefault(q.rsplit(".", 1)[1], []).append(q)
        for q, fi in prog.funcs.items():
            self._scan(fi)

    def _own_nodes(self, fi):
        """nodes of fi's body excluding nested function/class bodies"""
        out = []

        def go(n):
            for ch in ast.iter_child_nodes(n):
                if isinstance(ch, (ast.FunctionDef, ast.AsyncFunctionDef, ast.ClassDef, ast.Lambda)):
                    continue
                out.append(ch)
                go(ch)

        go(fi.node)
        return out

    def _local_names(self, fi):
        names = {a.arg for a in fi.node.args.posonlyargs + fi.node.args.args + fi.node.args.kwonlyargs}
        for n in self._own_nodes(fi):
            if isinstance(n, ast.Name) and isinstance(n.ctx, ast.Store):
                names.add(n.id)
        return names

    def _scan(self, fi):
        prog = self.prog
        edges = self.edges.setdefault(fi.qualname, set())
        sites = self.sites.setdefault(fi.qualname, [])
        local = self._local_names(fi)
        nested = {q.rsplit(".", 1)[1]: q for q in prog.funcs if q.startswith(fi.qualname + ".") and "." not in q[len(fi.qualname) + 1 :]}
        cls_q = fi.mod.short + "." + fi.cls if fi.cls else None

        def ref_target(node):
            """repo function a Name/Attribute expression denotes (as a value), or None"""
            chain = dotted_chain(node)
            if not chain:
                return None
            if chain[0] in nested and len(chain) == 1:
                return nested[chain[0]]
            if chain[0] in local:
                return None
            if chain[0] == "super()":
                return None
            r, rest = prog.resolve_dotted(fi.mod, chain)
            if r[0] == "func" and not rest:
                return r[1]
            if r[0] == "class" and len(rest) == 1:
                m = prog.find_method(r[1], rest[0])
                if m and m[0] == "repo":
                    return m[1].qualname
            return None

        for n in self._own_nodes(fi):
            if isinstance(n, ast.Call):
                f = n.func
                chain = dotted_chain(f)
                kind, tgt = "dynamic", ast.unparse(f)[:60]
                if chain and chain[0] == "super()" and cls_q and len(chain) == 2:
                    hits = []
                    for cq in self._concrete(cls_q):
                        m = prog.find_method(cq, chain[1], after=cls_q)
                        if m:
                            hits.append(m)
                    kind, tgt = self._classify_methods(hits, edges)
                elif chain and chain[0] in ("cls", "self") and cls_q and len(chain) == 2 and chain[0] in local:
                    hits = []
                    for cq in self._concrete(cls_q):
                        m = prog.find_method(cq, chain[1])
                        if m:
                            hits.append(m)
                    if hits:
                        kind, tgt = self._classify_methods(hits, edges)
                    else:
                        kind = "method-on-value"
                elif chain and chain[0] in nested and len(chain) == 1:
                    kind, tgt = "repo", nested[chain[0]]
                    edges.add(tgt)
                elif chain and chain[0] in local:
                    kind = "method-on-value" if len(chain) > 1 else "dynamic"
                elif chain:
                    r, rest = prog.resolve_dotted(fi.mod, chain)
                    if r[0] == "func" and not rest:
                        kind, tgt = "repo", r[1]
                        edges.add(r[1])
                    elif r[0] == "class":
                        if len(rest) == 1:
                            m = prog.find_method(r[1], rest[0])
                            kind, tgt = self._classify_methods([m] if m else [], edges)
                        elif len(rest) == 2 and (prog.find_method(r[1], rest[1]) or ("",))[0] == "repo" and (prog.find_method(r[1], rest[0]) or ("",))[0] != "repo":
                            # Class.MEMBER.method(...): an Enum member / class-level instance
                            m = prog.find_method(r[1], rest[1])
                            kind, tgt = self._classify_methods([m], edges)
                        else:
                            kind, tgt = "repo", r[1]
                    elif r[0] == "builtin":
                        kind, tgt = "builtin", ".".join([r[1]] + rest)
                    elif r[0] in ("ext", "extmod", "pkg"):
                        kind, tgt = "external", ".".join([r[1]] + rest) if r[0] != "pkg" else ".".join(chain)
                    elif r[0] == "const":
                        kind = "method-on-value"
                    else:
                        kind = "dynamic"
                elif isinstance(f, ast.Attribute):
                    kind, tgt = "method-on-value", f.attr
                if kind in ("method-on-value", "dynamic") and isinstance(f, ast.Attribute) and f.attr in self._repo_method_names and f.attr not in _BUILTIN_METHOD_NAMES:
                    # a method call on a value: by name, any repository method it could be (class
                    # hierarchy analysis by name; reachability is over-approximated, never missed)
                    for mq in self._repo_method_names[f.attr]:
                        edges.add(mq)
                self.counts[kind] = self.counts.get(kind, 0) + 1
                sites.append((n, kind, tgt))
                # function values passed or stored: registries
                for a in list(n.args) + [k.value for k in n.keywords]:
                    t = ref_target(a)
                    if t:
                        edges.add(t)
            elif isinstance(n, (ast.Dict, ast.List, ast.Tuple, ast.Set)):
                elts = n.values if isinstance(n, ast.Dict) else n.elts
                for a in elts:
                    if isinstance(a, (ast.Name, ast.Attribute)):
                        t = ref_target(a)
                        if t:
                            edges.add(t)

    def _concrete(self, cls_q):
        """cls_q and the repo classes deriving from it"""
        out = [cls_q]
        for q in self.prog.classes:
            if q != cls_q and ("repo", cls_q) in self.prog.mro(q):
                out.append(q)
        return out

    def _classify_methods(self, hits, edges):
        kind, tgt = "method-on-value", ""
        for m in hits:
            if m[0] == "repo":
                edges.add(m[1].qualname)
                kind, tgt = "repo", m[1].qualname
            elif kind != "repo":
                kind, tgt = "external", m[1]
        return kind, tgt

    def cone(self, roots):
        """all repo functions reachable from roots (inclusive)"""
        seen = set()
        stack = list(roots)
        while stack:
            q = stack.pop()
            if q in seen:
                continue
            seen.add(q)
            stack.extend(self.edges.get(q, ()))
        return seen

    def cycles_in(self, nodes):
        """a list of cycles (as lists of qualnames) among `nodes`"""
        color = {}
        out = []
        path = []

        def go(q):
            color[q] = 1
            path.append(q)
            for t in sorted(self.edges.get(q, ())):
                if t not in nodes:
                    continue
                if color.get(t) == 1:
                    out.append(path[path.index(t) :] + [t])
                elif t not in color:
                    go(t)
            path.pop()
            color[q] = 2

        for q in sorted(nodes):
            if q not in color:
                go(q)
        return out

    def callers_of(self, target):
        return {q for q, ts in self.edges.items() if target in ts}
