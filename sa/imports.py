"""E7 - static import closure.

For a repo module M, the set of modules *guaranteed loaded* once M has been imported:
the transitive closure of unconditional module-level import statements, computed by
parsing the dependency's own sources located by path under the interpreter's search
path (files are parsed, never imported; extension modules are leaves; imports under
`if` / `try` / inside functions are not guaranteed).

A dotted attribute chain rooted at a name bound by `import a.b` (e.g.
`cryptography.hazmat.backends.default_backend`) is sound only if every *module*
component of the chain is in that closure - otherwise evaluating it raises
AttributeError in a process that imported nothing else.
"""
from __future__ import annotations

import ast
import hashlib
import os
import sys

SUFFIXES = (".py",)
EXT_SUFFIXES = tuple(s for s in (".cpython-312-x86_64-linux-gnu.so", ".abi3.so", ".so"))


class ImportClosure:
    def __init__(self, prog, search_paths=None):
        self.prog = prog
        if search_paths is None:
            search_paths = [p for p in sys.path if p and os.path.isdir(p) and not os.path.abspath(p).startswith(("/verif", os.path.abspath(prog.root)))]
        self.search_paths = search_paths
        self._file = {}
        self._imports = {}
        self._closure = {}
        self.files_read = {}

    # ------------------------------------------------------------------ locating
    def locate(self, dotted):
        """-> ("py", path, is_pkg) | ("ext", path) | ("repo", Module) | None"""
        if dotted in self._file:
            return self._file[dotted]
        res = None
        if dotted in self.prog.modules:
            res = ("repo", self.prog.modules[dotted])
        else:
            rel = dotted.replace(".", os.sep)
            for root in self.search_paths:
                base = os.path.join(root, rel)
                if os.path.isfile(os.path.join(base, "__init__.py")):
                    res = ("py", os.path.join(base, "__init__.py"), True)
                    break
                if os.path.isfile(base + ".py"):
                    res = ("py", base + ".py", False)
                    break
                hit = None
                d = os.path.dirname(base)
                if os.path.isdir(d):
                    stem = os.path.basename(base)
                    for f in os.listdir(d):
                        if f.startswith(stem + ".") and f.endswith(".so"):
                            hit = os.path.join(d, f)
                            break
                if hit:
                    res = ("ext", hit)
                    break
                if os.path.isdir(base):  # namespace package
                    res = ("py", None, True)
                    break
            if res is None and dotted in sys.builtin_module_names:
                res = ("ext", "<builtin>")
        self._file[dotted] = res
        return res

    def is_module(self, dotted):
        return self.locate(dotted) is not None

    # ------------------------------------------------------------------ direct imports of one module
    def direct_imports(self, dotted):
        """modules loaded by the unconditional top-level imports of `dotted`"""
        if dotted in self._imports:
            return self._imports[dotted]
        loc = self.locate(dotted)
        out = set()
        self._imports[dotted] = out
        if loc is None or loc[0] == "ext":
            return out
        if loc[0] == "repo":
            tree, is_pkg = loc[1].tree, loc[1].short == "__init__"
        else:
            if loc[1] is None:
                return out
            try:
                with open(loc[1], "rb") as f:
                    raw = f.read()
                self.files_read[loc[1]] = hashlib.sha256(raw).hexdigest()
                tree = ast.parse(raw, loc[1])
            except (OSError, SyntaxError, ValueError):
                return out
            is_pkg = loc[2]
        pkg_parts = dotted.split(".") if is_pkg else dotted.split(".")[:-1]
        for n in tree.body:
            if isinstance(n, ast.Import):
                for a in n.names:
                    parts = a.name.split(".")
                    for i in range(1, len(parts) + 1):
                        out.add(".".join(parts[:i]))
            elif isinstance(n, ast.ImportFrom):
                if n.level:
                    base = pkg_parts[: len(pkg_parts) - (n.level - 1)]
                    src = ".".join(base + (n.module.split(".") if n.module else []))
                else:
                    src = n.module or ""
                if not src:
                    continue
                parts = src.split(".")
                for i in range(1, len(parts) + 1):
                    out.add(".".join(parts[:i]))
                for a in n.names:
                    if a.name != "*" and self.is_module(src + "." + a.name):
                        out.add(src + "." + a.name)
        return out

    def closure(self, dotted):
        """all modules guaranteed loaded after importing `dotted`"""
        if dotted in self._closure:
            return self._closure[dotted]
        seen = set()
        parts = dotted.split(".")
        stack = [".".join(parts[:i]) for i in range(1, len(parts) + 1)]
        while stack:
            m = stack.pop()
            if m in seen:
                continue
            seen.add(m)
            for d in self.direct_imports(m):
                if d not in seen:
                    stack.append(d)
        self._closure[dotted] = seen
        return seen

    # ------------------------------------------------------------------ chain check
    def check_chain(self, mod, chain, lineno=None):
        """chain = [root, a, b, ...] rooted at a module-level import binding of repo module
        `mod`.  Returns None if sound, else the dotted name of the first module component
        that is not guaranteed loaded."""
        imp = mod.imports.get(chain[0])
        if imp is None:
            return None
        if imp[0] == "pkg":
            root = imp[1]
        elif imp[0] == "mod":
            root = imp[1]
        elif imp[0] == "from":
            cand = imp[1] + "." + imp[2]
            if not self.is_module(cand):
                return None
            root = cand
        else:
            return None
        loaded = self.closure(mod.name)
        if imp[0] == "pkg":
            # `import a.b.c` guarantees exactly the dotted names it spells out (+closure)
            loaded = set(loaded)
        cur = root
        for comp in chain[1:]:
            nxt = cur + "." + comp
            if not self.is_module(nxt):
                # an attribute (class, function, constant) of module `cur`: done
                return None
            loc = self.locate(cur)
            # a name the parent package's __init__ binds itself (from . import x) is in `loaded` already
            if nxt not in loaded:
                return nxt
            cur = nxt
        return None
