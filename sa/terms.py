"""E2 - symbolic terms, access paths and literals (facts).

Terms are nested tuples (hashable, comparable).  Values are never concrete data:

  ("param", name)                      a parameter of the function being analysed
  ("const", typename, value)           a literal constant (typename keeps True != 1)
  ("global", qualified)                a resolved module-level object (repo/ext/builtin)
  ("sub", base, key)                   base[key]
  ("attr", base, name)                 base.name
  ("call", callee, args, kwargs)       result of a call; callee is a resolved string
  ("lit", kind, items, site)           dict/list/set/tuple display (site = identity)
  ("elem", iter_term, loop_id)         an arbitrary element yielded by iterating iter_term
  ("fresh", tag, n)                    unknown value
  ("binop", op, l, r) ("fstr", parts) ("comp", kind, iter, elt, loop_id)
  ("closure", qualname, captured)      a nested function / lambda value; captured = ((name, term), ...)
                                       snapshot of its free variables when it was created
  ("partial", f, args, kwargs)         functools.partial(f, *args, **kwargs)
  ("nt", class qualname, fields)       instance of a typing.NamedTuple class of the repository
  ("obj", class qualname, site)        an instance of a plain class of the repository, created at
                                       `site`; its attributes live in the path state (env["$heap"])
  ("gen", qualname, bindings)          a generator object: the call of a generator function that has
                                       not run yet; bindings = ((parameter, term), ...)
  ("excobj", classname)                a caught exception object
"""
from __future__ import annotations

import itertools

_fresh = itertools.count()


def P(name):
    return ("param", name)


def C(value):
    return ("const", type(value).__name__, value)


def G(q):
    return ("global", q)


def Sub(base, key):
    return ("sub", base, key)


def SubC(base, *keys):
    """base[k1][k2]... with constant keys"""
    for k in keys:
        base = ("sub", base, C(k))
    return base


def Attr(base, name):
    return ("attr", base, name)


def Call(callee, *args, **kwargs):
    return ("call", callee, tuple(args), tuple(sorted(kwargs.items())))


def CallT(callee, args, kwargs=()):
    return ("call", callee, tuple(args), tuple(kwargs))


def Elem(it, loop_id):
    return ("elem", it, loop_id)


def Fresh(tag=""):
    return ("fresh", tag, next(_fresh))


def is_const(t):
    return isinstance(t, tuple) and len(t) == 3 and t[0] == "const"


def const_value(t):
    return t[2]


def is_call(t, callee=None):
    return (
        isinstance(t, tuple)
        and len(t) == 4
        and t[0] == "call"
        and (callee is None or t[1] == callee or (isinstance(callee, (set, frozenset, tuple)) and t[1] in callee))
    )


def is_lit(t, kind=None):
    return isinstance(t, tuple) and len(t) == 4 and t[0] == "lit" and (kind is None or t[1] == kind)


def lit_const_values(t):
    """python values of a display whose items are all constants, else None"""
    if not is_lit(t):
        return None
    out = []
    for it in t[2]:
        if t[1] == "dict":
            return None
        if is_const(it):
            out.append(it[2])
        elif is_lit(it):
            inner = lit_const_values(it)
            if inner is None:
                return None
            out.append(tuple(inner))
        else:
            return None
    return out


def subst(t, mp):
    """replace sub-terms according to mp (term -> term), outermost first"""
    if not mp:
        return t
    for k in mp:
        if not (type(k) is tuple and len(k) == 2 and k[0] == "param"):
            return _subst(t, mp)
    return _subst_params(t, {k[1]: v for k, v in mp.items()})


def _subst_params(t, pm):
    """fast path: only ("param", name) leaves are replaced"""
    tt = type(t)
    if tt is tuple:
        n = len(t)
        if n == 2 and t[0] == "param":
            return pm.get(t[1], t)
        changed = False
        out = []
        for x in t:
            tx = type(x)
            if tx is tuple or tx is frozenset:
                y = _subst_params(x, pm)
                if y is not x:
                    changed = True
                out.append(y)
            else:
                out.append(x)
        if not changed:
            return t
        r = tuple(out)
        if n == 3 and r[0] == "sub" and is_lit(r[1], "dict") and is_const(r[2]):
            hit = [v for k, v in r[1][2] if k == r[2]]
            if hit:
                return hit[-1]
        return r
    if tt is frozenset:
        out = frozenset(_subst_params(x, pm) for x in t)
        return t if out == t else out
    return t


def _subst(t, mp):
    if isinstance(t, tuple):
        if type(t) is not tuple:  # Site / Exc records: not terms
            return t
        try:
            if t in mp:
                return mp[t]
        except TypeError:
            pass
        if len(t) >= 4 and t[0] in ("store", "del") and type(t[2]) is tuple and len(t[2]) == 3 and t[2][0] == "attr":
            # an event `obj.attr = v`: the slot written is not a read of the attribute's old value
            tgt = ("attr", _subst(t[2][1], mp), t[2][2])
            return (t[0], t[1], tgt) + tuple(_subst(x, mp) for x in t[3:])
        r = tuple(_subst(x, mp) for x in t)
        # {..."k": v...}["k"] -> v : indexing a dict display by a constant key
        if len(r) == 3 and r[0] == "sub" and is_lit(r[1], "dict") and is_const(r[2]):
            hit = [v for k, v in r[1][2] if k == r[2]]
            if hit:
                return hit[-1]
        return r
    if isinstance(t, frozenset):
        return frozenset(_subst(x, mp) for x in t)
    return t


def subterms(t):
    """all tuple sub-terms of t (including t), pre-order"""
    if isinstance(t, tuple):
        yield t
        for x in t:
            yield from subterms(x)
    elif isinstance(t, frozenset):
        for x in t:
            yield from subterms(x)


def mentions(t, pred):
    return any(pred(s) for s in subterms(t))


def has_kind(t, *kinds):
    """does t contain a term node of one of the given kinds"""
    for s in subterms(t):
        if s and isinstance(s[0], str) and s[0] in kinds and _is_term_node(s):
            return True
    return False


_ARITY = {
    "param": 2,
    "const": 3,
    "global": 2,
    "sub": 3,
    "attr": 3,
    "call": 4,
    "lit": 4,
    "elem": 3,
    "fresh": 3,
    "binop": 4,
    "fstr": 2,
    "comp": 5,
    "closure": 3,
    "partial": 4,
    "gen": 3,
    "obj": 3,
    "enum": 3,
    "rawfunc": 2,
    "nt": 3,
    "excobj": 2,
    "free": 2,
    "unop": 3,
}


def _is_term_node(s):
    return isinstance(s, tuple) and s and isinstance(s[0], str) and _ARITY.get(s[0]) == len(s)


def root_of(t):
    """root of an access path: strips sub/attr"""
    while isinstance(t, tuple) and t and t[0] in ("sub", "attr"):
        t = t[1]
    return t


def access_path(t):
    """(root, [steps]) where steps are ('sub', key) / ('attr', name)"""
    steps = []
    while isinstance(t, tuple) and t and t[0] in ("sub", "attr"):
        steps.append((t[0], t[2]))
        t = t[1]
    return t, steps[::-1]


def is_param_rooted(t, allow_elem=True):
    """no fresh / free ingredient anywhere in t (direct recursion: this is the hottest helper)"""
    tt = type(t)
    if tt is tuple:
        if t and (t[0] == "fresh" or t[0] == "free") and len(t) == _ARITY[t[0]]:
            return False
        for x in t:
            tx = type(x)
            if (tx is tuple or tx is frozenset) and not is_param_rooted(x):
                return False
        return True
    if tt is frozenset:
        for x in t:
            if not is_param_rooted(x):
                return False
        return True
    if isinstance(t, tuple):  # Site / Exc records
        return True
    return True


# ------------------------------------------------------------------ pretty printer
def show(t, depth=0):
    if depth > 12:
        return "..."
    if isinstance(t, frozenset):
        return "{" + ", ".join(sorted(show(x, depth + 1) for x in t)) + "}"
    if not isinstance(t, tuple) or not t:
        return repr(t)
    k = t[0]
    d = depth + 1
    if not _is_term_node(t):
        return "(" + ", ".join(show(x, d) for x in t) + ")"
    if k == "param":
        return t[1]
    if k == "const":
        return repr(t[2])
    if k == "global":
        return t[1]
    if k == "sub":
        return "%s[%s]" % (show(t[1], d), show(t[2], d))
    if k == "attr":
        return "%s.%s" % (show(t[1], d), t[2])
    if k == "call":
        callee = t[1]
        args = [show(a, d) for a in t[2]] + ["%s=%s" % (n, show(v, d)) for n, v in t[3]]
        if callee.startswith("method:") and t[2]:
            return "%s.%s(%s)" % (args[0], callee[7:], ", ".join(args[1:]))
        short = callee.split(":", 1)[-1]
        return "%s(%s)" % (short, ", ".join(args))
    if k == "lit":
        if t[1] == "dict":
            return "{" + ", ".join("%s: %s" % (show(a, d), show(b, d)) for a, b in t[2]) + "}"
        op, cl = {"list": "[]", "tuple": "()", "set": "{}", "slice": "<>"}[t[1]]
        return op + ", ".join(show(x, d) for x in t[2]) + cl
    if k == "elem":
        return "<elem of %s>" % show(t[1], d)
    if k == "fresh":
        return "?%s%d" % (t[1], t[2])
    if k == "binop":
        return "(%s %s %s)" % (show(t[2], d), t[1], show(t[3], d))
    if k == "unop":
        return "(%s %s)" % (t[1], show(t[2], d))
    if k == "fstr":
        return "f" + repr("".join("{%s}" % show(p, d) if not is_const(p) else str(p[2]) for p in t[1]))
    if k == "comp":
        return "<%s-comp %s for elem in %s>" % (t[1], show(t[3], d), show(t[2], d))
    if k in ("closure", "excobj", "free", "rawfunc"):
        return "<%s %s>" % (k, t[1])
    if k == "partial":
        return "partial(%s)" % ", ".join([show(t[1], d)] + [show(x, d) for x in t[2]] + ["%s=%s" % (n, show(v, d)) for n, v in t[3]])
    if k == "nt":
        return "%s(%s)" % (t[1].split(".")[-1], ", ".join(show(x, d) for x in t[2]))
    if k == "enum":
        return "%s.%s" % (t[1].split(".")[-1], t[2])
    if k == "obj":
        return "<%s object created at %s>" % (t[1].split(".")[-1], t[2].loc() if hasattr(t[2], "loc") else t[2])
    if k == "gen":
        return "<generator %s(%s)>" % (t[1], ", ".join("%s=%s" % (n, show(v, d)) for n, v in t[2]))
    return "(" + ", ".join(show(x, d) for x in t) + ")"


def show_fact(f):
    k = f[0]
    if k in ("has", "nothas"):
        return "%s %s %s" % (show(f[2]), "in" if k == "has" else "not in", show(f[1]))
    if k in ("type", "nottype"):
        return "type(%s) %s {%s}" % (show(f[1]), "in" if k == "type" else "not in", ",".join(sorted(f[2])))
    if k in ("ok", "notok"):
        return "%s(%s)" % (k, show(f[1]))
    if k in ("truthy", "falsy"):
        return "%s(%s)" % (k, show(f[1]))
    if k in ("eq", "ne"):
        return "%s %s %s" % (show(f[1]), "==" if k == "eq" else "!=", show(f[2]))
    if k == "cmp":
        return "%s %s %s" % (show(f[2]), f[1], show(f[3]))
    if k == "notcmp":
        return "not (%s %s %s)" % (show(f[2]), f[1], show(f[3]))
    if k == "ret":
        return "%s is %s" % (show(f[1]), f[2])
    if k == "forallalt":
        return "every elem of %s: %s" % (show(f[1]), " | ".join(sorted("{" + "; ".join(sorted(show_fact(x) for x in alt)) + "}" for alt in f[3])))
    if k == "exists":
        return "some elem of %s: %s" % (show(f[1]), " | ".join(sorted("{" + "; ".join(sorted(show_fact(x) for x in alt)) + "}" for alt in f[3])))
    if k == "forall":
        return "forall elem of %s: {%s}" % (show(f[1]), "; ".join(sorted(show_fact(x) for x in f[3])))
    if k == "imp":
        return "(%s) => (%s)" % (show_fact(f[1]), show_fact(f[2]))
    if k in ("keys",):
        return "keys(%s) == {%s}" % (show(f[1]), ",".join(sorted(map(repr, f[2]))))
    if k in ("keysin",):
        return "keys(%s) in {%s}" % (show(f[1]), " | ".join(sorted("{" + ",".join(sorted(map(repr, a))) + "}" for a in f[2])))
    if k == "anyof":
        return "anyof(%s)" % ", ".join(show_fact(x) for x in f[1])
    return show(f)


# ------------------------------------------------------------------ normalisers
HEXENC = {"ext:binascii.hexlify"}
HEXDEC = {"ext:binascii.unhexlify", "ext:bytes.fromhex"}


def norm_codec(t):
    """HEX(x) / UNHEX(x) normal forms:
    hexlify(x).decode(*) and x.hex() -> ('HEX', x); unhexlify(x), bytes.fromhex(x) -> ('UNHEX', x)."""
    if is_call(t):
        callee, args = t[1], t[2]
        if callee == "method:decode" and args and is_call(args[0], HEXENC):
            return ("HEX", norm_codec(args[0][2][0]))
        if callee == "method:hex" and len(args) == 1:
            return ("HEX", norm_codec(args[0]))
        if callee in HEXDEC and args:
            return ("UNHEX", norm_codec(args[0]))
        return ("call", callee, tuple(norm_codec(a) for a in args), tuple((n, norm_codec(v)) for n, v in t[3]))
    if isinstance(t, tuple) and _is_term_node(t) and t[0] in ("sub", "attr"):
        return (t[0], norm_codec(t[1]), norm_codec(t[2]) if t[0] == "sub" else t[2])
    return t


def linear_form(t):
    """integer-linear normal form of a term built from + - and integer constants:
    returns (dict atom->coeff, const) or None.  Atoms are arbitrary terms."""
    if is_const(t) and isinstance(t[2], int) and not isinstance(t[2], bool):
        return ({}, t[2])
    if isinstance(t, tuple) and t and t[0] == "binop" and t[1] in ("+", "-"):
        a, b = linear_form(t[2]), linear_form(t[3])
        if a is None or b is None:
            return None
        sign = 1 if t[1] == "+" else -1
        co = dict(a[0])
        for k, v in b[0].items():
            co[k] = co.get(k, 0) + sign * v
        return ({k: v for k, v in co.items() if v}, a[1] + sign * b[1])
    if isinstance(t, tuple) and t and t[0] == "unop" and t[1] == "-":
        a = linear_form(t[2])
        if a is None:
            return None
        return ({k: -v for k, v in a[0].items()}, -a[1])
    return ({t: 1}, 0)


def linear_cmp(op, l, r):
    """normalise  l op r  to (op', frozenset(atom->coeff items), const) meaning
    sum(coeff*atom) + const  op'  0, with op' in {'==','!=','<','<='} and the first
    atom (in sorted repr order) having positive coefficient for ==/!=."""
    a, b = linear_form(l), linear_form(r)
    if a is None or b is None:
        return None
    co = dict(a[0])
    for k, v in b[0].items():
        co[k] = co.get(k, 0) - v
    co = {k: v for k, v in co.items() if v}
    c = a[1] - b[1]
    if op in (">", ">="):
        co = {k: -v for k, v in co.items()}
        c = -c
        op = "<" if op == ">" else "<="
    if op in ("==", "!=") and co:
        first = sorted(co, key=repr)[0]
        if co[first] < 0:
            co = {k: -v for k, v in co.items()}
            c = -c
    return (op, frozenset(co.items()), c)


def concat_parts(t):
    """flatten a + chain (bytes or str concatenation) into its operand list"""
    if isinstance(t, tuple) and t and t[0] == "binop" and t[1] == "+":
        return concat_parts(t[2]) + concat_parts(t[3])
    return [t]


def string_leaves(t):
    """leaves of a string-building expression: '+' chains, f-strings, .format, %,
    str()/repr()/ascii() wrappers are kept as leaves (they matter to the taint rule)."""
    if isinstance(t, tuple) and t:
        if t[0] == "binop" and t[1] == "+":
            return string_leaves(t[2]) + string_leaves(t[3])
        if t[0] == "binop" and t[1] == "%":
            right = t[3]
            items = list(right[2]) if is_lit(right, "tuple") else [right]
            if is_const(t[2]) and isinstance(t[2][2], str):
                # a constant template: every conversion with its argument ('%s' is str(x), ...)
                import re as _re

                out, pos, k, ok = [], 0, 0, True
                for m in _re.finditer(r"%(?:\((\w+)\))?[#0\- +]*(\*|\d+)?(?:\.(\*|\d+))?[hlL]?([diouxXeEfFgGcrsa%])", t[2][2]):
                    if m.start() > pos:
                        out.append(C(t[2][2][pos : m.start()]))
                    pos = m.end()
                    conv = m.group(4)
                    if conv == "%":
                        out.append(C("%"))
                        continue
                    if m.group(1) or m.group(2) == "*" or m.group(3) == "*" or k >= len(items):
                        ok = False
                        break
                    v = items[k]
                    k += 1
                    plain = not m.group(2) and not m.group(3)
                    if conv == "s" and plain:
                        out.append(("call", "builtin:str", (v,), ()))
                    elif conv == "a" and plain:
                        out.append(("call", "builtin:ascii", (v,), ()))
                    elif conv == "r" and plain:
                        out.append(("call", "builtin:repr", (v,), ()))
                    else:
                        out.append(("fmt", "%", v))
                if ok and k == len(items) and "%" not in t[2][2][pos:]:
                    if pos < len(t[2][2]):
                        out.append(C(t[2][2][pos:]))
                    return out
            return string_leaves(t[2]) + [("fmt", "%", x) for x in items]
        if t[0] == "fstr":
            out = []
            for p in t[1]:
                out += string_leaves(p) if is_const(p) else [p]
            return out
        if is_call(t, "method:format") and t[2] and is_const(t[2][0]) and isinstance(t[2][0][2], str):
            # a constant template: every field with its conversion ({x!a} is ascii(x), {x!r} repr(x))
            import string as _string

            args, kw = t[2][1:], dict(t[3])
            out, auto = [], 0
            try:
                for lit, field, spec, conv in _string.Formatter().parse(t[2][0][2]):
                    if lit:
                        out.append(C(lit))
                    if field is None:
                        continue
                    head = field.split(".")[0].split("[")[0]
                    if head == "":
                        v = args[auto]
                        auto += 1
                    elif head.isdigit():
                        v = args[int(head)]
                    else:
                        v = kw[head]
                    if "." in field or "[" in field:
                        out.append(("fmt", "format", v))
                    elif conv == "a":
                        out.append(("call", "builtin:ascii", (v,), ()))
                    elif conv == "r":
                        out.append(("call", "builtin:repr", (v,), ()))
                    else:
                        out.append(("call", "builtin:str", (v,), ()) if conv == "s" or not spec else ("fmt", "format", v))
                return out
            except (ValueError, IndexError, KeyError):
                pass
        if is_call(t, "method:format"):
            return string_leaves(t[2][0]) + [("fmt", "format", a) for a in t[2][1:]] + [("fmt", "format", v) for _n, v in t[3]]
        if is_call(t, "method:join") and len(t[2]) == 2 and is_lit(t[2][1]):
            out = string_leaves(t[2][0])
            for x in t[2][1][2]:
                out += string_leaves(x)
            return out
    return [t]


def text_parts(t):
    """ordered parts of a string-building expression, wrappers that do not change a str removed:
    'a' + x + 'b'  ==  f'a{x}b'  ==  'a{}b'.format(x)  ->  [C('a'), x, C('b')] (adjacent constants merged)"""
    import string as _string

    def go(t):
        if isinstance(t, tuple) and t:
            if t[0] == "binop" and t[1] == "+":
                return go(t[2]) + go(t[3])
            if t[0] == "fstr":
                out = []
                for p in t[1]:
                    out += go(p)
                return out
            if is_call(t, ("builtin:format", "builtin:str")) and len(t[2]) == 1 and not t[3]:
                return go(t[2][0])
            if is_call(t, "method:format") and t[2] and is_const(t[2][0]) and isinstance(t[2][0][2], str):
                args, kw = t[2][1:], dict(t[3])
                out, auto = [], 0
                try:
                    for lit, field, spec, conv in _string.Formatter().parse(t[2][0][2]):
                        if lit:
                            out.append(C(lit))
                        if field is None:
                            continue
                        if spec or conv or "." in field or "[" in field:
                            return [t]
                        if field == "":
                            out += go(args[auto])
                            auto += 1
                        elif field.isdigit():
                            out += go(args[int(field)])
                        else:
                            out += go(kw[field])
                    return out
                except (ValueError, IndexError, KeyError):
                    return [t]
        return [t]

    merged = []
    for p in go(t):
        if is_const(p) and isinstance(p[2], str) and merged and is_const(merged[-1]) and isinstance(merged[-1][2], str):
            merged[-1] = C(merged[-1][2] + p[2])
        elif is_const(p) and p[2] == "":
            continue
        else:
            merged.append(p)
    return merged
