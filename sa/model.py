"""E1 - program model: modules, functions, classes, imports, constants, name and call
resolution, exception hierarchy, syntactic call graph.

Everything is read from the working tree under <root>/conda_content_trust (or from an
in-memory overlay {relative path: source} used by the self-tests); nothing is imported.
"""
from __future__ import annotations

import ast
import builtins
import hashlib
import os
import tomllib

from . import AnalysisError

PKG = "conda_content_trust"


class FuncInfo:
    def __init__(self, qualname, mod, node, cls=None, parent=None):
        self.qualname = qualname  # e.g. "common.MixinKey.from_hex"
        self.mod = mod  # Module
        self.node = node
        self.cls = cls  # class name or None
        self.parent = parent  # enclosing FuncInfo for nested functions
        self.is_classmethod = any(isinstance(d, ast.Name) and d.id == "classmethod" for d in node.decorator_list)
        self.is_staticmethod = any(isinstance(d, ast.Name) and d.id == "staticmethod" for d in node.decorator_list)

    @property
    def name(self):
        return self.node.name

    def params(self):
        a = self.node.args
        return [x.arg for x in a.posonlyargs + a.args]

    def __repr__(self):
        return "<func %s>" % self.qualname

    @property
    def is_generator(self):
        """does the function's own body (not a nested function) contain yield"""
        g = getattr(self, "_is_gen", None)
        if g is None:
            g = False
            stack = list(self.node.body)
            while stack:
                x = stack.pop()
                if isinstance(x, (ast.FunctionDef, ast.AsyncFunctionDef, ast.Lambda, ast.ClassDef)):
                    continue
                if isinstance(x, (ast.Yield, ast.YieldFrom)):
                    g = True
                    break
                stack.extend(ast.iter_child_nodes(x))
            self._is_gen = g
        return g

    @property
    def yields_in_loops(self):
        y = getattr(self, "_yil", None)
        if y is None:
            y = False
            for loop in ast.walk(self.node):
                if isinstance(loop, (ast.For, ast.While, ast.AsyncFor)):
                    if any(isinstance(x, (ast.Yield, ast.YieldFrom)) for x in ast.walk(loop)):
                        y = True
            # yield from <iterable> is a loop as well
            if any(isinstance(x, ast.YieldFrom) for x in ast.walk(self.node)):
                y = True
            self._yil = y
        return y

    def local_names(self):
        """parameters and names bound in this function's own body (not in nested functions)"""
        ln = getattr(self, "_local_names", None)
        if ln is None:
            a = self.node.args
            ln = {x.arg for x in a.posonlyargs + a.args + a.kwonlyargs}
            if a.vararg:
                ln.add(a.vararg.arg)
            if a.kwarg:
                ln.add(a.kwarg.arg)
            stack = list(self.node.body)
            while stack:
                x = stack.pop()
                if isinstance(x, (ast.FunctionDef, ast.AsyncFunctionDef, ast.ClassDef)):
                    ln.add(x.name)
                    continue
                if isinstance(x, ast.Lambda):
                    continue
                if isinstance(x, ast.Name) and isinstance(x.ctx, (ast.Store, ast.Del)):
                    ln.add(x.id)
                if isinstance(x, ast.alias):
                    ln.add((x.asname or x.name).split(".")[0])
                if isinstance(x, ast.ExceptHandler) and x.name:
                    ln.add(x.name)
                stack.extend(ast.iter_child_nodes(x))
            self._local_names = ln
        return ln

    def free_vars(self):
        """names this nested function (or lambda) reads from an enclosing function's scope"""
        fv = getattr(self, "_free_vars", None)
        if fv is None:
            fv = []
            if self.parent is not None:
                own = self.local_names()
                outer = set()
                par = self.parent
                while par is not None:
                    outer |= par.local_names()
                    par = par.parent
                used = {x.id for x in ast.walk(self.node) if isinstance(x, ast.Name) and isinstance(x.ctx, ast.Load)}
                fv = sorted((used - own) & outer)
            self._free_vars = fv
        return fv


class ClassInfo:
    def __init__(self, qualname, mod, node):
        self.qualname = qualname
        self.mod = mod
        self.node = node
        self.methods = {}
        self.bases = []  # resolved: ("repo", qualname) | ("ext", dotted) | ("builtin", name)

    @property
    def is_namedtuple(self):
        """a record class: typing.NamedTuple, or a @dataclass (its instances are modelled by the
        values of their fields as well)"""
        return any(b and b[0] == "ext" and b[1] in ("typing.NamedTuple",) for b in self.bases) or self.is_dataclass

    @property
    def is_dataclass(self):
        for d in self.node.decorator_list:
            node = d.func if isinstance(d, ast.Call) else d
            txt = ast.unparse(node)
            if txt in ("dataclass", "dataclasses.dataclass"):
                return True
        return False

    @property
    def is_enum(self):
        return any(b and b[0] == "ext" and b[1] in ("enum.Enum", "enum.IntEnum", "enum.Flag", "enum.IntFlag", "enum.StrEnum") for b in self.bases)

    def enum_members(self):
        """{member name: value AST} of an Enum class"""
        out = {}
        for st in self.node.body:
            if isinstance(st, ast.Assign) and len(st.targets) == 1 and isinstance(st.targets[0], ast.Name) and not st.targets[0].id.startswith("_"):
                out[st.targets[0].id] = st.value
        return out

    def nt_fields(self):
        """[(field name, default AST node or None)] of a typing.NamedTuple class, in order"""
        out = []
        for st in self.node.body:
            if isinstance(st, ast.AnnAssign) and isinstance(st.target, ast.Name):
                out.append((st.target.id, st.value))
        return out


class Module:
    def __init__(self, name, short, relpath, source):
        self.name = name  # conda_content_trust.common
        self.short = short  # common
        self.relpath = relpath
        self.source = source
        self.sha256 = hashlib.sha256(source.encode("utf-8")).hexdigest()
        try:
            self.tree = ast.parse(source, relpath)
        except SyntaxError as e:
            raise AnalysisError("cannot parse %s: %s" % (relpath, e))
        self.funcs = {}  # top-level name -> FuncInfo
        self.classes = {}  # name -> ClassInfo
        self.imports = {}  # bound name -> ("from", module, attr, guarded) | ("mod", dotted, guarded) | ("pkg", top, dotted, guarded)
        self.import_stmts = []  # (node, guarded)
        self.consts = {}  # name -> [value nodes] (module-level assignments)
        self.main_blocks = []  # bodies of `if __name__ == "__main__":`
        self.toplevel_stmts = []


class Program:
    def __init__(self, root="/repo", overlay=None):
        self.root = root
        self.overlay = overlay or {}
        self.modules = {}  # full name -> Module
        self.by_short = {}
        self.funcs = {}  # qualname -> FuncInfo
        self.classes = {}  # qualname -> ClassInfo
        self.files = {}  # relpath -> sha256 of what was analysed
        self._load()
        self._index()
        self._exc_parents = None

    # ------------------------------------------------------------------ loading
    def read(self, relpath):
        if relpath in self.overlay:
            return self.overlay[relpath]
        with open(os.path.join(self.root, relpath), encoding="utf-8") as f:
            return f.read()

    def exists(self, relpath):
        return relpath in self.overlay or os.path.exists(os.path.join(self.root, relpath))

    def _load(self):
        pkgdir = os.path.join(self.root, PKG)
        names = set()
        if os.path.isdir(pkgdir):
            names |= {f for f in os.listdir(pkgdir) if f.endswith(".py")}
        for rel in self.overlay:
            if rel.startswith(PKG + "/") and rel.endswith(".py") and rel.count("/") == 1:
                names.add(rel.split("/")[1])
        if not names:
            raise AnalysisError("no python sources under %s" % pkgdir)
        for f in sorted(names):
            rel = PKG + "/" + f
            src = self.read(rel)
            short = f[:-3]
            full = PKG if short == "__init__" else PKG + "." + short
            m = Module(full, short, rel, src)
            self.modules[full] = m
            self.by_short[short] = m
            self.files[rel] = m.sha256
        if self.exists("pyproject.toml"):
            src = self.read("pyproject.toml")
            self.files["pyproject.toml"] = hashlib.sha256(src.encode()).hexdigest()
            try:
                self.pyproject = tomllib.loads(src)
            except tomllib.TOMLDecodeError as e:
                raise AnalysisError("cannot parse pyproject.toml: %s" % e)
        else:
            self.pyproject = {}

    def _index(self):
        for m in self.modules.values():
            self._index_body(m, m.tree.body, guarded=False)
        self._canonicalise_reexports()
        for c in self.classes.values():
            for b in c.node.bases:
                c.bases.append(self.resolve_expr_static(c.mod, b))

    def _canonicalise_reexports(self):
        """A private module (leading underscore) whose names a public module imports is analysed
        as part of that public module: its functions and classes are known by the public module's
        name (`authentication.verify_signable` stays that when its body moves to `_verify.py`,
        helpers that move along become `authentication._helper`), its constants are visible there,
        and every rule that groups code by module ("the validators of common", "private helpers of
        the signing module") sees the moved code where it logically belongs.  Files, line numbers
        and name resolution inside the private module are unaffected."""
        hosts = {}
        for P in self.modules.values():
            if not P.short.startswith("_") or P.short.startswith("__"):
                continue
            counts = {}
            for m in self.modules.values():
                if m is P or m.short.startswith("_"):
                    continue
                n = sum(1 for imp in m.imports.values() if imp[0] == "from" and imp[1] == P.name)
                if n:
                    counts[m.short] = n
            if counts:
                best = max(sorted(counts), key=lambda k: counts[k])
                hosts[P.name] = (P, self.by_short[best])
        for P, H in hosts.values():
            P.real_short = P.short
            for name in list(P.funcs) + list(P.classes):
                if name in H.funcs or name in H.classes:
                    continue
                old_prefix = P.short + "." + name
                new_prefix = H.short + "." + name
                if new_prefix in self.funcs or new_prefix in self.classes:
                    continue
                for q in [q for q in self.funcs if q == old_prefix or q.startswith(old_prefix + ".")]:
                    fi = self.funcs[q]
                    fi.qualname = new_prefix + q[len(old_prefix):]
                    fi.defined_as = q
                    self.funcs[fi.qualname] = fi
                if old_prefix in self.classes:
                    ci = self.classes[old_prefix]
                    ci.qualname = new_prefix
                    self.classes[new_prefix] = ci
            for name, fi in P.funcs.items():
                imp = H.imports.get(name)
                # not part of the public module's surface: an internal helper of the split
                fi.module_internal = not (imp is not None and imp[0] == "from" and imp[1] == P.name)
            for cname, vals in P.consts.items():
                if cname not in H.consts and cname not in H.funcs and cname not in H.classes and cname not in H.imports:
                    H.consts[cname] = vals
                    H.__dict__.setdefault("const_origin", {})[cname] = P
            P.short = H.short

    def _index_body(self, m, body, guarded):
        for n in body:
            if isinstance(n, (ast.FunctionDef, ast.AsyncFunctionDef)):
                fi = FuncInfo(m.short + "." + n.name, m, n)
                m.funcs[n.name] = fi
                self.funcs[fi.qualname] = fi
                self._index_nested(fi)
            elif isinstance(n, ast.ClassDef):
                ci = ClassInfo(m.short + "." + n.name, m, n)
                m.classes[n.name] = ci
                self.classes[ci.qualname] = ci
                for s in n.body:
                    if isinstance(s, (ast.FunctionDef, ast.AsyncFunctionDef)):
                        fi = FuncInfo(ci.qualname + "." + s.name, m, s, cls=n.name)
                        ci.methods[s.name] = fi
                        self.funcs[fi.qualname] = fi
                        self._index_nested(fi)
            elif isinstance(n, ast.ImportFrom):
                mod = n.module or ""
                if n.level:
                    parts = m.name.split(".")
                    # a module "pkg.x" at level 1 -> "pkg"; the package __init__ at level 1 -> "pkg"
                    base = parts if m.short == "__init__" else parts[:-1]
                    base = base[: len(base) - (n.level - 1)] if n.level > 1 else base
                    mod = ".".join(base) + ("." + mod if mod else "")
                for a in n.names:
                    m.imports[a.asname or a.name] = ("from", mod, a.name, guarded)
                m.import_stmts.append((n, guarded))
            elif isinstance(n, ast.Import):
                for a in n.names:
                    if a.asname:
                        m.imports[a.asname] = ("mod", a.name, guarded)
                    else:
                        top = a.name.split(".")[0]
                        prev = m.imports.get(top)
                        dotted = set(prev[2]) if prev and prev[0] == "pkg" else set()
                        dotted.add(a.name)
                        m.imports[top] = ("pkg", top, frozenset(dotted), guarded and (not prev or prev[3]))
                m.import_stmts.append((n, guarded))
            elif isinstance(n, ast.Assign):
                for t in n.targets:
                    for nm in _target_names(t):
                        m.consts.setdefault(nm, []).append(n.value)
                m.toplevel_stmts.append(n)
            elif isinstance(n, ast.AnnAssign):
                if isinstance(n.target, ast.Name) and n.value is not None:
                    m.consts.setdefault(n.target.id, []).append(n.value)
                m.toplevel_stmts.append(n)
            elif isinstance(n, ast.Try):
                self._index_body(m, n.body, guarded=True)
                for h in n.handlers:
                    self._index_body(m, h.body, guarded=True)
                self._index_body(m, n.orelse, guarded=True)
                self._index_body(m, n.finalbody, guarded=guarded)
                m.toplevel_stmts.append(n)
            elif isinstance(n, ast.If):
                if _is_main_guard(n.test):
                    m.main_blocks.append(n.body)
                else:
                    self._index_body(m, n.body, guarded=True)
                    self._index_body(m, n.orelse, guarded=True)
                m.toplevel_stmts.append(n)
            else:
                m.toplevel_stmts.append(n)

    def _index_nested(self, fi):
        for n in ast.walk(fi.node):
            if n is fi.node:
                continue
            if isinstance(n, (ast.FunctionDef, ast.AsyncFunctionDef)) and _direct_parent_func(fi.node, n):
                sub = FuncInfo(fi.qualname + "." + n.name, fi.mod, n, cls=None, parent=fi)
                self.funcs[sub.qualname] = sub
                self._index_nested(sub)

    # ------------------------------------------------------------------ name resolution
    def resolve_name(self, mod, name, _seen=None):
        """resolve a module-level name used in module `mod`:
        ("func", qualname) ("class", qualname) ("const", modshort, name) ("ext", dotted)
        ("extmod", dotted) ("pkg", top, dotted-set) ("repomod", short) ("builtin", name) ("unknown", name)"""
        _seen = _seen or set()
        if (mod.name, name) in _seen:
            return ("unknown", name)
        _seen.add((mod.name, name))
        if name in mod.funcs:
            return ("func", mod.funcs[name].qualname)
        if name in mod.classes:
            return ("class", mod.classes[name].qualname)
        if name in mod.consts and name not in mod.imports:
            return ("const", mod.short, name)
        if name in mod.imports:
            imp = mod.imports[name]
            if imp[0] == "from":
                _k, src, attr, _g = imp
                if src in self.modules:
                    sm = self.modules[src]
                    sub = src + "." + attr
                    if attr in sm.funcs or attr in sm.classes or attr in sm.consts or attr in sm.imports:
                        return self.resolve_name(sm, attr, _seen)
                    if sub in self.modules:
                        return ("repomod", self.modules[sub].short)
                    return ("unknown", src + "." + attr)
                if src + "." + attr in self.modules:
                    return ("repomod", self.modules[src + "." + attr].short)
                return ("ext", src + "." + attr)
            if imp[0] == "mod":
                if imp[1] in self.modules:
                    return ("repomod", self.modules[imp[1]].short)
                return ("extmod", imp[1])
            if imp[0] == "pkg":
                return ("pkg", imp[1], imp[2])
        if name in mod.consts:
            return ("const", mod.short, name)
        if hasattr(builtins, name):
            return ("builtin", name)
        return ("unknown", name)

    def resolve_dotted(self, mod, chain):
        """resolve a dotted chain [a, b, c] whose root is a module-level name.
        Returns (resolution, remaining attribute names)."""
        r = self.resolve_name(mod, chain[0])
        rest = list(chain[1:])
        while rest:
            if r[0] == "pkg":
                full = [r[1]] + rest
                for i in range(len(full), 0, -1):  # longest repo-module prefix
                    cand = ".".join(full[:i])
                    if cand in self.modules:
                        r = ("repomod", self.modules[cand].short)
                        rest = full[i:]
                        break
                else:
                    return ("ext", ".".join(full)), []
                continue
            if r[0] == "repomod":
                sm = self.by_short[r[1]]
                r = self.resolve_name(sm, rest[0])
                rest = rest[1:]
                continue
            if r[0] == "extmod":
                return ("ext", ".".join([r[1]] + rest)), []
            if r[0] == "ext":
                return ("ext", ".".join([r[1]] + rest)), []
            break
        return r, rest

    def resolve_expr_static(self, mod, node):
        """resolve a Name / dotted Attribute at module level (used for bases, decorators)"""
        chain = dotted_chain(node)
        if chain is None:
            return ("unknown", ast.unparse(node))
        r, rest = self.resolve_dotted(mod, chain)
        if r[0] == "class":
            return ("repo", r[1])
        if r[0] == "ext":
            return ("ext", r[1] + ("." + ".".join(rest) if rest else ""))
        if r[0] == "builtin":
            return ("builtin", r[1])
        return r

    # ------------------------------------------------------------------ classes
    def mro(self, cls_qualname):
        """linearised in-repo MRO (simple left-to-right DFS, sufficient for the mix-in
        pattern used here); external bases are returned as ("ext", dotted) entries"""
        out = []
        seen = set()

        def go(q):
            if q in seen:
                return
            seen.add(q)
            out.append(("repo", q))
            for b in self.classes[q].bases:
                if b[0] == "repo":
                    go(b[1])
                elif b not in out:
                    out.append(b)

        go(cls_qualname)
        return out

    def find_method(self, cls_qualname, name, after=None):
        """method lookup along the MRO; `after` = class qualname after which to start
        (for super()).  Returns ("repo", FuncInfo) | ("ext", dotted) | None"""
        order = self.mro(cls_qualname)
        if after is not None:
            idx = [i for i, e in enumerate(order) if e == ("repo", after)]
            order = order[idx[0] + 1 :] if idx else order
        for e in order:
            if e[0] == "repo":
                fi = self.classes[e[1]].methods.get(name)
                if fi is not None:
                    return ("repo", fi)
            elif e[0] == "ext":
                return ("ext", e[1] + "." + name)
        return None

    # ------------------------------------------------------------------ exceptions
    EXT_EXC = {
        "cryptography.exceptions.InvalidSignature": ("InvalidSignature", "Exception"),
        "binascii.Error": ("binascii.Error", "ValueError"),
        "struct.error": ("struct.error", "Exception"),
        "json.JSONDecodeError": ("JSONDecodeError", "ValueError"),
        "json.decoder.JSONDecodeError": ("JSONDecodeError", "ValueError"),
    }

    def exc_parents(self):
        if self._exc_parents is None:
            par = {}
            for n in dir(builtins):
                o = getattr(builtins, n)
                if isinstance(o, type) and issubclass(o, BaseException) and o.__name__ == n:
                    par[n] = o.__mro__[1].__name__ if o is not BaseException else None
            for _d, (short, parent) in self.EXT_EXC.items():
                par[short] = parent
            for q, c in self.classes.items():
                short = q.split(".")[-1]
                for b in c.bases:
                    bn = self.exc_name_of_resolution(b)
                    if bn is not None and (bn in par or b[0] == "repo"):
                        if short in par and par[short] != bn:
                            raise AnalysisError("ambiguous exception class name %s" % short)
                        par[short] = bn
                        break
            # repo classes deriving from repo exception classes: fix-point
            changed = True
            while changed:
                changed = False
                for q, c in self.classes.items():
                    short = q.split(".")[-1]
                    if short in par:
                        continue
                    for b in c.bases:
                        if b[0] == "repo" and b[1].split(".")[-1] in par:
                            par[short] = b[1].split(".")[-1]
                            changed = True
            self._exc_parents = {k: v for k, v in par.items() if self._reaches_base(par, k)}
        return self._exc_parents

    @staticmethod
    def _reaches_base(par, k):
        seen = set()
        while k is not None and k not in seen:
            if k == "BaseException":
                return True
            seen.add(k)
            k = par.get(k)
        return False

    def exc_name_of_resolution(self, r):
        if r[0] == "repo":
            return r[1].split(".")[-1]
        if r[0] == "builtin":
            return r[1]
        if r[0] == "ext":
            e = self.EXT_EXC.get(r[1])
            return e[0] if e else None
        return None

    def exc_is_sub(self, e, parent):
        par = self.exc_parents()
        seen = set()
        while e is not None and e not in seen:
            if e == parent:
                return True
            seen.add(e)
            e = par.get(e)
        return False

    # ------------------------------------------------------------------ anchors
    def func(self, qualname):
        fi = self.funcs.get(qualname)
        if fi is None:
            raise AnalysisError("anchor function %s not found in %s (vanished anchor)" % (qualname, self.root))
        return fi

    def site(self, mod, node, fn_qualname=None):
        return Site(mod.relpath, getattr(node, "lineno", 0), getattr(node, "col_offset", 0), fn_qualname, _norm_text(node))


class Site(tuple):
    """(relpath, line, col, function qualname, normalised statement text)"""

    __slots__ = ()

    def __new__(cls, relpath, line, col, fn, text):
        return tuple.__new__(cls, (relpath, line, col, fn, text))

    relpath = property(lambda s: s[0])
    line = property(lambda s: s[1])
    col = property(lambda s: s[2])
    fn = property(lambda s: s[3])
    text = property(lambda s: s[4])

    def loc(self):
        return "%s:%d" % (self[0], self[1])

    def key(self):
        """line-number-free key: function + normalised text"""
        return "%s|%s" % (self[3], self[4])

    def __str__(self):
        return "%s:%d [%s] %s" % (self[0], self[1], self[3], self[4])


def _norm_text(node, limit=90):
    try:
        s = ast.unparse(node)
    except Exception:
        s = type(node).__name__
    s = " ".join(s.split())
    return s[:limit]


def _target_names(t):
    if isinstance(t, ast.Name):
        return [t.id]
    if isinstance(t, (ast.Tuple, ast.List)):
        out = []
        for e in t.elts:
            out += _target_names(e)
        return out
    return []


def _is_main_guard(test):
    return (
        isinstance(test, ast.Compare)
        and isinstance(test.left, ast.Name)
        and test.left.id == "__name__"
        and len(test.ops) == 1
        and isinstance(test.ops[0], ast.Eq)
        and isinstance(test.comparators[0], ast.Constant)
        and test.comparators[0].value == "__main__"
    )


def _direct_parent_func(outer, inner):
    """is `inner` nested in `outer` with no other function in between"""
    stack = [(outer, True)]
    for child in ast.iter_child_nodes(outer):
        pass

    def go(n):
        for ch in ast.iter_child_nodes(n):
            if ch is inner:
                return True
            if isinstance(ch, (ast.FunctionDef, ast.AsyncFunctionDef, ast.Lambda, ast.ClassDef)):
                continue
            if go(ch):
                return True
        return False

    return go(outer)


def dotted_chain(e):
    """Name / Attribute chain -> [names]; super().x -> ["super()", x]; else None"""
    parts = []
    while isinstance(e, ast.Attribute):
        parts.append(e.attr)
        e = e.value
    if isinstance(e, ast.Name):
        parts.append(e.id)
        return parts[::-1]
    if isinstance(e, ast.Call) and isinstance(e.func, ast.Name) and e.func.id == "super" and not e.args:
        parts.append("super()")
        return parts[::-1]
    return None
