"""Static-analysis engine for conda-content-trust (see /verif/DESIGN.md section 3).

Nothing in this package imports or executes conda_content_trust: the repository's
source is parsed with `ast` and analysed symbolically (guards -> facts, no solver).
"""


class AnalysisError(Exception):
    """The analysis cannot give a verdict (unsupported construct, unresolved call,
    vanished anchor, path cap).  Reported as ANALYSIS-ERROR / exit 2, never as a pass."""
