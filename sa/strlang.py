"""Regular languages of Python strings over a finite partition of Unicode.

Used to decide *semantically* whether the conjunction of string tests established on a path
(`bytes.fromhex(x)` succeeded, `x.isalnum()`, `x.lower() == x`, `len(x) == 64`, a regular
expression matched, `all(c in "0123456789abcdef" for c in x)`, ...) confines x to a target
grammar such as [0-9a-f]{64}, and whether the tests failed on a rejecting path exclude the
whole target grammar.  Every atom is a regular language; the alphabet is the partition of all
0x110000 code points induced by the character predicates the atoms mention (computed from the
interpreter's own str methods - nothing of the repository is executed), so inclusion and
disjointness are exact automaton questions and a failure comes with a witness string.

Atoms that are not recognised are ignored (the language only grows): "confined to the target"
stays sound, "excluded" becomes conservative.
"""
from __future__ import annotations

import functools

try:  # Python >= 3.11
    from re import _constants as sre_c
    from re import _parser as sre_p
except ImportError:  # pragma: no cover
    import sre_constants as sre_c
    import sre_parse as sre_p

MAXCP = 0x110000
HEXLOW = frozenset("0123456789abcdef")
HEXUP = frozenset("ABCDEF")
HEXWS = frozenset(" \t\n\r\x0b\x0c")  # what bytes.fromhex skips between byte pairs

SCANS = {
    "alnum": str.isalnum,
    "lowstable": lambda c: c.lower() == c,
    "upstable": lambda c: c.upper() == c,
    "decimal": str.isdecimal,
    "digit": str.isdigit,
    "space": str.isspace,
    "alpha": str.isalpha,
    "ascii": str.isascii,
    "word": lambda c: c.isalnum() or c == "_",
    # str.islower() / isupper() of a one-character string: a cased character of that case
    "lower1": str.islower,
    "upper1": str.isupper,
    # cased (has a lower or upper variant in the sense of str.islower/isupper/istitle)
    "cased": lambda c: c.islower() or c.isupper() or c.istitle(),
}


@functools.lru_cache(maxsize=None)
def _scan(name):
    if isinstance(name, tuple):  # ("range", lo, hi): a code-point interval
        return frozenset(range(max(0, name[1]), min(MAXCP - 1, name[2]) + 1))
    f = SCANS[name]
    return frozenset(i for i in range(MAXCP) if f(chr(i)))


class Unsupported(Exception):
    pass


# ---------------------------------------------------------------------------------- char sets
# A character set is a symbolic expression, evaluated against an alphabet (set of class ids):
#   ("chars", frozenset of str) | ("scan", name) | ("not", cs) | ("or", cs...) | ("and", cs...) | ("any",)


def cs_chars(chars):
    return ("chars", frozenset(chars))


def _cs_collect(cs, scans, chars):
    k = cs[0]
    if k == "chars":
        chars.update(cs[1])
    elif k == "scan":
        scans.add(cs[1])
    elif k == "range":
        scans.add(cs)
    elif k in ("not", "or", "and"):
        for x in cs[1:]:
            _cs_collect(x, scans, chars)


def _cs_holds(cs, ch):
    k = cs[0]
    if k == "chars":
        return ch in cs[1]
    if k == "scan":
        return SCANS[cs[1]](ch)
    if k == "range":
        return cs[1] <= ord(ch) <= cs[2]
    if k == "not":
        return not _cs_holds(cs[1], ch)
    if k == "or":
        return any(_cs_holds(x, ch) for x in cs[1:])
    if k == "and":
        return all(_cs_holds(x, ch) for x in cs[1:])
    if k == "any":
        return True
    raise Unsupported(k)


# ---------------------------------------------------------------------------------- regex AST
# ("sym", cs) | ("eps",) | ("empty",) | ("cat", a, b...) | ("alt", a, b...) | ("rep", a, lo, hi|None)


def cat(*xs):
    return ("cat",) + tuple(xs)


def alt(*xs):
    return ("alt",) + tuple(xs)


def rep(a, lo, hi):
    return ("rep", a, lo, hi)


def star(a):
    return ("rep", a, 0, None)


def sym(cs):
    return ("sym", cs)


ANY = ("any",)


def _collect(r, scans, chars):
    if r[0] == "sym":
        _cs_collect(r[1], scans, chars)
    elif r[0] in ("cat", "alt"):
        for x in r[1:]:
            _collect(x, scans, chars)
    elif r[0] == "rep":
        _collect(r[1], scans, chars)
    elif r[0] in ("and", "notl"):
        for x in r[1:]:
            _collect(x, scans, chars)


class Alphabet:
    """partition of all code points by the given scan predicates and explicit characters;
    classes are numbered, each with a representative character"""

    def __init__(self, scans, chars):
        self.scans = tuple(sorted(scans, key=repr))
        chars = set(chars)
        reps = []
        # every explicit character is its own class
        for ch in sorted(chars):
            reps.append(ch)
        # the remaining code points: one class per combination of scan predicates
        rest = None
        regions = [((), None)]
        for name in self.scans:
            S = _scan(name)
            new = []
            for bits, region in regions:
                inside = S if region is None else region & S
                outside = (_universe() - S) if region is None else region - S
                new.append((bits + (True,), inside))
                new.append((bits + (False,), outside))
            regions = new
        explicit_cp = frozenset(ord(c) for c in chars)
        for bits, region in regions:
            region = _universe() if region is None else region
            region = region - explicit_cp if explicit_cp else region
            if region:
                # prefer a printable representative
                reps.append(chr(min(region)))
        self.reps = reps
        self.n = len(reps)

    def classes(self, cs):
        return frozenset(i for i, ch in enumerate(self.reps) if _cs_holds(cs, ch))


@functools.lru_cache(maxsize=None)
def _universe():
    return frozenset(range(MAXCP))


# ---------------------------------------------------------------------------------- automata
class DFA:
    """complete DFA over class ids 0..n-1: trans[state][cls] -> state"""

    def __init__(self, n, trans, start, finals):
        self.n, self.trans, self.start, self.finals = n, trans, start, finals

    def complement(self):
        return DFA(self.n, self.trans, self.start, frozenset(range(len(self.trans))) - self.finals)

    def intersect(self, other):
        idx, trans, todo = {(self.start, other.start): 0}, [], [(self.start, other.start)]
        finals = set()
        while todo:
            a, b = todo.pop()
            i = idx[(a, b)]
            while len(trans) <= i:
                trans.append(None)
            row = []
            for c in range(self.n):
                nx = (self.trans[a][c], other.trans[b][c])
                if nx not in idx:
                    idx[nx] = len(idx)
                    todo.append(nx)
                row.append(idx[nx])
            trans[i] = row
            if a in self.finals and b in other.finals:
                finals.add(i)
        while len(trans) < len(idx):
            trans.append(None)
        return DFA(self.n, trans, 0, frozenset(finals))

    def witness(self):
        """shortest accepted word as a list of class ids, or None if the language is empty"""
        from collections import deque

        prev = {self.start: None}
        dq = deque([self.start])
        while dq:
            s = dq.popleft()
            if s in self.finals:
                out = []
                while prev[s] is not None:
                    s, c = prev[s]
                    out.append(c)
                return out[::-1]
            for c, t in enumerate(self.trans[s]):
                if t not in prev:
                    prev[t] = (s, c)
                    dq.append(t)
        return None

    def is_empty(self):
        return self.witness() is None


def _nfa(r, al, st):
    """Thompson construction; st = {"n": next state id, "eps": {s: set}, "tr": {s: [(classes, t)]}}
    -> (start, end)"""

    def new():
        st["n"] += 1
        return st["n"] - 1

    k = r[0]
    if k == "eps":
        a = new()
        return a, a
    if k == "empty":
        return new(), new()
    if k == "sym":
        a, b = new(), new()
        st["tr"].setdefault(a, []).append((al.classes(r[1]), b))
        return a, b
    if k == "cat":
        if len(r) == 1:
            a = new()
            return a, a
        s0, e0 = _nfa(r[1], al, st)
        for x in r[2:]:
            s1, e1 = _nfa(x, al, st)
            st["eps"].setdefault(e0, set()).add(s1)
            e0 = e1
        return s0, e0
    if k == "alt":
        a, b = new(), new()
        for x in r[1:]:
            s1, e1 = _nfa(x, al, st)
            st["eps"].setdefault(a, set()).add(s1)
            st["eps"].setdefault(e1, set()).add(b)
        return a, b
    if k == "rep":
        _k, x, lo, hi = r
        if hi is not None and hi > 4096 or lo > 4096:
            raise Unsupported("repetition bound")
        parts = [x] * lo
        s0 = new()
        e0 = s0
        for p in parts:
            s1, e1 = _nfa(p, al, st)
            st["eps"].setdefault(e0, set()).add(s1)
            e0 = e1
        if hi is None:
            s1, e1 = _nfa(x, al, st)
            st["eps"].setdefault(e0, set()).add(s1)
            st["eps"].setdefault(e1, set()).add(e0)
            return s0, e0
        end = new()
        st["eps"].setdefault(e0, set()).add(end)
        for _i in range(hi - lo):
            s1, e1 = _nfa(x, al, st)
            st["eps"].setdefault(e0, set()).add(s1)
            st["eps"].setdefault(e1, set()).add(end)
            e0 = e1
        return s0, end
    raise Unsupported("regex node %s" % k)


def to_dfa(r, al):
    if r[0] == "and":
        d = to_dfa(r[1], al)
        for x in r[2:]:
            d = d.intersect(to_dfa(x, al))
        return d
    if r[0] == "notl":
        return to_dfa(r[1], al).complement()
    st = {"n": 0, "eps": {}, "tr": {}}
    s, e = _nfa(r, al, st)

    def closure(S):
        S = set(S)
        todo = list(S)
        while todo:
            x = todo.pop()
            for y in st["eps"].get(x, ()):
                if y not in S:
                    S.add(y)
                    todo.append(y)
        return frozenset(S)

    start = closure([s])
    idx, trans, todo = {start: 0}, [], [start]
    while todo:
        S = todo.pop()
        i = idx[S]
        row = []
        for c in range(al.n):
            T = set()
            for x in S:
                for classes, t in st["tr"].get(x, ()):
                    if c in classes:
                        T.add(t)
            T = closure(T)
            if T not in idx:
                idx[T] = len(idx)
                todo.append(T)
            row.append(idx[T])
        while len(trans) <= i:
            trans.append(None)
        trans[i] = row
    finals = frozenset(i for S, i in idx.items() if e in S)
    return DFA(al.n, trans, 0, finals)


# ---------------------------------------------------------------------------------- atoms
def L_all():
    return star(sym(ANY))


def L_fromhex():
    h = sym(("chars", HEXLOW | HEXUP))
    ws = star(sym(("chars", HEXWS)))
    return cat(star(cat(ws, h, h)), ws)


def L_isalnum():
    a = sym(("scan", "alnum"))
    return cat(a, star(a))


def L_allchars(scan, nonempty):
    a = sym(("scan", scan))
    return cat(a, star(a)) if nonempty else star(a)


def L_islower():
    """str.islower(): no cased character that is not lower case, and at least one lower-case one"""
    low = sym(("scan", "lower1"))
    other = sym(("or", ("scan", "lower1"), ("not", ("scan", "cased"))))
    return cat(star(other), low, star(other))


def L_isupper():
    up = sym(("scan", "upper1"))
    other = sym(("or", ("scan", "upper1"), ("not", ("scan", "cased"))))
    return cat(star(other), up, star(other))


def L_lower_fixed():
    return star(sym(("scan", "lowstable")))


def L_upper_fixed():
    return star(sym(("scan", "upstable")))


def L_len(op, n):
    a = sym(ANY)
    if n < 0:
        return {"==": ("empty",), "<": ("empty",), "<=": ("empty",)}.get(op, L_all())
    if op == "==":
        return rep(a, n, n)
    if op == "!=":
        return ("notl", rep(a, n, n))
    if op == "<":
        return rep(a, 0, n - 1) if n > 0 else ("empty",)
    if op == "<=":
        return rep(a, 0, n)
    if op == ">":
        return rep(a, n + 1, None)
    if op == ">=":
        return rep(a, n, None)
    raise Unsupported(op)


def L_len_mod(m, r):
    a = sym(ANY)
    return cat(rep(a, r, r), star(rep(a, m, m)))


def L_charset(chars, nonempty=False):
    a = sym(("chars", frozenset(chars)))
    return cat(a, star(a)) if nonempty else star(a)


def L_hex(n=None):
    h = sym(("chars", HEXLOW))
    return rep(h, n, n) if n is not None else cat(h, h, star(cat(h, h)))


# ---------------------------------------------------------------------------------- regex patterns
_CATS = {
    sre_c.CATEGORY_DIGIT: ("scan", "decimal"),
    sre_c.CATEGORY_NOT_DIGIT: ("not", ("scan", "decimal")),
    sre_c.CATEGORY_WORD: ("scan", "word"),
    sre_c.CATEGORY_NOT_WORD: ("not", ("scan", "word")),
    sre_c.CATEGORY_SPACE: ("scan", "space"),
    sre_c.CATEGORY_NOT_SPACE: ("not", ("scan", "space")),
}
_ASCII_CATS = {
    sre_c.CATEGORY_DIGIT: ("chars", frozenset("0123456789")),
    sre_c.CATEGORY_NOT_DIGIT: ("not", ("chars", frozenset("0123456789"))),
    sre_c.CATEGORY_WORD: ("chars", frozenset("0123456789abcdefghijklmnopqrstuvwxyzABCDEFGHIJKLMNOPQRSTUVWXYZ_")),
    sre_c.CATEGORY_NOT_WORD: ("not", ("chars", frozenset("0123456789abcdefghijklmnopqrstuvwxyzABCDEFGHIJKLMNOPQRSTUVWXYZ_"))),
    sre_c.CATEGORY_SPACE: ("chars", frozenset(" \t\n\r\x0b\x0c")),
    sre_c.CATEGORY_NOT_SPACE: ("not", ("chars", frozenset(" \t\n\r\x0b\x0c"))),
}


def regex_language(pattern, mode, flags=0):
    """language of strings s with re.<mode>(pattern, s) not None; mode in fullmatch/match/search.
    Supported: literals, classes, ., |, groups, greedy/lazy repeats, ^ \\A at the start, $ \\Z at
    the end; flags ASCII/DOTALL/VERBOSE-free.  Anything else -> Unsupported."""
    import re

    if not isinstance(pattern, str):
        raise Unsupported("bytes pattern")
    allowed = re.ASCII | re.DOTALL | re.UNICODE
    if flags & ~allowed:
        raise Unsupported("regex flags %r" % flags)
    try:
        tree = sre_p.parse(pattern, flags)
    except Exception as e:
        raise Unsupported("pattern does not parse: %s" % e)
    fl = tree.state.flags | flags
    if fl & ~(allowed):
        raise Unsupported("inline regex flags")
    ascii_mode = bool(fl & re.ASCII)
    dotall = bool(fl & re.DOTALL)
    items = list(tree)
    anchored_start = strict_end = dollar = False
    while items and items[0][0] is sre_c.AT and items[0][1] in (sre_c.AT_BEGINNING, sre_c.AT_BEGINNING_STRING):
        items.pop(0)
        anchored_start = True
    while items and items[-1][0] is sre_c.AT and items[-1][1] in (sre_c.AT_END, sre_c.AT_END_STRING):
        if items.pop()[1] is sre_c.AT_END_STRING:
            strict_end = True  # \Z: only the very end (wins over a neighbouring $)
        else:
            dollar = True  # $: the end, or just before one trailing newline
    anchored_end = strict_end or dollar
    body = _conv_seq(items, ascii_mode, dotall)
    anyc = star(sym(ANY))
    nl_opt = alt(("eps",), sym(("chars", frozenset("\n"))))
    if mode == "fullmatch":
        # anchors at the edges are no-ops: the whole string has to be consumed anyway
        return body
    if mode == "match":
        if anchored_end:
            return body if strict_end else cat(body, nl_opt)
        return cat(body, anyc)
    if mode == "search":
        pre = ("eps",) if anchored_start else anyc
        if anchored_end:
            return cat(pre, body) if strict_end else cat(pre, body, nl_opt)
        return cat(pre, body, anyc)
    raise Unsupported("regex mode %s" % mode)


def _conv_seq(items, ascii_mode, dotall):
    return cat(*[_conv(op, av, ascii_mode, dotall) for op, av in items]) if items else ("eps",)


def _conv_class(av, ascii_mode):
    neg = False
    parts = []
    for op, a in av:
        if op is sre_c.NEGATE:
            neg = True
        elif op is sre_c.LITERAL:
            parts.append(("chars", frozenset(chr(a))))
        elif op is sre_c.RANGE:
            lo, hi = a
            if hi - lo > 70000:
                raise Unsupported("huge character range")
            parts.append(("chars", frozenset(chr(i) for i in range(lo, hi + 1))))
        elif op is sre_c.CATEGORY:
            table = _ASCII_CATS if ascii_mode else _CATS
            if a not in table:
                raise Unsupported("regex category %s" % a)
            parts.append(table[a])
        else:
            raise Unsupported("regex class item %s" % op)
    cs = ("or",) + tuple(parts) if len(parts) != 1 else parts[0]
    return ("not", cs) if neg else cs


def _conv(op, av, ascii_mode, dotall):
    if op is sre_c.LITERAL:
        return sym(("chars", frozenset(chr(av))))
    if op is sre_c.NOT_LITERAL:
        return sym(("not", ("chars", frozenset(chr(av)))))
    if op is sre_c.ANY:
        return sym(ANY) if dotall else sym(("not", ("chars", frozenset("\n"))))
    if op is sre_c.IN:
        return sym(_conv_class(av, ascii_mode))
    if op is sre_c.CATEGORY:
        table = _ASCII_CATS if ascii_mode else _CATS
        return sym(table[av])
    if op is sre_c.BRANCH:
        return alt(*[_conv_seq(list(b), ascii_mode, dotall) for b in av[1]])
    if op is sre_c.SUBPATTERN:
        group, add, dele, p = av
        if add or dele:
            raise Unsupported("scoped regex flags")
        return _conv_seq(list(p), ascii_mode, dotall)
    if op in (sre_c.MAX_REPEAT, sre_c.MIN_REPEAT) or getattr(sre_c, "POSSESSIVE_REPEAT", None) is op:
        lo, hi, p = av
        if getattr(sre_c, "POSSESSIVE_REPEAT", None) is op:
            raise Unsupported("possessive repeat")
        return rep(_conv_seq(list(p), ascii_mode, dotall), lo, None if hi is sre_c.MAXREPEAT else hi)
    raise Unsupported("regex construct %s" % op)


# ---------------------------------------------------------------------------------- decisions
def decide(atoms, target):
    """atoms: list of language ASTs (conjunction); target: language AST.
    -> {"included": bool, "witness_outside": str|None, "disjoint": bool, "witness_common": str|None}"""
    scans, chars = set(), set()
    for a in list(atoms) + [target]:
        _collect(a, scans, chars)
    al = Alphabet(scans, chars)
    d = to_dfa(L_all(), al)
    for a in atoms:
        d = d.intersect(to_dfa(a, al))
    t = to_dfa(target, al)
    out_w = d.intersect(t.complement()).witness()
    com_w = d.intersect(t).witness()

    def word(w):
        return None if w is None else "".join(al.reps[c] for c in w)

    return {"included": out_w is None, "witness_outside": word(out_w), "disjoint": com_w is None, "witness_common": word(com_w), "classes": al.n}


# ---------------------------------------------------------------------------------- self-check
def _accepts(dfa, word):
    st = dfa.start
    for c in word:
        st = dfa.trans[st][c]
    return st in dfa.finals


def validate_atoms(maxlen=3):
    """compare the automaton of every atom with what the interpreter's own functions say, on every
    word up to `maxlen` characters over one representative per character class (the partition is
    exact, so representatives stand for their classes).  -> (words checked, list of mismatches)"""
    import itertools
    import re

    def ok_fromhex(s):
        try:
            bytes.fromhex(s)
            return True
        except ValueError:
            return False

    def roundtrip(s):
        try:
            return bytes.fromhex(s).hex() == s
        except ValueError:
            return False

    atoms = [
        ("bytes.fromhex(s) succeeds", L_fromhex(), ok_fromhex),
        ("s.isalnum()", L_isalnum(), str.isalnum),
        ("s.lower() == s", L_lower_fixed(), lambda s: s.lower() == s),
        ("s.upper() == s", L_upper_fixed(), lambda s: s.upper() == s),
        ("s.islower()", L_islower(), str.islower),
        ("s.isupper()", L_isupper(), str.isupper),
        ("s.isdigit()", L_allchars("digit", True), str.isdigit),
        ("s.isdecimal()", L_allchars("decimal", True), str.isdecimal),
        ("s.isascii()", L_allchars("ascii", False), str.isascii),
        ("len(s) == 2", L_len("==", 2), lambda s: len(s) == 2),
        ("len(s) % 2 == 0", L_len_mod(2, 0), lambda s: len(s) % 2 == 0),
        ("bytes.fromhex(s).hex() == s", ("and", L_fromhex(), star(cat(sym(("chars", HEXLOW)), sym(("chars", HEXLOW))))), roundtrip),
        ("re.fullmatch('(?:[0-9a-f]{2})+', s)", regex_language("(?:[0-9a-f]{2})+", "fullmatch"), lambda s: re.fullmatch("(?:[0-9a-f]{2})+", s) is not None),
        ("re.match('^[0-9a-f]+$', s)", regex_language("^[0-9a-f]+$", "match"), lambda s: re.match("^[0-9a-f]+$", s) is not None),
        ("re.match('[0-9a-f]+\\\\Z', s)", regex_language("[0-9a-f]+\\Z", "match"), lambda s: re.match("[0-9a-f]+\\Z", s) is not None),
        ("re.search('[\\\\da-f]', s)", regex_language("[\\da-f]", "search"), lambda s: re.search("[\\da-f]", s) is not None),
        ("re.fullmatch('\\\\w.', s)", regex_language("\\w.", "fullmatch"), lambda s: re.fullmatch("\\w.", s) is not None),
    ]
    scans, chars = set(), set()
    for _n, a, _f in atoms:
        _collect(a, scans, chars)
    al = Alphabet(scans, chars)
    dfas = [(n, to_dfa(a, al), f) for n, a, f in atoms]
    words = 0
    bad = []
    for n in range(maxlen + 1):
        for w in itertools.product(range(al.n), repeat=n):
            s = "".join(al.reps[c] for c in w)
            words += 1
            for name, d, f in dfas:
                if _accepts(d, w) != bool(f(s)):
                    bad.append((name, s))
                    if len(bad) > 20:
                        return words, bad, al.n
    return words, bad, al.n


# ---------------------------------------------------------------------------------- backtracking
def _first_chars(items):
    """(set of ASCII characters an item sequence can start with, can it match the empty string)"""
    ascii_chars = [chr(i) for i in range(128)]
    first, nullable = set(), True
    for op, av in items:
        f, n = _first_of(op, av, ascii_chars)
        first |= f
        if not n:
            nullable = False
            break
    return first, nullable


def _first_of(op, av, ascii_chars):
    if op is sre_c.LITERAL:
        return {chr(av)} if av < 128 else {"\u0080"}, False
    if op is sre_c.NOT_LITERAL:
        return {c for c in ascii_chars if ord(c) != av} | {"\u0080"}, False
    if op is sre_c.ANY:
        return set(ascii_chars) | {"\u0080"}, False
    if op is sre_c.IN or op is sre_c.CATEGORY:
        cs = _conv_class(av, False) if op is sre_c.IN else _CATS[av]
        return {c for c in ascii_chars + ["\u0080"] if _cs_holds(cs, c if c != "\u0080" else "\u00e9")}, False
    if op is sre_c.BRANCH:
        f, n = set(), False
        for b in av[1]:
            f2, n2 = _first_chars(list(b))
            f |= f2
            n = n or n2
        return f, n
    if op is sre_c.SUBPATTERN:
        return _first_chars(list(av[3]))
    if op in (sre_c.MAX_REPEAT, sre_c.MIN_REPEAT):
        lo, _hi, p = av
        f, n = _first_chars(list(p))
        return f, n or lo == 0
    if op is sre_c.AT:
        return set(), True
    return set(ascii_chars), True


def exponential_backtracking(pattern, flags=0):
    """a (conservative) structural test for catastrophic backtracking: an unbounded repetition whose
    body contains another unbounded repetition that is followed, inside the body, by something
    that can be empty or can start with a character the inner repetition also accepts - then a
    long run of such characters can be split between iterations in exponentially many ways.
    -> description of the offending sub-pattern, or None"""
    try:
        tree = sre_p.parse(pattern, flags)
    except Exception:
        return None

    def unbounded(op, av):
        return op in (sre_c.MAX_REPEAT, sre_c.MIN_REPEAT) and av[1] is sre_c.MAXREPEAT

    def visit(items, inside_unbounded):
        items = list(items)
        for i, (op, av) in enumerate(items):
            if op in (sre_c.MAX_REPEAT, sre_c.MIN_REPEAT):
                body = list(av[2])
                if unbounded(op, av) and inside_unbounded is not None:
                    # an unbounded repeat directly inside the body of an unbounded repeat: a run of
                    # characters the inner repeat accepts can be split between iterations when what
                    # may follow it - the rest of the body, or (that being possibly empty) the start
                    # of the next iteration - can begin with such a character too
                    tail_first, tail_nullable = _first_chars(items[i + 1 :])
                    inner_first, _n = _first_chars(body)
                    next_first = set(tail_first)
                    if tail_nullable:
                        of, on = _first_chars(list(inside_unbounded[1][2]))
                        next_first |= set(of)
                        if on:
                            return "nested unbounded repetition in %r" % pattern
                    if next_first & set(inner_first):
                        return "nested unbounded repetition in %r" % pattern
                r = visit(body, (op, av) if unbounded(op, av) else inside_unbounded)
                if r:
                    return r
            elif op is sre_c.SUBPATTERN:
                # a group is transparent: what follows the group inside the outer body counts as tail
                sub = list(av[3])
                r = visit(sub + items[i + 1 :], inside_unbounded) if inside_unbounded is not None else visit(sub, None)
                if r:
                    return r
            elif op is sre_c.BRANCH:
                for b in av[1]:
                    r = visit(list(b) + (items[i + 1 :] if inside_unbounded is not None else []), inside_unbounded)
                    if r:
                        return r
        return None

    return visit(list(tree), None)
